"""DIM — index-dimension analysis: byte offsets (B) vs character counts (C).

dim(fn, expr) in {'B','C','K' (dimension-free constant),'U' (unknown),'MIX'}.
Sources of B: str::len, String::len, len_utf8, str::find, the offset component of a
CharIndices item. Sources of C: Iterator::count on a Chars/CharIndices-derived iterator, the
index component of Enumerate over Chars, chars().nth's argument position (a sink), the
editor's character cursor field (found by role). x +/- constant keeps the dimension.
Local function results get a summary (join over every value stored to the return place);
parameters get the join of the dimensions passed at all call sites.
"""
import re
from .facts import callee_of, expr_walk, place_is_local
from . import kit

B_CALLS = re.compile(r"(core::str::<impl str>::len$|alloc::string::String::len$|core::char::methods::<impl char>::len_utf8$|"
                     r"core::str::<impl str>::find$|core::str::<impl str>::rfind$|core::str::<impl str>::floor_char_boundary$)")


def _item_call(c):
    """calls that hand out one item of an iterator: next(), and the searching consumers that return an item (`find`, `nth`, `last`)"""
    c = str(c)
    return c.endswith("::next") or c.endswith("iterator::Iterator::find") or c.endswith("iterator::Iterator::nth") or c.endswith("iterator::Iterator::last")


def join(a, b):
    if a is None:
        return b
    if b is None:
        return a
    if a == b:
        return a
    if a == "K":
        return b
    if b == "K":
        return a
    if "U" in (a, b):
        return "U"
    return "MIX"


class Dim:
    def __init__(self, ctx, cursor_fields=(), byte_fields=()):
        self.ctx = ctx
        self.prog = ctx.prog
        self.cursor_fields = set(cursor_fields)   # field names holding character cursors
        self.byte_fields = set(byte_fields)       # field names holding byte offsets
        self._ret = {}
        self._param = {}
        self._busy = set()
        self._sites = None

    def call_sites(self, name):
        if self._sites is None:
            self._sites = {}
            for n, f in self.prog.fns.items():
                if f.bkind != "fn":
                    continue
                for b, t, c in f.calls():
                    if c:
                        self._sites.setdefault(c, []).append((f, t))
        return self._sites.get(name, [])

    def ret_dim(self, name):
        if name in self._ret:
            return self._ret[name]
        if name in self._busy:
            return None
        self._busy.add(name)
        f = self.prog.fns[name]
        d = None
        for b, i, s in f.assigns():
            if s["p"]["l"] == 0 and place_is_local(s["p"]):
                d = join(d, self.dim(f, f.rvalue_expr(s["r"], 10, stop={"named"})))
        for b, t, c in f.calls():
            if t["dest"]["l"] == 0 and place_is_local(t["dest"]):
                d = join(d, self.dim(f, ("call", c, tuple(f.expr(a, 8, stop={"named"}) for a in t["args"])), term=t))
        self._busy.discard(name)
        self._ret[name] = d or "U"
        return self._ret[name]

    def param_dim(self, fn, idx):
        key = (fn.name, idx)
        if key in self._param:
            return self._param[key]
        if key in self._busy:
            return None
        self._busy.add(key)
        d = None
        sites = self.call_sites(fn.name)
        for caller, t in sites:
            if idx - 1 < len(t["args"]):
                d = join(d, self.dim(caller, caller.expr(t["args"][idx - 1], 10, stop={"named"})))
        self._busy.discard(key)
        self._param[key] = d or "U"
        return self._param[key]

    def _iter_item_dim(self, fn, e):
        """e = field .0 of (payload of) next() on some iterator: B for CharIndices, C for Enumerate<..Chars..>"""
        for x in expr_walk(e):
            if x[0] == "call" and x[1] and _item_call(x[1]):
                # find the call terminator to read the receiver type
                for b, t, c in fn.calls():
                    if c == x[1]:
                        ty = (t.get("arg_tys") or [""])[0]
                        if "Enumerate<" in ty and ("Chars" in ty or "CharIndices" in ty):
                            return "C"
                        if "CharIndices" in ty:
                            return "B"
                # `&mut I` (by_ref): look at the local's type
                for b, t, c in fn.calls():
                    if c == x[1]:
                        for a in t["args"]:
                            l = a.get("p", {}).get("l") if a.get("k") in ("copy", "move") else None
                            if l is not None:
                                ty = fn.local_ty(l)
                                sd = fn.single_def(l)
                                if sd and sd[0] == "stmt" and sd[3]["r"]["k"] == "ref":
                                    ty = fn.local_ty(sd[3]["r"]["p"]["l"])
                                    # by_ref of a named iterator local
                                    src = sd[3]["r"]["p"]["l"]
                                    sd2 = fn.single_def(src)
                                    if sd2 and sd2[0] == "stmt" and sd2[3]["r"]["k"] == "ref":
                                        ty = fn.local_ty(sd2[3]["r"]["p"]["l"])
                                if "Enumerate<" in ty and "Chars" in ty:
                                    return "C"
                                if "CharIndices" in ty:
                                    return "B"
        return None

    def dim(self, fn, e, term=None, depth=0, _vis=frozenset()):
        if depth > 10:
            return "U"
        k = e[0]
        if k == "local":
            if (fn.name, e[1]) in _vis:
                return None          # loop-carried self reference: neutral
            _vis = _vis | {(fn.name, e[1])}
            d = None
            if fn.is_arg(e[1]):
                d = self.param_dim(fn, e[1])
            for kind, b, i, node in fn.defs().get(e[1], []):
                if kind in ("stmt", "partial"):
                    d = join(d, self.dim(fn, fn.rvalue_expr(node["r"], 8, stop={"named"}), depth=depth + 1, _vis=_vis))
                elif kind == "call":
                    d = join(d, self.dim(fn, ("call", callee_of(node), tuple(fn.expr(a, 6, stop={"named"}) for a in node["args"])), depth=depth + 1, _vis=_vis))
            return d or "U"
        if k == "const":
            return "K"
        if k in ("ref", "deref", "cast"):
            return self.dim(fn, e[3] if k == "cast" else e[1], depth=depth + 1, _vis=_vis)
        if k == "field":
            if e[2] in self.cursor_fields:
                return "C"
            if e[2] in self.byte_fields:
                return "B"
            if e[2] in ("0",):
                d = self._iter_item_dim(fn, e)
                if d:
                    inner = e[1][0] == "field" and e[1][2] == "1"
                    if inner and d == "C":
                        # (i, (j, ch)) of enumerate(char_indices()): j is the byte offset
                        return "B" if any(x[0] == "call" and x[1] and x[1].endswith("::next") for x in expr_walk(e)) and self._has_char_indices(fn, e) else "U"
                    return d
            if e[2] in ("0",) and e[1][0] == "downcast" and e[1][2] == "Some":
                cs = e[1][1]
                while cs[0] in ("ref", "deref"):
                    cs = cs[1]
                if cs[0] == "call" and re.search(r"<impl usize>::checked_(sub|add)$", str(cs[1])) and len(cs[2]) == 2:
                    return join(self.dim(fn, cs[2][0], depth=depth + 1, _vis=_vis), self.dim(fn, cs[2][1], depth=depth + 1, _vis=_vis))
            if e[2] in ("0", "1") and e[1][0] == "call" and e[1][1] in self.prog.fns:
                # tuple result of a local helper: summarise each component separately
                return self.tuple_ret_dim(e[1][1], int(e[2]))
            return "U"
        if k == "downcast":
            return self.dim(fn, e[1], depth=depth + 1, _vis=_vis)
        if k in ("bin", "checked") and e[1] in ("Add", "Sub"):
            a, b = self.dim(fn, e[2], depth=depth + 1, _vis=_vis), self.dim(fn, e[3], depth=depth + 1, _vis=_vis)
            return join(a, b)
        if k == "arg":
            return self.param_dim(fn, e[1]) or "U"
        if k == "call":
            c = e[1] or ""
            if B_CALLS.search(c):
                return "B"
            if c.endswith("Iterator::count") or c.endswith("::count"):
                return "C" if any(x[0] == "call" and x[1] and (x[1].endswith("::chars") or x[1].endswith("::char_indices")) for x in expr_walk(e)) else "U"
            if c in self.prog.fns:
                return self.ret_dim(c) or "U"
            if c.endswith("Option::<T>::unwrap_or") and len(e[2]) == 2:
                # Some(x) => x, None => the default: the join of both
                return join(self.dim(fn, e[2][0], depth=depth + 1, _vis=_vis), self.dim(fn, e[2][1], depth=depth + 1, _vis=_vis)) or "U"
            if c.endswith("Option::<T>::map_or") and len(e[2]) == 3:
                # `iter.nth(i).map_or(default, |(j, _)| j)`: the default, or the component of the item the closure hands back
                dd = self.dim(fn, e[2][1], depth=depth + 1, _vis=_vis)
                cn = [y[1][1] for y in expr_walk(e[2][2]) if y[0] == "agg" and isinstance(y[1], tuple) and y[1] and y[1][0] == "closure"]
                dc = "U"
                if cn and cn[0] in self.prog.fns:
                    cf = self.prog.fns[cn[0]]
                    r = cf.local_expr(0, 8)
                    while r[0] in ("ref", "deref", "cast"):
                        r = r[3] if r[0] == "cast" else r[1]
                    if r[0] == "field" and str(r[2]).isdigit() and r[1][0] == "arg" and r[1][1] == 2:
                        dc = self._iter_item_dim(fn, ("field", e[2][0], r[2])) or "U"
                        if dc == "C" and r[2] == "0" and self._has_char_indices(fn, e) and "Enumerate" not in str(e):
                            dc = "B"
                return join(dd, dc) or "U"
            if re.search(r"<impl usize>::(saturating|wrapping)_(sub|add)$", c) and len(e[2]) == 2:
                # a step that cannot leave the type: the dimension of its operands, like `+` / `-`
                return join(self.dim(fn, e[2][0], depth=depth + 1, _vis=_vis), self.dim(fn, e[2][1], depth=depth + 1, _vis=_vis))
            if c.endswith("::min") or c.endswith("::max"):
                d = None
                for a in e[2]:
                    d = join(d, self.dim(fn, a, depth=depth + 1, _vis=_vis))
                return d or "U"
            return "U"
        return "U"

    def _has_char_indices(self, fn, e):
        for b, t, c in fn.calls():
            if c and c.endswith("::next") and "CharIndices" in (t.get("arg_tys") or [""])[0]:
                return True
        return False

    def tuple_ret_dim(self, name, idx):
        f = self.prog.fns[name]
        d = None
        for b, i, s in f.assigns():
            if s["p"]["l"] == 0 and place_is_local(s["p"]) and s["r"]["k"] == "agg" and s["r"].get("ak") == "tuple":
                d = join(d, self.dim(f, f.expr(s["r"]["ops"][idx], 10, stop={"named"})))
        return d or "U"
