"""LIN — linear forms modulo 2^16 over expression trees.

lin(e) = (c0, {symbol: coeff}) with wrapping and checked + and -, casts between integer
types and references as identity; everything else becomes an opaque symbol named by its
printed form (or by a caller-supplied naming function). Equivalent rewrites (wrapping_add,
reassociation, an extra temporary) give the same form.
"""
import re
from .facts import expr_str

MOD = 1 << 16

_ADD = re.compile(r"(core::num::<impl [ui]\d+>::(wrapping_add|overflowing_add|checked_add)|core::ops::arith::Add(<.*>)?>::add)$")
_SUB = re.compile(r"(core::num::<impl [ui]\d+>::(wrapping_sub|overflowing_sub|checked_sub)|core::ops::arith::Sub(<.*>)?>::sub)$")


PROG = [None]          # set by core.Ctx; lets lin() look into one-expression helpers of the analysed crates
_BODIES = {}


def _pure_body(name, nargs):
    prog = PROG[0]
    if prog is None:
        return None
    key = (id(prog), name)
    if key not in _BODIES:
        out = None
        f = prog.fns.get(name)
        if f is not None and f.bkind == "fn" and f.arg_count == nargs and 1 <= nargs <= 3 and len(f.live_blocks()) <= 3:
            calls = [c for b, t, c in f.calls()]
            if all(c and (_ADD.search(c) or _SUB.search(c)) for c in calls):
                e = f.local_expr(0, 10)
                def ok(x):
                    return not (isinstance(x, tuple) and x and x[0] == "local") and all(ok(y) for y in x if isinstance(y, tuple)) if isinstance(x, tuple) else True
                # only helpers that *compute* (a sum or difference); plain getters stay visible as calls
                if ok(e) and (e[0] in ("bin", "checked") and e[1] in ("Add", "Sub") or (e[0] == "call" and (_ADD.search(str(e[1])) or _SUB.search(str(e[1]))))):
                    out = e
        _BODIES[key] = out
    return _BODIES[key]


def _subst_args(e, args):
    if isinstance(e, tuple) and e and e[0] == "arg" and isinstance(e[1], int) and 1 <= e[1] <= len(args):
        return args[e[1] - 1]
    if isinstance(e, tuple):
        return tuple(_subst_args(x, args) if isinstance(x, tuple) else x for x in e)
    return e


def _merge(a, b, sign=1):
    c = (a[0] + sign * b[0]) % MOD
    d = dict(a[1])
    for k, v in b[1].items():
        nv = (d.get(k, 0) + sign * v) % MOD
        if nv:
            d[k] = nv
        else:
            d.pop(k, None)
    return (c, d)


def lin(e, name=None):
    """name(e) -> symbol string or None to keep descending"""
    if name:
        nm = name(e)
        if nm is not None:
            return (0, {nm: 1})
    k = e[0]
    if k == "const" and isinstance(e[1], int):
        return (e[1] % MOD, {})
    if k in ("cast",):
        return lin(e[3], name)
    if k in ("ref", "deref"):
        return lin(e[1], name)
    if k in ("bin", "checked") and e[1] in ("Add", "Sub"):
        a, b = lin(e[2], name), lin(e[3], name)
        return _merge(a, b, 1 if e[1] == "Add" else -1)
    if k == "bin" and e[1] == "Mul":
        a, b = lin(e[2], name), lin(e[3], name)
        if not a[1]:
            return ((a[0] * b[0]) % MOD, {s: (c * a[0]) % MOD for s, c in b[1].items()})
        if not b[1]:
            return ((a[0] * b[0]) % MOD, {s: (c * b[0]) % MOD for s, c in a[1].items()})
    if k == "call" and e[1]:
        body = _pure_body(e[1], len(e[2]))
        if body is not None:
            # a one-expression helper of the crate (`Span::end(&self) = self.offs.0 + self.len`): its value is its body
            return lin(_subst_args(body, e[2]), name)
        if _ADD.search(e[1]) and len(e[2]) == 2:
            return _merge(lin(e[2][0], name), lin(e[2][1], name), 1)
        if _SUB.search(e[1]) and len(e[2]) == 2:
            return _merge(lin(e[2][0], name), lin(e[2][1], name), -1)
    if k == "field" and e[2] in ("0",) and e[1][0] == "call" and e[1][1] and (_ADD.search(e[1][1]) or _SUB.search(e[1][1])):
        return lin(e[1], name)   # overflowing_*().0
    if k == "downcast":
        return lin(e[1], name)
    if k == "field" and e[1][0] == "downcast" and e[1][2] in ("Some", "Continue", "Ok") and e[2] in ("0",):
        # payload of Some(..)/`?`: look through to what was wrapped when it is a checked op
        inner = e[1][1]
        if inner[0] == "call" and inner[1] and ("Try>::branch" in inner[1]):
            inner = inner[2][0]
        while inner[0] == "call" and inner[1] and re.search(r"Result::<T, E>::ok$|Option::<T>::ok_or(_else)?$", inner[1]) and inner[2]:
            inner = inner[2][0]                 # `.ok()?` / `.ok_or(..)?`: the same payload in the other wrapper
        if inner[0] == "call" and inner[1] and (_ADD.search(inner[1]) or _SUB.search(inner[1])):
            return lin(inner, name)
        if inner[0] == "call" and inner[1] and re.search(r"convert::TryFrom<.*>>::try_from$|convert::TryInto<.*>>::try_into$|convert::num::<impl core::convert::TryFrom<\w+> for \w+>::try_from$", inner[1]) and len(inner[2]) == 1:
            return lin(inner[2][0], name)       # a checked integer conversion that succeeded is the value itself
    return (0, {expr_str(e, 120): 1})


def show(l):
    c, d = l
    parts = []
    for s in sorted(d):
        co = d[s]
        if co == 1:
            parts.append(s)
        elif co == MOD - 1:
            parts.append("-" + s)
        else:
            parts.append("%d*%s" % (co if co < MOD // 2 else co - MOD, s))
    if c:
        parts.append(str(c if c < MOD // 2 else c - MOD))
    return " + ".join(parts).replace("+ -", "- ") if parts else "0"


def form(const=0, **syms):
    return (const % MOD, {k: v % MOD for k, v in syms.items() if v % MOD})


def same(l, const, syms):
    """l equals const + sum(coeff*symbol) where `syms` maps a *predicate on symbol names* or exact names to coeffs.
    syms: list of (matcher, coeff); matcher = str (substring) or callable."""
    c, d = l
    if c != const % MOD:
        return False
    rest = dict(d)
    for m, co in syms:
        hit = None
        for s in rest:
            if (callable(m) and m(s)) or (not callable(m) and m in s):
                hit = s
                break
        if hit is None or rest[hit] != co % MOD:
            return False
        del rest[hit]
    return not rest
