"""Iterator pipelines: `source.map(f).flat_map(g).take_while(p).for_each(h)` read as what a loop would do.

`chain(prog, fn, term)` takes the terminator of a consuming call (`for_each`, `try_for_each`, ...) and returns the stages from the
source to the consumer:

    [("source", expr), ("map", closure), ("flat_map", closure), ("take_while", closure), ..., ("for_each", closure)]

`elements(prog, fn, stages)` composes the closures symbolically and returns
    (elems, stops, sink)
elems  - the expressions (over the symbolic source item ("item",)) that reach the consumer for one source item, in order
         (`flat_map(|x| [a(x), b(x)])` yields two);
stops  - for every `take_while`, (position in the chain, predicate expression over the element at that position);
sink   - the consumer closure (a facts.Fn) and the expression of its parameter.

Only closures whose body is one expression of their parameter (plus captures) are understood; anything else returns None and the
rule that asked fails closed. Nothing is executed: the closures' MIR bodies are substituted into one another.
"""
import re
from .facts import expr_walk

ADAPTERS = {"map": "map", "flat_map": "flat_map", "take_while": "take_while", "filter": "filter", "inspect": "inspect"}
CONSUMERS = re.compile(r"Iterator>?::(for_each|try_for_each)$")


def _closure_of(e):
    for x in expr_walk(e):
        if x[0] == "agg" and isinstance(x[1], tuple) and x[1] and x[1][0] == "closure":
            return x[1][1], x[2]
    return None, ()


def chain(prog, fn, term):
    c = (term.get("f", {}).get("resolved") or term.get("f", {}).get("fn") or "")
    m = CONSUMERS.search(c)
    if not m or len(term.get("args", [])) != 2:
        return None
    stages = []
    cname, caps = _closure_of(fn.expr(term["args"][1], 8))
    if cname is None or cname not in prog.fns:
        return None
    stages.append((m.group(1), cname, caps))
    return _upstream(prog, fn, fn.expr(term["args"][0], 24), stages)


def chain_of_loop(prog, fn, next_term):
    """the same for a chain drained by a `for` loop: `next_term` is the loop's `Iterator::next(&mut it)` call; the consumer stage is
    ("for", None, ()) - the loop body, which the caller inspects in the function's own CFG"""
    c = (next_term.get("f", {}).get("resolved") or next_term.get("f", {}).get("fn") or "")
    if not re.search(r"Iterator>?::next$", c) or len(next_term.get("args", [])) != 1:
        return None
    st = _upstream(prog, fn, fn.expr(next_term["args"][0], 24), [("for", None, ())])
    if st is None or len(st) < 3:
        return None          # a plain range / slice loop is no pipeline
    return st


def _upstream(prog, fn, e, stages):
    for _ in range(12):
        while e[0] in ("ref", "deref"):
            e = e[1]
        if e[0] == "call" and len(e[2]) == 2:
            mm = re.search(r"Iterator>?::(\w+)$", str(e[1]))
            if mm and mm.group(1) in ADAPTERS:
                cn, cp = _closure_of(e[2][1])
                if cn is None or cn not in prog.fns:
                    return None
                stages.append((mm.group(1), cn, cp))
                e = e[2][0]
                continue
        if e[0] == "call" and str(e[1]).endswith("IntoIterator>::into_iter") and len(e[2]) == 1:
            e = e[2][0]
            continue
        break
    stages.append(("source", e, ()))
    stages.reverse()
    return stages


def _subst(e, param, caps):
    """closure-body expression -> expression in the creator's terms: the parameter becomes `param`, capture i becomes caps[i]"""
    if not isinstance(e, tuple) or not e:
        return e
    if e[0] == "arg" and e[1] == 2:
        return param
    if e[0] == "deref" and isinstance(e[1], tuple) and e[1][:2] == ("arg", 2):
        return param                      # `|&c|` / a by-reference parameter: the element itself
    if e[0] == "field" and str(e[2]).isdigit() and isinstance(e[1], tuple):
        base = e[1]
        while base[0] in ("deref", "ref"):
            base = base[1]
        if base[0] == "arg" and base[1] == 1 and int(e[2]) < len(caps):
            return caps[int(e[2])]
    return tuple(_subst(x, param, caps) if isinstance(x, tuple) and x and isinstance(x[0], str) else
                 (tuple(_subst(y, param, caps) if isinstance(y, tuple) else y for y in x) if isinstance(x, tuple) else x) for x in e)


def _ret_expr(cf):
    e = cf.local_expr(0, 14)
    return e


def elements(prog, fn, stages):
    if not stages or stages[0][0] != "source":
        return None
    elems = [("item",)]
    stops = []
    sink = None
    for pos, st in enumerate(stages[1:], 1):
        kind, cn, caps = st
        cf = prog.fns[cn] if cn is not None else None
        if cf is not None and len(cf.live_blocks()) > 6 and kind not in ("for_each", "try_for_each"):
            return None                   # not a one-expression closure
        if kind == "map":
            r = _ret_expr(cf)
            elems = [_subst(r, x, caps) for x in elems]
        elif kind == "flat_map":
            r = _ret_expr(cf)
            rr = r
            while rr[0] in ("ref", "deref"):
                rr = rr[1]
            if not (rr[0] == "agg" and rr[1][0] == "array"):
                return None
            elems = [_subst(comp, x, caps) for x in elems for comp in rr[2]]
        elif kind in ("take_while", "filter"):
            r = _ret_expr(cf)
            preds = [_subst(r, x, caps) for x in elems]
            stops.append((pos, kind, preds))
        elif kind == "inspect":
            continue
        elif kind in ("for_each", "try_for_each"):
            sink = (cf, caps, kind)
        elif kind == "for":
            sink = (None, (), "for")
        else:
            return None
    return elems, stops, sink
