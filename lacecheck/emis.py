"""Emission summaries: what a region of a token-producing function appends to its output vector.

For every site that appends to a `Vec<Token>` (push / extend) inside a region, describe *what* is appended and *how often*,
independent of how the code is written:

    kind    'byte' (Token::byte(value, span)) | 'zero' (Token::nullbyte(span)) | 'byte-of-char' (Token::byte(c as u16, span) per char) | 'other'
    value   expression tree of the byte's value (for 'byte'), else None
    span    (function, operand) of the span argument - function may be a closure
    mult    1 | ('range', n_expr)  one per iteration of `for _ in 0..n`          | ('repeat', n_expr)  iter::repeat(tok).take(n)
              | ('chars', src_expr) one per character of src (a `for c in s.chars()` loop or `s.chars().map(..)` handed to extend)
              | ('loop?',) inside a loop that is none of these
    bb      block of the appending call

`push(Token::x(..))`, `push` inside `for _ in 0..n`, `extend(repeat(Token::x(..)).take(n))` and `extend(s.chars().map(|c| Token::byte(c as u16, span)))`
are the idioms understood; anything else is reported as kind 'other' and makes the rules that use the summary fail closed.
"""
import re
from .facts import callee_of, expr_walk, expr_str
from . import kit

BYTE = "lace::lexer::Token::byte"
ZERO = "lace::lexer::Token::nullbyte"


def _tok_call(fn, prog, e):
    """(kind, value_expr, span_expr, fn) if e (expanded) is a Token::byte / Token::nullbyte call"""
    x = e
    while x[0] in ("ref", "deref"):
        x = x[1]
    if x[0] == "call" and x[1] == BYTE and len(x[2]) == 2:
        return ("byte", x[2][0], x[2][1])
    if x[0] == "call" and x[1] == ZERO and len(x[2]) == 1:
        return ("zero", None, x[2][0])
    return None


def _loop_mult(fn, bb, region, stop=None):
    lps = kit.loops(fn)
    inner = [(h, body) for h, (body, l) in lps.items() if bb in body and h in region]
    if not inner:
        return 1
    h, body = min(inner, key=lambda x: len(x[1]))
    t = fn.term(h)
    if t["k"] == "call" and (callee_of(t) or "").endswith("::next"):
        it = fn.expr(t["args"][0], 14, stop)
        tys = " ".join(t.get("arg_tys") or [])
        for x in expr_walk(it):
            if x[0] == "agg" and x[1][0] == "adt" and str(x[1][1]).endswith("ops::range::Range") and len(x[2]) == 2 and x[2][0] == ("const", 0):
                return ("range", x[2][1])
        if "Chars" in tys and not re.search(r"adapters::", tys):
            for x in expr_walk(it):
                if x[0] == "call" and str(x[1]).endswith("str>::chars"):
                    return ("chars", x[2][0])
    return ("loop?",)


def emissions(prog, fn, region, stop=None):
    """stop: passed to Fn.expr (e.g. {"callid"} to keep call identity in the trees)"""
    out = []
    for b in sorted(region):
        t = fn.term(b)
        if t["k"] != "call":
            continue
        c = callee_of(t) or ""
        if c.endswith("Vec::<T, A>::push") and len(t["args"]) == 2:
            e = fn.expr(t["args"][1], 12, stop)
            tk = _tok_call(fn, prog, e)
            if tk:
                out.append({"kind": tk[0], "value": tk[1], "span": (fn, tk[2]), "mult": _loop_mult(fn, b, region, stop), "bb": b, "sp": t.get("sp")})
            elif "Token" in " ".join(t.get("arg_tys") or []) and ("lexer::Token::" in expr_str(e, 400)):
                out.append({"kind": "other", "value": None, "span": None, "mult": 1, "bb": b, "sp": t.get("sp"), "what": expr_str(e, 100)})
        elif (re.search(r"Extend<.*>>::extend$", c) or c.endswith("Vec::<T, A>::extend")) and len(t["args"]) == 2 and "Token" in " ".join(t.get("arg_tys") or []):
            e = fn.expr(t["args"][1], 16, stop)
            x = e
            while x[0] in ("ref", "deref"):
                x = x[1]
            done = False
            # repeat(tok).take(n)
            if x[0] == "call" and re.search(r"Iterator>?::take$", str(x[1])) and len(x[2]) == 2:
                src = x[2][0]
                while src[0] in ("ref", "deref"):
                    src = src[1]
                if src[0] == "call" and str(src[1]).endswith("iter::sources::repeat::repeat") and len(src[2]) == 1:
                    tk = _tok_call(fn, prog, src[2][0])
                    if tk:
                        out.append({"kind": tk[0], "value": tk[1], "span": (fn, tk[2]), "mult": ("repeat", x[2][1]), "bb": b, "sp": t.get("sp")})
                        done = True
            # s.chars().map(|c| Token::byte(c as u16, span))
            if not done and x[0] == "call" and re.search(r"Iterator>?::map$", str(x[1])) and len(x[2]) == 2:
                src, clo = x[2]
                while src[0] in ("ref", "deref"):
                    src = src[1]
                cn = [y[1][1] for y in expr_walk(clo) if y[0] == "agg" and isinstance(y[1], tuple) and y[1] and y[1][0] == "closure"]
                if src[0] == "call" and str(src[1]).endswith("str>::chars") and cn and cn[0] in prog.fns:
                    cf = prog.fns[cn[0]]
                    ce = cf.local_expr(0, 10, stop)
                    tk = _tok_call(cf, prog, ce)
                    if tk and tk[0] == "byte":
                        v = tk[1]
                        while v[0] == "cast":
                            v = v[3]
                        if v[0] == "arg" and v[1] == 2:          # the closure's character parameter, cast only
                            # the span is a capture: translate it to the creating function's operand
                            cap = tk[2]
                            while cap[0] in ("ref", "deref"):
                                cap = cap[1]
                            span = None
                            if cap[0] == "field" and str(cap[2]).isdigit():
                                for y in expr_walk(clo):
                                    if y[0] == "agg" and isinstance(y[1], tuple) and y[1][0] == "closure" and int(cap[2]) < len(y[2]):
                                        span = (fn, y[2][int(cap[2])])
                            out.append({"kind": "byte-of-char", "value": None, "span": span, "mult": ("chars", src[2][0]), "bb": b, "sp": t.get("sp")})
                            done = True
            if not done:
                out.append({"kind": "other", "value": None, "span": None, "mult": 1, "bb": b, "sp": t.get("sp"), "what": expr_str(e, 100)})
    return out


def all_defs_satisfy(fn, e, pred, depth=0):
    """pred holds for e, or e is a local (possibly merged from several arms) all of whose definitions satisfy it"""
    if pred(e):
        return True
    x = e
    while x[0] == "cast":
        x = x[3]
    if x[0] == "local" and depth < 3:
        ds = fn.defs().get(x[1], [])
        if not ds:
            return False
        for kind, db, i, node in ds:
            if kind != "stmt":
                return False
            if not all_defs_satisfy(fn, fn.rvalue_expr(node["r"], 10), pred, depth + 1):
                return False
        return True
    return False
