"""Helper-extraction-robust facts: functions the reference tree does not know are inlined at their call sites.

The rules were written against the functions of the reference tree (tables/anchors.json). A behaviour-preserving
refactoring often moves part of an anchored function into a new private helper (or wraps two calls into one); the rules
would then no longer see the guard, the write or the call they look for inside the anchored function. Before the facts
reach the rules, every *new* function (not in the reference table after the rename matcher has run; an ordinary fn or
method of the lace crates, not a closure, not compiler-derived, not recursive, at most MAX_BLOCKS blocks) is therefore
inlined into each of its callers, MIR-style:

    caller block b:   dest = g(a1..ak) -> t          becomes    _(L+1) = a1; ..; _(L+k) = ak; goto NB
    g's blocks, locals shifted by L, blocks by NB, appended; every `return` becomes  dest = move _(L+0); goto t

Nothing is evaluated; this is a syntactic transformation of the extracted MIR with the usual call semantics (arguments are
moved/copied into the callee's parameter locals, the result into the destination). Helpers calling further new helpers are
handled by iterating (bounded). The new function itself stays in the fact set, so rules that scan *all* functions still
see its body too. On the reference tree itself there is no new function and the transformation is the identity.
"""
import copy
import json
import os

from . import alias

MAX_BLOCKS = 320
MAX_ROUNDS = 4


def _callee(term):
    f = term.get("f", {})
    return f.get("resolved") or f.get("fn")


def _shift_place(p, L):
    q = dict(p)
    q["l"] = q["l"] + L
    if "pr" in q:
        pr = []
        for e in q["pr"]:
            if isinstance(e, dict) and "idx" in e:
                e = dict(e)
                e["idx"] = e["idx"] + L
            pr.append(e)
        q["pr"] = pr
    return q


def _shift(node, L):
    """deep copy with every place's local index shifted by L"""
    if isinstance(node, dict):
        if "l" in node and isinstance(node["l"], int) and set(node) <= {"l", "pr"}:
            return _shift_place(node, L)
        return {k: _shift(v, L) for k, v in node.items()}
    if isinstance(node, list):
        return [_shift(v, L) for v in node]
    return node


def _shift_term_blocks(t, NB):
    t = dict(t)
    if isinstance(t.get("t"), int):
        t["t"] = t["t"] + NB
    if isinstance(t.get("otherwise"), int):
        t["otherwise"] = t["otherwise"] + NB
    if isinstance(t.get("unwind"), int):
        t["unwind"] = t["unwind"] + NB
    if "targets" in t:
        t["targets"] = [[v, bb + NB] for v, bb in t["targets"]]
    return t


def _writes(F, l):
    """statements / calls of F that write (part of) local l"""
    out = []
    for blk in F["blocks"]:
        for st in blk["stmts"]:
            if st.get("k") == "assign" and st["p"]["l"] == l:
                out.append(st)
        t = blk["term"]
        if t.get("k") == "call" and t.get("dest", {}).get("l") == l:
            out.append(t)
    return out


def _sole_def(F, l):
    w = _writes(F, l)
    if len(w) == 1 and w[0].get("k") == "assign" and not w[0]["p"].get("pr"):
        return w[0]["r"]
    return None


def _addr_taken_mut(F, l):
    for blk in F["blocks"]:
        for st in blk["stmts"]:
            r = st.get("r", {})
            if r.get("k") in ("ref", "rawptr") and r.get("p", {}).get("l") == l and r.get("bk") != "shared":
                return True
    return False


def _captures(F, env_op, nargs):
    """operands the closure was created with, if the environment operand of a direct closure call leads (through at most a
    shared reference) to a local that is assigned once, by the closure expression, and whose captured operands are themselves
    fixed (constants, or locals assigned once and never mutably borrowed): [(by_ref, operands)] else None"""
    p = env_op.get("p")
    if p is None or p.get("pr"):
        return None
    r = _sole_def(F, p["l"])
    by_ref = False
    if r is not None and r.get("k") == "ref" and r.get("bk") == "shared" and not r["p"].get("pr"):
        by_ref = True
        r = _sole_def(F, r["p"]["l"])
    if r is None or r.get("k") != "agg" or r.get("ak") != "closure":
        return None
    ops = r.get("ops", [])
    for o in ops:
        if o.get("k") == "const":
            continue
        q = o.get("p")
        if q is None:
            return None
        # the captured place must still hold at the call what it held when the closure was made: a local assigned at most once (a
        # parameter: never) and never mutably borrowed; a field of such a local moved into the closure is the same field later
        if len(_writes(F, q["l"])) > 1 or _addr_taken_mut(F, q["l"]):
            return None
    return by_ref, ops


def _subst_env(node, env_local, by_ref, ops):
    """replace `(*env).i…` (or `env.i…`) by the captured operand's place"""
    if isinstance(node, dict):
        if "l" in node and isinstance(node["l"], int) and set(node) <= {"l", "pr"}:
            pr = node.get("pr", [])
            need = (["*"] if by_ref else [])
            if node["l"] == env_local and len(pr) > len(need) and pr[:len(need)] == need and isinstance(pr[len(need)], dict) and "f" in pr[len(need)]:
                i = pr[len(need)]["f"]
                if i < len(ops) and ops[i].get("p") is not None:
                    q = dict(ops[i]["p"])
                    q["pr"] = list(q.get("pr", [])) + list(pr[len(need) + 1:])
                    if not q["pr"]:
                        q.pop("pr")
                    return q
            return node
        return {k: _subst_env(v, env_local, by_ref, ops) for k, v in node.items()}
    if isinstance(node, list):
        return [_subst_env(v, env_local, by_ref, ops) for v in node]
    return node


def _inline_at(F, b, g):
    term = F["blocks"][b]["term"]
    L = len(F["locals"])
    NB = len(F["blocks"])
    sp = term.get("sp")
    # locals and debug info of the callee
    for ld in g["locals"]:
        F["locals"].append(dict(ld))
    for d in g.get("debug", []):
        if "place" in d:
            F.setdefault("debug", []).append({"name": d["name"], "place": _shift_place(d["place"], L)})
    # parameter passing
    pre = F["blocks"][b]["stmts"]
    refs = None
    if g.get("defkind") == "Closure" and len(term["args"]) == 2 and g.get("arg_count", 0) >= 1:
        # direct call of a closure: (environment, tuple of arguments); the body takes the tuple's fields as separate parameters
        pre.append({"k": "assign", "p": {"l": L + 1}, "r": {"k": "use", "a": term["args"][0]}, "sp": sp, "inl": True})
        tup = term["args"][1]
        # `f(a, b)` is lowered to `tmp = (a, b); call(f, tmp)`: hand a and b over directly when that is what tmp is
        tdef = _sole_def(F, tup["p"]["l"]) if tup.get("p") is not None and not tup["p"].get("pr") else None
        tops = tdef.get("ops") if tdef is not None and tdef.get("k") == "agg" and tdef.get("ak") == "tuple" else None
        for i in range(g["arg_count"] - 1):
            if tup.get("p") is None:
                break
            if tops is not None and i < len(tops) and (tops[i].get("k") == "const" or tops[i].get("p") is not None):
                a = dict(tops[i])
                if a.get("k") == "move":
                    a["k"] = "copy"
                pre.append({"k": "assign", "p": {"l": L + 2 + i}, "r": {"k": "use", "a": a}, "sp": sp, "inl": True})
                continue
            pl = dict(tup["p"])
            pl["pr"] = list(pl.get("pr", [])) + [{"f": i, "n": str(i)}]
            pre.append({"k": "assign", "p": {"l": L + 2 + i}, "r": {"k": "use", "a": {"k": "copy", "p": pl}}, "sp": sp, "inl": True})
        caps = _captures(F, term["args"][0], g["arg_count"])
    else:
        caps = None
        for i, a in enumerate(term["args"]):
            pre.append({"k": "assign", "p": {"l": L + 1 + i}, "r": {"k": "use", "a": a}, "sp": sp, "inl": True})
        refs = _ref_params(F, g, term["args"])
    dest, cont, unwind = term["dest"], term.get("t"), term.get("unwind")
    F["blocks"][b]["term"] = {"k": "goto", "t": NB, "sp": sp}
    for blk in g["blocks"]:
        nb = {"stmts": _shift(blk["stmts"], L)}
        if blk.get("cleanup"):
            nb["cleanup"] = True
        t = _shift_term_blocks(_shift(blk["term"], L), NB)
        if t["k"] == "return":
            nb["stmts"].append({"k": "assign", "p": dest, "r": {"k": "use", "a": {"k": "move", "p": {"l": L}}}, "sp": sp, "inl": True})
            t = {"k": "goto", "t": cont, "sp": sp} if cont is not None else {"k": "unreachable"}
        elif t["k"] == "resume" and isinstance(unwind, int):
            t = {"k": "goto", "t": unwind}
        nb["term"] = t
        if caps is not None:
            # what the closure captured is written where the body reads its environment, as if the body stood at the call
            nb = _subst_env(nb, L + 1, caps[0], caps[1])
        elif refs:
            # `(*param).x` is the caller's `place.x` where the argument was `&place` / `&mut place`
            nb = _subst_refs(nb, {L + 1 + i: q for i, q in refs.items()})
        F["blocks"].append(nb)


def _own_addr_taken_mut(F, l):
    """`&mut l` itself (a reborrow `&mut *l` leaves l alone)"""
    for blk in F["blocks"]:
        for st in blk["stmts"]:
            r = st.get("r", {})
            if r.get("k") in ("ref", "rawptr") and r.get("p", {}).get("l") == l and r.get("bk") != "shared" \
                    and not (r["p"].get("pr") and r["p"]["pr"][0] == "*"):
                return True
    return False


def _repointed(F, l):
    """writes of local l itself (not of what it points to)"""
    return [w for w in _writes(F, l) if not (w.get("k") == "assign" and w["p"].get("pr") and w["p"]["pr"][0] == "*")]


def _ref_params(F, g, args):
    """{parameter index: place} for the reference parameters of an inlined function whose argument is `&place` / `&mut place` of
    a place that stays put while the body runs (fields / derefs below a local of the caller that is assigned at most once and is never
    re-pointed), the parameter itself being never assigned in the callee"""
    out = {}
    nparams = F.get("arg_count") or 0
    for i, a in enumerate(args):
        p = a.get("p")
        if p is None or p.get("pr"):
            continue
        gl = 1 + i
        if gl >= len(g["locals"]) or not str(g["locals"][gl].get("ty", "")).startswith("&"):
            continue
        if _repointed(g, gl) or _own_addr_taken_mut(g, gl):
            continue
        r = _sole_def(F, p["l"])
        if r is not None and r.get("k") == "ref":
            q = r["p"]
        elif 1 <= p["l"] <= nparams and not _repointed(F, p["l"]):
            q = {"l": p["l"], "pr": ["*"]}
        else:
            continue
        if any(not (e == "*" or (isinstance(e, dict) and "f" in e)) for e in q.get("pr", [])):
            continue
        base = q["l"]
        if len(_repointed(F, base)) > (0 if 1 <= base <= nparams else 1):
            continue
        out[i] = q
    return out


def _subst_refs(node, table):
    if isinstance(node, dict):
        if "l" in node and isinstance(node["l"], int) and set(node) <= {"l", "pr"}:
            pr = node.get("pr", [])
            if node["l"] in table and pr and pr[0] == "*":
                q = table[node["l"]]
                out = {"l": q["l"], "pr": list(q.get("pr", [])) + list(pr[1:])}
                if not out["pr"]:
                    out.pop("pr")
                return out
            return node
        return {k: _subst_refs(v, table) for k, v in node.items()}
    if isinstance(node, list):
        return [_subst_refs(v, table) for v in node]
    return node


def _mentions(node, g):
    """does the JSON subtree mention function g other than through one of g's promoted constants?"""
    if isinstance(node, dict):
        if node.get("uneval") == g and node.get("promoted") is not None:
            return False
        for k, v in node.items():
            if isinstance(v, str):
                if v == g or v == "fn:" + g:
                    return True
            elif _mentions(v, g):
                return True
        return False
    if isinstance(node, list):
        return any((x == g or x == "fn:" + g) if isinstance(x, str) else _mentions(x, g) for x in node)
    return False


def _reaches(fns, src, dst, limit=4000):
    seen, work = set(), [src]
    while work and len(seen) < limit:
        n = work.pop()
        if n in seen:
            continue
        seen.add(n)
        rec = fns.get(n)
        if rec is None:
            continue
        for blk in rec["blocks"]:
            t = blk["term"]
            if t.get("k") == "call":
                c = _callee(t)
                if c == dst:
                    return True
                if c in fns and c not in seen:
                    work.append(c)
    return False


def new_functions(fns, ref):
    out = []
    for n, rec in fns.items():
        if rec.get("bkind") == "fn" and rec.get("defkind") == "Closure" and (n.startswith("lace::") or n.startswith("bin::")):
            # a closure the reference version of its parent function did not have, if it is called directly (`let f = |..| ..; f(x)`)
            parent = n.split("::{closure", 1)[0]
            known = ref.get("closures-of:" + parent, {}).get("callees", [])
            if alias.closure_shape(rec) not in known and len(rec.get("blocks", [])) <= MAX_BLOCKS and not _reaches(fns, n, n):
                out.append(n)
            continue
        if n in ref or rec.get("bkind") != "fn" or rec.get("auto_derived"):
            continue
        if n.endswith(" as core::clone::Clone>::clone") or n.endswith(" as core::clone::Clone>::clone_from"):
            continue          # a Clone impl stays a call of Clone::clone for the rules (its body is judged where the type's clone matters, C12.R3)
        if rec.get("defkind") not in ("Fn", "AssocFn") or "{closure" in n or "promoted[" in n:
            continue
        if not (n.startswith("lace::") or n.startswith("bin::")):
            continue
        if len(rec.get("blocks", [])) > MAX_BLOCKS or rec.get("arg_count") is None:
            continue
        if _reaches(fns, n, n):
            continue          # recursive: leave it alone
        out.append(n)
    return out


# ---------------------------------------------------------------------------------------------------------------------------
# Combinators of Option / Result whose closure is new: written out as the match they stand for, so that the closure's body is
# then inlined at the (now direct) call like any other new closure.
#     dest = Option::map(opt, clo)        ->   match opt { Some(x) => dest = Some(clo(x)), None => dest = None }
#     dest = Option::and_then(opt, clo)   ->   match opt { Some(x) => dest = clo(x),       None => dest = None }
#     dest = Result::map(res, clo)        ->   match res { Ok(x)  => dest = Ok(clo(x)),    Err(e) => dest = Err(e) }
#     dest = Result::map_err(res, clo)    ->   match res { Err(e) => dest = Err(clo(e)),   Ok(x)  => dest = Ok(x) }
#     dest = Result::and_then(res, clo)   ->   match res { Ok(x)  => dest = clo(x),        Err(e) => dest = Err(e) }
#     dest = Result::or_else(res, clo)    ->   match res { Err(e) => dest = clo(e),        Ok(x)  => dest = Ok(x) }
_COMB = {
    "core::option::Option::<T>::map": ("core::option::Option", 1, "Some", 0, "None", "wrap"),
    "core::option::Option::<T>::and_then": ("core::option::Option", 1, "Some", 0, "None", "flat"),
    "core::result::Result::<T, E>::map": ("core::result::Result", 0, "Ok", 1, "Err", "wrap"),
    "core::result::Result::<T, E>::map_err": ("core::result::Result", 1, "Err", 0, "Ok", "wrap"),
    "core::result::Result::<T, E>::and_then": ("core::result::Result", 0, "Ok", 1, "Err", "flat"),
    "core::result::Result::<T, E>::or_else": ("core::result::Result", 1, "Err", 0, "Ok", "flat"),
}


def _lower_combinator(F, b, g, gname):
    term = F["blocks"][b]["term"]
    c = _callee(term)
    adt, hit_idx, hit_name, miss_idx, miss_name, mode = _COMB[c]
    subj, clo = term["args"]
    if subj.get("p") is None:
        return False
    sp = term.get("sp")
    dest, cont = term["dest"], term.get("t")
    if cont is None:
        return False
    L = len(F["locals"])
    F["locals"].append({"ty": "isize"})                              # L     discriminant
    F["locals"].append({"ty": "(%s,)" % (g["locals"][2]["ty"] if len(g["locals"]) > 2 else "?")})   # L+1   argument tuple
    F["locals"].append({"ty": g["locals"][0]["ty"]})                # L+2   closure result
    NB = len(F["blocks"])
    b_hit, b_join, b_miss = NB, NB + 1, NB + 2
    sp_place = dict(subj["p"])

    def payload(idx, name):
        q = dict(sp_place)
        q["pr"] = list(q.get("pr", [])) + [{"dc": idx, "n": name}, {"f": 0, "n": "0"}]
        return q
    blk = F["blocks"][b]
    blk["stmts"].append({"k": "assign", "p": {"l": L}, "r": {"k": "discr", "p": sp_place, "adt": adt}, "sp": sp, "inl": True})
    blk["term"] = {"k": "switch", "a": {"k": "move", "p": {"l": L}}, "ty": "isize", "targets": [[hit_idx, b_hit]], "otherwise": b_miss, "sp": sp}
    # the closure runs on the payload
    f_ = {"k": "const", "fn": gname, "resolved": gname, "closures": []}
    F["blocks"].append({"stmts": [{"k": "assign", "p": {"l": L + 1}, "r": {"k": "agg", "ak": "tuple", "ops": [{"k": "move", "p": payload(hit_idx, hit_name)}]}, "sp": sp, "inl": True}],
                        "term": {"k": "call", "f": f_, "args": [clo, {"k": "move", "p": {"l": L + 1}}], "arg_tys": [], "dest": {"l": L + 2}, "t": b_join, "sp": sp}})
    if mode == "wrap":
        res = {"k": "agg", "ak": "adt", "adt": adt, "vi": hit_idx, "variant": hit_name, "fields": ["0"], "ops": [{"k": "move", "p": {"l": L + 2}}]}
    else:
        res = {"k": "use", "a": {"k": "move", "p": {"l": L + 2}}}
    F["blocks"].append({"stmts": [{"k": "assign", "p": dest, "r": res, "sp": sp, "inl": True}], "term": {"k": "goto", "t": cont, "sp": sp}})
    if adt.endswith("Option"):
        other = {"k": "agg", "ak": "adt", "adt": adt, "vi": miss_idx, "variant": miss_name, "fields": [], "ops": []}
    else:
        other = {"k": "agg", "ak": "adt", "adt": adt, "vi": miss_idx, "variant": miss_name, "fields": ["0"], "ops": [{"k": "move", "p": payload(miss_idx, miss_name)}]}
    F["blocks"].append({"stmts": [{"k": "assign", "p": dest, "r": other, "sp": sp, "inl": True}], "term": {"k": "goto", "t": cont, "sp": sp}})
    return True


def lower_combinators(fns, new):
    n = 0
    for name, F in fns.items():
        if F.get("bkind") != "fn":
            continue
        b = 0
        while b < len(F["blocks"]) and len(F["blocks"]) < 6000:
            t = F["blocks"][b]["term"]
            if t.get("k") == "call" and _callee(t) in _COMB and len(t.get("args", [])) == 2:
                cls = [x[3:] if x.startswith("fn:") else x for x in t["f"].get("closures", [])]
                if len(cls) == 1 and cls[0] in new and fns.get(cls[0], {}).get("defkind") == "Closure" and fns[cls[0]].get("arg_count") == 2:
                    if _lower_combinator(F, b, fns[cls[0]], cls[0]):
                        n += 1
            b += 1
    return n


def _closure_escapes(F, g):
    """is the closure g, created in F, used as anything but the callee of (now inlined) direct calls? It escapes when it (or a
    reference / copy of it) is passed to a call, stored in an aggregate, cast, or returned; reading a captured field is no escape"""
    A = set()
    for blk in F["blocks"]:
        for st in blk["stmts"]:
            r = st.get("r", {})
            if st.get("k") == "assign" and r.get("k") == "agg" and r.get("ak") == "closure" and r.get("closure") == g:
                if st["p"].get("pr"):
                    return True
                A.add(st["p"]["l"])
    if not A:
        return False

    def whole(p):
        return p is not None and p["l"] in A and not any(isinstance(e, dict) for e in p.get("pr", []))

    grew = True
    while grew:
        grew = False
        for blk in F["blocks"]:
            for st in blk["stmts"]:
                if st.get("k") != "assign":
                    continue
                r = st["r"]
                src = r.get("p") if r.get("k") in ("ref", "rawptr") else (r.get("a", {}).get("p") if r.get("k") == "use" else None)
                if whole(src) and not st["p"].get("pr") and st["p"]["l"] not in A:
                    if st["p"]["l"] == 0:
                        return True
                    A.add(st["p"]["l"])
                    grew = True
    for blk in F["blocks"]:
        for st in blk["stmts"]:
            if st.get("k") != "assign":
                continue
            r = st["r"]
            if r.get("k") in ("ref", "rawptr", "use") and not st["p"].get("pr"):
                continue          # the alias-forming statements followed above
            ops = list(r.get("ops", [])) + [r[x] for x in ("a", "b") if isinstance(r.get(x), dict)]
            if any(whole(o.get("p")) for o in ops):
                return True
        t = blk["term"]
        if t.get("k") == "call":
            if any(whole(a.get("p")) for a in t.get("args", [])):
                return True
            fp = t.get("f", {}).get("p")
            if whole(fp):
                return True
    return False


def inline_new(dicts):
    """dicts: parsed fact files (lib, bin), modified in place. Returns {new function: number of call sites inlined}."""
    if not os.path.exists(alias.ANCHORS):
        return {}
    ref = json.load(open(alias.ANCHORS))
    fns = {}
    for d in dicts:
        fns.update(d["fns"])
    new = set(new_functions(fns, ref))
    done = {}
    if not new:
        return done
    pristine = {n: copy.deepcopy(fns[n]) for n in new}
    lowered = lower_combinators(fns, new)
    if lowered:
        done["<combinators written out as matches>"] = lowered
    # a new closure that is only ever handed on (never called directly) is inlined nowhere: it is a body in its own right, and helpers
    # extracted from it are inlined into it like into any known function
    called = {_callee(blk["term"]) for F in fns.values() for blk in F.get("blocks", []) if blk["term"].get("k") == "call"}
    standalone = {n for n in new if fns[n].get("defkind") == "Closure" and n not in called}
    for _ in range(MAX_ROUNDS):
        changed = False
        for name, F in fns.items():
            if F.get("bkind") not in ("fn",) or (name in new and name not in standalone):
                continue
            b = 0
            while b < len(F["blocks"]):
                t = F["blocks"][b]["term"]
                cname = _callee(t) if t.get("k") == "call" else None
                if cname in new and len(F["blocks"]) < 6000:
                    g = pristine[cname]
                    if len(t.get("args", [])) == g.get("arg_count") or (g.get("defkind") == "Closure" and len(t.get("args", [])) == 2):
                        _inline_at(F, b, copy.deepcopy(g))
                        done[cname] = done.get(cname, 0) + 1
                        changed = True
                b += 1
        if not changed:
            break
    # an inlined function nobody calls or mentions any more is dead code for the rules: drop its body (its closures and
    # promoted constants stay, the inlined copies refer to them)
    for g in sorted(done):
        still = False
        for name, F in fns.items():
            if name == g:
                continue
            for blk in F["blocks"]:
                t = blk["term"]
                if t.get("k") == "call" and _callee(t) == g:
                    still = True
        if still:
            continue
        if fns.get(g, {}).get("defkind") == "Closure":
            parent = g.split("::{closure", 1)[0]
            users = [name for name, F in fns.items() if name != g and _mentions(F["blocks"], g)]
            if any(name != parent for name in users) or (parent in fns and _closure_escapes(fns[parent], g)):
                continue          # handed to someone who may call it
        elif any(_mentions(F["blocks"], g) for name, F in fns.items() if name != g):
            continue          # still referenced as a value (fn item, reified pointer, closure argument)
        for d in dicts:
            d["fns"].pop(g, None)
    return done
