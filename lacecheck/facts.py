"""Fact model: crates, functions, CFGs, dominators, expression back-substitution.

Everything here is generic MIR plumbing; nothing knows about lace.
"""
import json
import os
import re


def _rust_str(dbg):
    """decode a Rust Debug-printed string literal ("a\\nb") ; None if it is not one"""
    if len(dbg) < 2 or dbg[0] != '"' or dbg[-1] != '"':
        return None
    body = dbg[1:-1]
    out = []
    i = 0
    while i < len(body):
        ch = body[i]
        if ch == "\\" and i + 1 < len(body):
            n = body[i + 1]
            if n == "n":
                out.append("\n")
            elif n == "t":
                out.append("\t")
            elif n == "r":
                out.append("\r")
            elif n == "0":
                out.append("\0")
            elif n == "u" and i + 2 < len(body) and body[i + 2] == "{":
                j = body.index("}", i)
                out.append(chr(int(body[i + 3:j], 16)))
                i = j + 1
                continue
            else:
                out.append(n)
            i += 2
            continue
        out.append(ch)
        i += 1
    return "".join(out)


def _normalise(node):
    """string constants that rustc keeps as type-level constants (match patterns) arrive Debug-printed"""
    if isinstance(node, dict):
        if node.get("k") == "const" and "dbg" in node and "str" not in node and node.get("ty", "").endswith("str"):
            v = _rust_str(node["dbg"])
            if v is not None:
                node["str"] = v
        if node.get("k") == "const" and "dbg" in node and "int" not in node:
            m = re.match(r"^(-?\d+)_([ui](8|16|32|64|128|size))$", node["dbg"])
            if m:
                node["int"] = int(m.group(1))
        if node.get("k") == "const" and "dbg" in node and "int" not in node and node.get("ty") == "char":
            d = node["dbg"]
            if len(d) >= 3 and d[0] == "'" and d[-1] == "'":
                v = _rust_str('"' + d[1:-1] + '"')
                if v is not None and len(v) == 1:
                    node["int"] = ord(v)
                    node["bits"] = 32
        for v in node.values():
            if isinstance(v, (dict, list)):
                _normalise(v)
    elif isinstance(node, list):
        for v in node:
            if isinstance(v, (dict, list)):
                _normalise(v)


_FROM_INT = re.compile(r"core::convert::num::<impl core::convert::From<([iu](?:8|16|32|64|128|size)|bool|char)> for ([iu](?:8|16|32|64|128|size))>::from$")


class Crate:
    def __init__(self, path, text=None, data=None):
        if data is not None:
            d = data
        elif text is not None:
            d = json.loads(text)
        else:
            with open(path) as fh:
                d = json.load(fh)
        _normalise(d["fns"])
        self.raw = d
        self.prefix = d["prefix"]
        self.is_bin = d["is_bin"]
        self.debug_assertions = d["debug_assertions"]
        self.overflow_checks = d["overflow_checks"]
        self.adts = d["adts"]
        self.consts_hir = d["consts_hir"]
        self.impls = d["impls"]
        self.fns = {k: Fn(k, v, self) for k, v in d["fns"].items()}


class Program:
    """lib + bin fact sets of one profile."""

    def __init__(self, fdir):
        self.dir = fdir
        # rename-robust anchors: functions of the reference tree that were merely renamed/moved get their reference name back
        from . import alias
        paths = [os.path.join(fdir, "lace-lib.json"), os.path.join(fdir, "lace-bin.json")]
        texts = [open(p_).read() for p_ in paths]
        texts, self.aliases = alias.canonicalise(texts)
        # helper-extraction-robust facts: functions the reference tree does not know are inlined at their call sites
        from . import inline
        dicts = [json.loads(t_) for t_ in texts]
        self.inlined = inline.inline_new(dicts)
        self.lib = Crate(paths[0], data=dicts[0])
        self.bin = Crate(paths[1], data=dicts[1])
        self.header = json.load(open(os.path.join(fdir, "header.json")))
        self.fns = {}
        self.fns.update(self.lib.fns)
        self.fns.update(self.bin.fns)
        self.adts = {}
        self.adts.update(self.lib.adts)
        self.adts.update(self.bin.adts)
        self.consts_hir = {}
        self.consts_hir.update(self.lib.consts_hir)
        self.consts_hir.update(self.bin.consts_hir)
        self.impls = self.lib.impls + self.bin.impls
        self._cg = None

    def fn(self, name):
        return self.fns.get(name)

    def find(self, pattern):
        """functions whose name matches the regex"""
        rx = re.compile(pattern)
        return [f for n, f in self.fns.items() if rx.search(n)]

    def real_fns(self):
        return [f for f in self.fns.values() if f.bkind == "fn"]

    def adt(self, name):
        return self.adts.get(name)

    def variant_names(self, adt):
        return [v["name"] for v in self.adts[adt]["variants"]]

    def discr(self, adt, variant):
        for v in self.adts[adt]["variants"]:
            if v["name"] == variant:
                return v.get("discr", v["idx"])
        return None

    def variant_by_discr(self, adt, val):
        for v in self.adts[adt]["variants"]:
            if v.get("discr", v["idx"]) == val:
                return v["name"]
        return None

    def max_discr(self, adt):
        return max(v.get("discr", v["idx"]) for v in self.adts[adt]["variants"])


def short(name):
    """lace::runtime::RunState::jsr -> runtime::RunState::jsr (for messages)"""
    return name[6:] if name.startswith("lace::") else name


def sp_file_line(sp):
    if not sp:
        return "?"
    m = re.match(r"(.*?):(\d+):(\d+)-(\d+):(\d+)$", sp)
    if not m:
        return sp
    return "%s:%s" % (m.group(1), m.group(2))


def sp_line(sp):
    m = re.match(r"(.*?):(\d+):(\d+)-(\d+):(\d+)$", sp or "")
    return int(m.group(2)) if m else 0


def sp_file(sp):
    m = re.match(r"(.*?):(\d+):(\d+)-(\d+):(\d+)$", sp or "")
    return m.group(1) if m else ""


# ------------------------------------------------------------------------------- operands
def is_const(op):
    return op.get("k") == "const"


def const_int(op):
    if op.get("k") == "const" and "int" in op:
        return op["int"]
    return None


def const_str(op):
    if op.get("k") == "const" and "str" in op:
        return op["str"]
    return None


def op_place(op):
    if op.get("k") in ("copy", "move"):
        return op["p"]
    return None


def op_local(op):
    """local index if operand is a bare local"""
    p = op_place(op)
    if p is not None and not p.get("pr"):
        return p["l"]
    return None


def place_local(p):
    return p["l"]


def place_is_local(p):
    return not p.get("pr")


def place_key(p):
    """hashable canonical form"""
    out = [p["l"]]
    for e in p.get("pr", []):
        if e == "*":
            out.append("*")
        elif "f" in e:
            out.append(("f", e["f"]))
        elif "dc" in e:
            out.append(("dc", e["dc"]))
        elif "idx" in e:
            out.append(("idx", e["idx"]))
        elif "cidx" in e:
            out.append(("cidx", e["cidx"], e.get("from_end", False)))
        else:
            out.append(("o", json.dumps(e, sort_keys=True)))
    return tuple(out)


def place_fields(p):
    """names of the fields projected, in order"""
    return [e.get("n") for e in p.get("pr", []) if isinstance(e, dict) and "f" in e]


def place_str(fn, p):
    l = p["l"]
    nm = fn.local_name(l)
    s = nm if nm else "_%d" % l
    for e in p.get("pr", []):
        if e == "*":
            s = "(*%s)" % s
        elif "f" in e:
            s = "%s.%s" % (s, e.get("n", e["f"]))
        elif "dc" in e:
            s = "(%s as %s)" % (s, e.get("n", e["dc"]))
        elif "idx" in e:
            s = "%s[_%d]" % (s, e["idx"])
        elif "cidx" in e:
            s = "%s[%s%d]" % (s, "-" if e.get("from_end") else "", e["cidx"])
        else:
            s = "%s.?" % s
    return s


def callee_of(term):
    """resolved callee name of a call terminator (or the written one); None for indirect"""
    f = term.get("f", {})
    if f.get("k") == "const" and "fn" in f:
        return f.get("resolved") or f["fn"]
    return None


def callee_written(term):
    f = term.get("f", {})
    if f.get("k") == "const" and "fn" in f:
        return f["fn"]
    return None


# ------------------------------------------------------------------------------- function
class Fn:
    def __init__(self, name, d, crate):
        self.name = name
        self.d = d
        self.crate = crate
        self.bkind = d.get("bkind")
        self.defkind = d.get("defkind")
        self.blocks = d["blocks"]
        self.locals = d["locals"]
        self.arg_count = d.get("arg_count", 0)
        self.span = d.get("span", "")
        self.parent = d.get("parent")
        self._succ = None
        self._pred = None
        self._dom = None
        self._pdom = None
        self._defs = None
        self._uses = None

    # ---- basic
    def local_name(self, l):
        return self.locals[l].get("name")

    def local_ty(self, l):
        return self.locals[l]["ty"]

    def local_by_name(self, name):
        for i, l in enumerate(self.locals):
            if l.get("name") == name:
                return i
        return None

    def file_line(self):
        return sp_file_line(self.span)

    def term(self, bb):
        return self.blocks[bb]["term"]

    def stmts(self, bb):
        return self.blocks[bb]["stmts"]

    def is_cleanup(self, bb):
        return self.blocks[bb].get("cleanup", False)

    # ---- CFG (normal edges; unwind edges separately)
    def succs(self, bb, unwind=False):
        t = self.blocks[bb]["term"]
        k = t["k"]
        out = []
        if k == "goto":
            out = [t["t"]]
        elif k == "switch":
            out = [x[1] for x in t["targets"]] + [t["otherwise"]]
        elif k in ("call", "assert", "drop"):
            if t.get("t") is not None:
                out = [t["t"]]
            if unwind and "unwind" in t:
                out = out + [t["unwind"]]
        seen = []
        for x in out:
            if x not in seen:
                seen.append(x)
        return seen

    def succ_map(self):
        if self._succ is None:
            self._succ = [self.succs(i) for i in range(len(self.blocks))]
        return self._succ

    def pred_map(self):
        if self._pred is None:
            pm = [[] for _ in self.blocks]
            for i, ss in enumerate(self.succ_map()):
                for s in ss:
                    pm[s].append(i)
            self._pred = pm
        return self._pred

    def threaded_succs(self):
        """successor map with `matches!`-style bool temporaries threaded: a block that stores a constant into a
        bool local and jumps straight to the switch on that local continues at the matching target only"""
        if getattr(self, "_thr", None) is not None:
            return self._thr
        sm = [list(x) for x in self.succ_map()]
        for sb in range(len(self.blocks)):
            t = self.blocks[sb]["term"]
            if t["k"] != "switch" or self.blocks[sb]["stmts"]:
                continue
            l = op_local(t["a"])
            if l is None:
                continue
            ds = self.defs().get(l, [])
            if not ds or not all(d[0] == "stmt" and d[3]["r"]["k"] == "use" and const_int(d[3]["r"]["a"]) is not None for d in ds):
                continue
            tg = {v: x for v, x in t["targets"]}
            for kind, db, i, node in ds:
                dt = self.blocks[db]["term"]
                if dt["k"] == "goto" and dt["t"] == sb and i == len(self.blocks[db]["stmts"]) - 1 or (dt["k"] == "goto" and dt["t"] == sb):
                    v = const_int(node["r"]["a"])
                    sm[db] = [tg.get(v, t["otherwise"])]
        self._thr = sm
        return sm

    def reachable(self, start=0, avoid=(), edge_filter=None, threaded=False):
        """blocks reachable from `start` (inclusive) never entering a block in `avoid`.
        edge_filter(src, dst) -> bool may prune edges."""
        avoid = set(avoid)
        if isinstance(start, int):
            start = [start]
        seen = set()
        work = [s for s in start if s not in avoid]
        sm = self.threaded_succs() if threaded else self.succ_map()
        while work:
            b = work.pop()
            if b in seen:
                continue
            seen.add(b)
            for s in sm[b]:
                if s in avoid or s in seen:
                    continue
                if edge_filter and not edge_filter(b, s):
                    continue
                work.append(s)
        return seen

    def live_blocks(self):
        return self.reachable(0)

    def dominators(self):
        """dom[b] = set of blocks dominating b (over normal edges, reachable blocks only)"""
        if self._dom is not None:
            return self._dom
        live = sorted(self.live_blocks())
        allb = set(live)
        dom = {b: set(allb) for b in live}
        dom[0] = {0}
        pm = self.pred_map()
        changed = True
        while changed:
            changed = False
            for b in live:
                if b == 0:
                    continue
                ps = [p for p in pm[b] if p in allb]
                if not ps:
                    continue
                new = set.intersection(*[dom[p] for p in ps]) | {b}
                if new != dom[b]:
                    dom[b] = new
                    changed = True
        self._dom = dom
        return dom

    def dominates(self, a, b):
        d = self.dominators()
        return b in d and a in d[b]

    def exits(self):
        """blocks ending in return"""
        return [i for i in self.live_blocks() if self.blocks[i]["term"]["k"] == "return"]

    def must_pass(self, src, dst_blocks, via_blocks):
        """True iff every path src -> any dst passes a block of via_blocks."""
        via = set(via_blocks)
        if src in via:
            return True
        r = self.reachable(src, avoid=via)
        return not (r & set(dst_blocks))

    def path(self, src, dst_set, avoid=()):
        """one witness path src -> dst (BFS), avoiding blocks"""
        from collections import deque
        avoid = set(avoid)
        dst_set = set(dst_set)
        prev = {src: None}
        dq = deque([src])
        sm = self.succ_map()
        while dq:
            b = dq.popleft()
            if b in dst_set:
                out = []
                while b is not None:
                    out.append(b)
                    b = prev[b]
                return out[::-1]
            for s in sm[b]:
                if s in prev or s in avoid:
                    continue
                prev[s] = b
                dq.append(s)
        return None

    def path_lines(self, path):
        out = []
        for b in path or []:
            ln = sp_line(self.blocks[b]["term"].get("sp", ""))
            if ln and (not out or out[-1] != ln):
                out.append(ln)
        return out

    # ---- iteration helpers
    def calls(self, live_only=True):
        """yield (bb, term, callee_name) for every call terminator"""
        live = self.live_blocks() if live_only else range(len(self.blocks))
        for b in sorted(live):
            t = self.blocks[b]["term"]
            if t["k"] == "call":
                yield b, t, callee_of(t)

    def call_blocks(self, pred):
        """blocks whose call terminator's callee satisfies pred(name)"""
        return [b for b, t, c in self.calls() if c is not None and pred(c)]

    def assigns(self, live_only=True):
        live = self.live_blocks() if live_only else range(len(self.blocks))
        for b in sorted(live):
            for i, s in enumerate(self.blocks[b]["stmts"]):
                if s["k"] == "assign":
                    yield b, i, s

    # ---- definitions
    def defs(self):
        """local -> list of definition sites ('stmt', bb, idx, stmt) / ('call', bb, term) for whole-local writes"""
        if self._defs is not None:
            return self._defs
        d = {}
        for b in range(len(self.blocks)):
            for i, s in enumerate(self.blocks[b]["stmts"]):
                if s["k"] == "assign" and place_is_local(s["p"]):
                    d.setdefault(s["p"]["l"], []).append(("stmt", b, i, s))
                elif s["k"] == "assign":
                    # partial write (field of local, not through deref) also counts as a def of the local
                    pr = s["p"].get("pr", [])
                    if pr and pr[0] != "*":
                        d.setdefault(s["p"]["l"], []).append(("partial", b, i, s))
            t = self.blocks[b]["term"]
            if t["k"] == "call" and place_is_local(t["dest"]):
                d.setdefault(t["dest"]["l"], []).append(("call", b, None, t))
        self._defs = d
        return d

    def single_def(self, l):
        ds = self.defs().get(l, [])
        if len(ds) == 1 and ds[0][0] in ("stmt", "call"):
            return ds[0]
        return None

    def is_arg(self, l):
        return 1 <= l <= self.arg_count

    # ---- expression back-substitution --------------------------------------------------
    def expr(self, op, depth=12, stop=None):
        """Canonical expression tree for an operand, obtained by substituting single-definition
        temporaries. Trees are tuples:
          ('const', int) ('str', s) ('fn', name) ('arg', i, name) ('local', l, name)
          ('bin', op, a, b) ('un', op, a) ('cast', from, to, a) ('call', callee, (args...))
          ('field', base, name) ('deref', base) ('discr', base, adt) ('ref', base) ('agg', desc, (ops...))
          ('checked', op, a, b)  -- the tuple result of AddWithOverflow & co.
          ('idx', base, index) ('unknown', text)
        """
        k = op.get("k")
        if k == "const":
            if "int" in op:
                return ("const", op["int"])
            if "str" in op:
                return ("str", op["str"])
            if "fn" in op:
                return ("fn", op.get("resolved") or op["fn"])
            if "uneval" in op:
                return ("uneval", op["uneval"], op.get("promoted"))
            if "bytes" in op:
                return ("bytes", bytes(op["bytes"]))
            return ("unknown", op.get("dbg", op.get("ty", "const")))
        if k in ("copy", "move"):
            return self.place_expr(op["p"], depth, stop)
        return ("unknown", str(op)[:60])

    def place_expr(self, p, depth=12, stop=None):
        base = self.local_expr(p["l"], depth, stop)
        for e in p.get("pr", []):
            if e == "*":
                if base[0] == "ref":
                    base = base[1]
                else:
                    base = ("deref", base)
            elif "f" in e:
                nm = e.get("n", str(e["f"]))
                if base[0] == "checked" and e["f"] == 0:
                    base = ("bin", base[1], base[2], base[3])
                elif base[0] == "checked" and e["f"] == 1:
                    base = ("ovf", base[1], base[2], base[3])
                elif base[0] == "agg" and isinstance(base[2], tuple) and e["f"] < len(base[2]) and base[1][0] in ("tuple", "adt", "closure"):
                    base = base[2][e["f"]]
                else:
                    base = ("field", base, nm)
            elif "dc" in e:
                base = ("downcast", base, e.get("n", e["dc"]))
            elif "idx" in e:
                base = ("idx", base, self.local_expr(e["idx"], depth - 1, stop))
            elif "cidx" in e:
                base = ("idx", base, ("const", e["cidx"]))
            else:
                base = ("proj", base, "?")
        return base

    def local_expr(self, l, depth=12, stop=None):
        nm = self.local_name(l)
        if self.is_arg(l):
            ds = self.defs().get(l, [])
            if not ds:
                return ("arg", l, nm or "_%d" % l)
            return ("local", l, nm or "_%d" % l)
        if depth <= 0 or (stop and (l in stop or ("named" in stop and nm is not None))):
            return ("local", l, nm or "_%d" % l)
        sd = self.single_def(l)
        if sd is None:
            return ("local", l, nm or "_%d" % l)
        kind, b, i, node = sd
        if kind == "call":
            c = callee_of(node)
            args = tuple(self.expr(a, depth - 1, stop) for a in node["args"])
            # lossless integer widening written as a conversion call is the same value as an `as` cast
            m = _FROM_INT.search(c or "")
            if m and len(args) == 1:
                return ("cast", m.group(1), m.group(2), args[0])
            if stop and "callid" in stop:
                # the defining block identifies the call: two calls of one function with equal arguments stay apart
                return ("call", c or "<indirect>", args, b)
            return ("call", c or "<indirect>", args)
        r = node["r"]
        return self.rvalue_expr(r, depth - 1, stop)

    def rvalue_expr(self, r, depth=12, stop=None):
        k = r["k"]
        if k == "use":
            return self.expr(r["a"], depth, stop)
        if k == "bin":
            op = r["op"]
            a = self.expr(r["a"], depth, stop)
            b = self.expr(r["b"], depth, stop)
            if op.endswith("WithOverflow"):
                return ("checked", op[:-len("WithOverflow")], a, b)
            if op.endswith("Unchecked"):
                op = op[:-len("Unchecked")]
            return ("bin", op, a, b)
        if k == "un":
            return ("un", r["op"], self.expr(r["a"], depth, stop))
        if k == "cast":
            return ("cast", r.get("from"), r.get("ty"), self.expr(r["a"], depth, stop))
        if k == "ref":
            return ("ref", self.place_expr(r["p"], depth, stop))
        if k == "rawptr":
            return ("ref", self.place_expr(r["p"], depth, stop))
        if k == "discr":
            return ("discr", self.place_expr(r["p"], depth, stop), r.get("adt"))
        if k == "agg":
            ak = r.get("ak")
            if ak == "adt":
                desc = ("adt", r.get("adt"), r.get("variant"))
            elif ak == "closure":
                desc = ("closure", r.get("closure"))
            else:
                desc = (ak,)
            return ("agg", desc, tuple(self.expr(o, depth, stop) for o in r["ops"]))
        if k == "repeat":
            return ("repeat", self.expr(r["a"], depth, stop), r.get("n"))
        return ("unknown", r.get("dbg", k)[:80])


def expr_str(e, maxlen=200):
    s = _expr_str(e)
    return s if len(s) <= maxlen else s[:maxlen] + "…"


_BINSYM = {"Add": "+", "Sub": "-", "Mul": "*", "Div": "/", "Rem": "%", "BitAnd": "&", "BitOr": "|",
           "BitXor": "^", "Shl": "<<", "Shr": ">>", "Eq": "==", "Ne": "!=", "Lt": "<", "Le": "<=",
           "Gt": ">", "Ge": ">="}


def _expr_str(e):
    k = e[0]
    if k == "const":
        v = e[1]
        return hex(v) if isinstance(v, int) and v > 9 else str(v)
    if k == "str":
        return json.dumps(e[1])
    if k in ("arg", "local"):
        return e[2]
    if k == "bin":
        return "(%s %s %s)" % (_expr_str(e[2]), _BINSYM.get(e[1], e[1]), _expr_str(e[3]))
    if k == "checked":
        return "checked(%s %s %s)" % (_expr_str(e[2]), _BINSYM.get(e[1], e[1]), _expr_str(e[3]))
    if k == "ovf":
        return "overflows(%s %s %s)" % (_expr_str(e[2]), _BINSYM.get(e[1], e[1]), _expr_str(e[3]))
    if k == "un":
        return "%s(%s)" % (e[1], _expr_str(e[2]))
    if k == "cast":
        return "(%s as %s)" % (_expr_str(e[3]), e[2])
    if k == "call":
        return "%s(%s)" % (short(e[1]).split("::")[-1] if e[1] else "?", ", ".join(_expr_str(a) for a in e[2]))
    if k == "field":
        return "%s.%s" % (_expr_str(e[1]), e[2])
    if k == "deref":
        return "*%s" % _expr_str(e[1])
    if k == "ref":
        return "&%s" % _expr_str(e[1])
    if k == "discr":
        return "discr(%s)" % _expr_str(e[1])
    if k == "downcast":
        return "(%s as %s)" % (_expr_str(e[1]), e[2])
    if k == "idx":
        return "%s[%s]" % (_expr_str(e[1]), _expr_str(e[2]))
    if k == "agg":
        return "%s{%s}" % (":".join(str(x) for x in e[1] if x), ", ".join(_expr_str(a) for a in e[2]))
    if k == "fn":
        return short(e[1])
    if k == "uneval":
        return "const %s" % short(e[1])
    return "<%s>" % (":".join(str(x) for x in e[1:])[:60])


def expr_walk(e):
    """yield every sub-tree"""
    yield e
    for x in e[1:]:
        if isinstance(x, tuple):
            if x and isinstance(x[0], str):
                for y in expr_walk(x):
                    yield y
            else:
                for z in x:
                    if isinstance(z, tuple) and z and isinstance(z[0], str):
                        for y in expr_walk(z):
                            yield y
