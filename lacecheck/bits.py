"""BITS — known-bits / field-provenance analysis for 16-bit machine words.

Encoder side: `ArmEval` evaluates one straight-line match arm of the encoder forward, over an
abstract value that records, per bit, 0 / 1 / (source, i) = bit i of a named operand / unknown.
Decoder side: `decode_uses` finds every sub-expression of a handler that extracts a field from
the instruction word, as (lo, width, sign_extended), together with the sink that consumes it.
"""
import re
from .facts import callee_of, op_local, place_is_local, const_int, expr_walk, expr_str, short
from . import kit, formula

W = 32  # working width


class BV:
    """abstract word: bits[i] in {0, 1, ('f', src, j), 'T'}"""

    def __init__(self, bits=None):
        self.bits = bits if bits is not None else [0] * W

    @staticmethod
    def const(v):
        v &= (1 << W) - 1
        return BV([(v >> i) & 1 for i in range(W)])

    @staticmethod
    def field(src, width):
        return BV([("f", src, i) if i < width else 0 for i in range(W)])

    @staticmethod
    def top(width=16):
        return BV(["T" if i < width else 0 for i in range(W)])

    def shl(self, k):
        return BV([0] * k + self.bits[:W - k])

    def shr(self, k):
        return BV(self.bits[k:] + [0] * k)

    def and_const(self, m):
        return BV([b if (m >> i) & 1 else 0 for i, b in enumerate(self.bits)])

    def trunc(self, width):
        return BV([b if i < width else 0 for i, b in enumerate(self.bits)])

    def or_(self, o):
        out, overlaps = [], []
        for i, (a, b) in enumerate(zip(self.bits, o.bits)):
            if a == 0:
                out.append(b)
            elif b == 0:
                out.append(a)
            elif a == 1 or b == 1:
                # OR with a constant one: the bit is one, whatever the other says (flag an operand bit being swallowed)
                if a != 1 or b != 1:
                    overlaps.append((i, a, b))
                out.append(1)
            else:
                overlaps.append((i, a, b))
                out.append("T")
        return BV(out), overlaps

    def width(self):
        w = 0
        for i, b in enumerate(self.bits):
            if b != 0:
                w = i + 1
        return w

    def const_value(self):
        v = 0
        for i, b in enumerate(self.bits):
            if b == 1:
                v |= 1 << i
            elif b != 0:
                return None
        return v

    def layout(self):
        """(constant ones mask, {src: (lo_bit_in_word, lo_bit_of_src, width)}, unknown mask)"""
        ones, unk = 0, 0
        runs = {}
        for i, b in enumerate(self.bits[:16]):
            if b == 1:
                ones |= 1 << i
            elif b == "T":
                unk |= 1 << i
            elif isinstance(b, tuple):
                runs.setdefault(b[1], []).append((i, b[2]))
        fields = {}
        for src, lst in runs.items():
            lst.sort()
            lo, slo = lst[0]
            ok = all(p == lo + n and sb == slo + n for n, (p, sb) in enumerate(lst))
            fields[src] = (lo, slo, len(lst)) if ok else ("scattered", lst)
        return ones, fields, unk


def type_bits(ty):
    return formula.MASKS.get((ty or "").replace("&", "").replace("mut ", ""), 16)


class ArmEval:
    """forward evaluation of the blocks of one encoder arm (follows the success edge of `?`)"""

    def __init__(self, ctx, fn, call_summary):
        self.ctx = ctx
        self.prog = ctx.prog
        self.fn = fn
        self.call_summary = call_summary   # (callee, arg_exprs, term) -> BV or None
        self.env = {}
        self.overlaps = []
        self.trace = []

    def source_name(self, place):
        """name a place that denotes an operand of the statement (a field of the matched variant)"""
        fn = self.fn
        l = place["l"]
        nm = fn.local_name(l)
        flds = [e.get("n") for e in place.get("pr", []) if isinstance(e, dict) and "f" in e]
        if flds and not str(flds[-1]).isdigit():
            return flds[-1]
        # unnamed temporary copied from an operand binding: `_87 = copy (*src_reg)`
        for _ in range(4):
            if nm:
                break
            sd = fn.single_def(l)
            if not (sd and sd[0] == "stmt" and sd[3]["r"]["k"] in ("use", "ref")):
                break
            src = sd[3]["r"].get("p") or sd[3]["r"].get("a", {}).get("p")
            if not src:
                break
            f2 = [e.get("n") for e in src.get("pr", []) if isinstance(e, dict) and "f" in e]
            if f2:
                return f2[-1]
            l = src["l"]
            nm = fn.local_name(l)
        if nm:
            # a binding `dest = &((stmt as Add).dest)`: prefer the field name it was bound from; a helper's parameter that was
            # handed such a binding (`reg = copy (*dest)`) is followed back to it
            l2 = l
            for _ in range(6):
                sd = fn.single_def(l2)
                if not (sd and sd[0] == "stmt" and sd[3]["r"]["k"] in ("ref", "use")):
                    break
                src = sd[3]["r"].get("p") or (sd[3]["r"].get("a", {}).get("p"))
                if not src:
                    break
                f2 = [e.get("n") for e in src.get("pr", []) if isinstance(e, dict) and "f" in e]
                if f2:
                    return f2[-1]
                l2 = src["l"]
            return nm
        return "_%d" % l

    def operand(self, op):
        if op.get("k") == "const":
            if "int" in op:
                return BV.const(op["int"])
            return BV.top()
        p = op["p"]
        if not p.get("pr") and p["l"] in self.env:
            return self.env[p["l"]]
        pr = p.get("pr", [])
        if (len(pr) == 2 and isinstance(pr[0], dict) and "dc" in pr[0] and pr[0].get("n") in ("Continue", "Some", "Ok")
                and isinstance(pr[1], dict) and pr[1].get("f") == 0 and p["l"] in self.env):
            return self.env[p["l"]]     # payload of the `?` / Some(..) we are tracking
        # deref of an operand binding, e.g. `*offset` (u8)
        ty = self._place_ty(p)
        return BV.field(self.source_name(p), type_bits(ty))

    def _place_ty(self, p):
        for e in reversed(p.get("pr", [])):
            if isinstance(e, dict) and "ty" in e:
                return e["ty"]
        ty = self.fn.local_ty(p["l"])
        if p.get("pr") and p["pr"][-1] == "*":
            ty = ty.replace("&mut ", "").replace("&", "")
        return ty

    def rvalue(self, r):
        k = r["k"]
        if k == "use":
            return self.operand(r["a"])
        if k == "cast":
            v = self.operand(r["a"])
            src_bits, dst_bits = type_bits(r.get("from")), type_bits(r.get("ty"))
            signed_src = (r.get("from") or "").startswith("i")
            v = v.trunc(min(src_bits, W))
            if dst_bits > src_bits and signed_src:
                # sign extension: upper bits copy the sign bit
                sb = v.bits[src_bits - 1]
                v = BV(v.bits[:src_bits] + [sb if sb in (0, 1) else "T"] * (W - src_bits))
            return v.trunc(min(dst_bits, W))
        if k == "discr":
            adt = r.get("adt")
            width = 16
            if adt in self.prog.adts:
                mx = max(v.get("discr", v["idx"]) for v in self.prog.adts[adt]["variants"])
                width = max(1, mx.bit_length())
            return BV.field(self.source_name(r["p"]), width)
        if k == "bin":
            op = r["op"].replace("Unchecked", "")
            a, b = self.operand(r["a"]), self.operand(r["b"])
            if op == "Shl" and b.const_value() is not None:
                return a.shl(b.const_value())
            if op == "Shr" and b.const_value() is not None:
                return a.shr(b.const_value())
            if op == "BitAnd":
                if b.const_value() is not None:
                    return a.and_const(b.const_value())
                if a.const_value() is not None:
                    return b.and_const(a.const_value())
            if op == "BitOr":
                v, ov = a.or_(b)
                self.overlaps += ov
                return v
            if a.const_value() is not None and b.const_value() is not None:
                try:
                    return BV.const(formula.binop(op, a.const_value(), b.const_value()))
                except Exception:
                    pass
            return BV.top(type_bits(r.get("ty")))
        if k == "agg":
            return BV.top()
        return BV.top()

    def run(self, entry, stop_blocks=()):
        """returns the abstract value of the word wrapped in the Ok(..) that ends the arm, or None"""
        fn = self.fn
        b = entry
        seen = set()
        result = None
        oks = {}
        while b is not None and b not in seen:
            seen.add(b)
            for s in fn.stmts(b):
                if s["k"] != "assign":
                    continue
                p = s["p"]
                if p["l"] == 0 and place_is_local(p) and s["r"]["k"] == "agg" and s["r"].get("variant") == "Ok":
                    result = self.operand(s["r"]["ops"][0])
                    continue
                if place_is_local(p) and s["r"]["k"] == "agg" and s["r"].get("variant") == "Ok" and str(s["r"].get("adt", "")).endswith("result::Result"):
                    # an Ok(word) built in a temporary (the return value of an inlined helper) and handed on below
                    oks[p["l"]] = self.operand(s["r"]["ops"][0])
                    continue
                if place_is_local(p) and s["r"]["k"] == "use" and op_local(s["r"]["a"]) in oks:
                    if p["l"] == 0:
                        result = oks[op_local(s["r"]["a"])]
                    else:
                        oks[p["l"]] = oks[op_local(s["r"]["a"])]
                    continue
                if place_is_local(p):
                    self.env[p["l"]] = self.rvalue(s["r"])
                elif p.get("pr") and isinstance(p["pr"][-1], dict) and "f" in p["pr"][-1] and p["l"] in self.env:
                    pass
            t = fn.term(b)
            k = t["k"]
            if k == "goto":
                b = t["t"]
            elif k in ("assert", "drop"):
                b = t["t"]
            elif k == "call":
                c = callee_of(t)
                if kit.is_try_branch(c):
                    # the Continue payload is the Ok payload of the argument
                    src = op_local(t["args"][0])
                    self.env[t["dest"]["l"]] = self.env.get(src, BV.top())
                else:
                    v = self.call_summary(c, t, self)
                    if place_is_local(t["dest"]):
                        self.env[t["dest"]["l"]] = v if v is not None else BV.top()
                b = t.get("t")
            elif k == "switch":
                sw = kit.switch_on_discr_of_local(fn, b)
                tg = {v: x for v, x in t["targets"]}
                if sw and sw[1] == "core::ops::control_flow::ControlFlow":
                    # follow Continue; its payload `(x as Continue).0` is read through a place projection
                    src = sw[0]["l"]
                    self._cf_local = src
                    b = tg.get(0)
                else:
                    break
            elif k == "return":
                break
            else:
                break
            if b in stop_blocks:
                break
        return result

    # payload reads `(local as Continue).0` need the env of `local`
    def operand_place_payload(self, p):
        return self.env.get(p["l"])


# --------------------------------------------------------------------------- decoder side
def instr_field(e, instr_pred):
    """(lo, width, sext) if e extracts a field of the instruction word; None otherwise"""
    e0 = e
    while e0[0] == "cast":
        e0 = e0[3]
    if instr_pred(e0):
        return (0, 16, False)
    if e0[0] == "bin" and e0[1] == "BitAnd":
        for a, b in ((e0[2], e0[3]), (e0[3], e0[2])):
            if b[0] == "const":
                m = b[1]
                inner = instr_field(a, instr_pred)
                if inner and m > 0:
                    lo_m = (m & -m).bit_length() - 1
                    width_m = m.bit_length() - lo_m
                    if m == ((1 << width_m) - 1) << lo_m:
                        lo = inner[0] + lo_m
                        return (lo, min(width_m, inner[1] - lo_m), False)
    if e0[0] == "bin" and e0[1] == "Shr" and e0[3][0] == "const":
        inner = instr_field(e0[2], instr_pred)
        if inner:
            k = e0[3][1]
            return (inner[0] + k, max(0, inner[1] - k), False)
    if e0[0] == "call" and e0[1] and e0[1].endswith("RunState::s_ext") and len(e0[2]) == 2 and e0[2][1][0] == "const":
        inner = instr_field(e0[2][0], instr_pred)
        if inner:
            return (inner[0], min(e0[2][1][1], inner[1]), True)
    return None


def decode_uses(ctx, fn, instr_param=2):
    """set of (lo, width, sext, sink) for a handler `fn(&mut self, instr)`"""
    prog = ctx.prog

    def _has_instr(x):
        return any(y[0] == "arg" and y[1] == instr_param for y in expr_walk(x))

    def _push_masks(e):
        """`(a & field) & m` == `a & (field & m)`: a constant mask applied to a conjunction narrows the instruction field inside it"""
        if not isinstance(e, tuple) or not e:
            return e
        e = tuple(_push_masks(x) if isinstance(x, tuple) and x and isinstance(x[0], str) else
                  (tuple(_push_masks(y) if isinstance(y, tuple) else y for y in x) if isinstance(x, tuple) else x) for x in e)
        if e[0] == "bin" and e[1] == "BitAnd":
            for X, m in ((e[2], e[3]), (e[3], e[2])):
                if m[0] == "const" and X[0] == "bin" and X[1] == "BitAnd":
                    P, Q = X[2], X[3]
                    if _has_instr(Q) and not _has_instr(P):
                        return ("bin", "BitAnd", P, _push_masks(("bin", "BitAnd", Q, m)))
                    if _has_instr(P) and not _has_instr(Q):
                        return ("bin", "BitAnd", _push_masks(("bin", "BitAnd", P, m)), Q)
        return e

    def _fx(*a, **k):
        return _push_masks(fn.expr(*a, **k))

    def _frx(*a, **k):
        return _push_masks(fn.rvalue_expr(*a, **k))

    def is_instr(e):
        return e[0] == "arg" and e[1] == instr_param

    uses = set()

    def fields_in(e):
        """maximal instr-field sub-expressions of e with their parent chain"""
        out = []

        def walk(x, parents):
            f = instr_field(x, is_instr)
            if f is not None and not is_instr(kit_strip_cast(x)):
                out.append((f, parents))
                return
            if f is not None and is_instr(kit_strip_cast(x)):
                out.append((f, parents))
                return
            for y in x[1:]:
                if isinstance(y, tuple) and y and isinstance(y[0], str):
                    walk(y, parents + [x])
                elif isinstance(y, tuple):
                    for z in y:
                        if isinstance(z, tuple) and z and isinstance(z[0], str):
                            walk(z, parents + [x])
        walk(e, [])
        return out

    # which reg_mut results are stored through (writes) vs only read
    written_refs = set()
    for b, i, s in fn.assigns():
        if s["p"].get("pr") == ["*"]:
            written_refs.add(s["p"]["l"])

    def classify_add(parent, fexpr_field):
        """sink of a field used as operand of a wrapping_add"""
        others = [a for a in parent[2] if instr_field(a, is_instr) != fexpr_field]
        txt = " ".join(expr_str(o, 60) for o in others)
        if "self.pc" in txt:
            return "pc+"
        if "reg(" in txt and "wrapping_add" not in txt:
            return "base+"
        return "alu"

    for b in sorted(fn.live_blocks()):
        t = fn.term(b)
        if t["k"] == "call":
            c = callee_of(t) or ""
            args = [_fx(a, 12) for a in t["args"]]
            if c.endswith("RunState::reg") and len(args) == 2:
                f = instr_field(args[1], is_instr)
                if f:
                    uses.add(f + ("reg-read",))
                elif args[1][0] == "const":
                    uses.add(("const", args[1][1], False, "reg-read"))
            elif c.endswith("RunState::reg_mut") and len(args) == 2:
                kind = "reg-write" if t["dest"]["l"] in written_refs else "reg-read"
                f = instr_field(args[1], is_instr)
                if f:
                    uses.add(f + (kind,))
                elif args[1][0] == "const":
                    uses.add(("const", args[1][1], False, kind))
            elif re.search(r"<impl u16>::(wrapping|overflowing|checked|saturating)_(add|sub)$", c) or re.search(r"ops::arith::(Add|Sub)(<.*>)?>::(add|sub)$", c):
                pe = ("call", c, tuple(args))
                for a in args:
                    f = instr_field(a, is_instr)
                    if f:
                        uses.add(f + (classify_add(pe, f),))
        elif t["k"] == "switch":
            e = _fx(t["a"], 12)
            # direct switch on a field (trap vector) or a test of a field
            f = instr_field(e, is_instr)
            if f:
                uses.add(f + ("switch",))
            else:
                for (ff, parents) in fields_in(e):
                    txt = expr_str(e, 120)
                    if "discr(" in txt and "flag" in txt:
                        uses.add(ff + ("cc-mask",))
                    else:
                        uses.add(ff + ("test",))
    # ALU immediates that do not go through wrapping_add (AND uses `val1 & val2`), and plain `+` on addresses
    for b, i, s in fn.assigns():
        r = s["r"]
        if r["k"] == "bin" and r["op"].replace("WithOverflow", "").replace("Unchecked", "") in ("BitAnd", "BitOr", "BitXor", "Add", "Sub"):
            ops = [_fx(o, 12) for o in (r["a"], r["b"])]
            for e in ops:
                f = instr_field(e, is_instr)
                if f and f[2]:
                    if r["op"].startswith(("Add", "Sub")):
                        uses.add(f + (classify_add(("call", "+", tuple(ops)), f),))
                    else:
                        uses.add(f + ("alu",))
    # multi-definition locals (val2 in ADD/AND) hide an s_ext: pick it up from the call itself
    for b in sorted(fn.live_blocks()):
        t = fn.term(b)
        if t["k"] == "call" and (callee_of(t) or "").endswith("RunState::s_ext"):
            args = [_fx(a, 12) for a in t["args"]]
            f = instr_field(("call", callee_of(t), tuple(args)), is_instr)
            if f and not any(u[:3] == f for u in uses):
                uses.add(f + ("alu",))
    return uses


def kit_strip_cast(e):
    while e[0] == "cast":
        e = e[3]
    return e
