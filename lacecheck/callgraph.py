"""Resolved call graph over lib + bin facts.

Edges: direct calls (resolved instance), closures (attached to their creator and to the
call that receives them as a generic argument), fn items passed as generic arguments,
ReifyFnPointer casts, references to const items (their CTFE bodies, e.g. a dispatch
table), promoteds, and formatting edges (Argument::new_display::<T> -> <T as Display>::fmt).
"""
import re
from .facts import callee_of

FMT_TRAITS = {
    "new_display": "core::fmt::Display",
    "new_debug": "core::fmt::Debug",
    "new_lower_hex": "core::fmt::LowerHex",
    "new_upper_hex": "core::fmt::UpperHex",
    "new_binary": "core::fmt::Binary",
}


def _ops_in_rvalue(r):
    k = r["k"]
    if k in ("use", "un", "cast", "repeat"):
        return [r["a"]]
    if k == "bin":
        return [r["a"], r["b"]]
    if k == "agg":
        return list(r["ops"])
    return []


class CallGraph:
    def __init__(self, prog):
        self.prog = prog
        self.edges = {}      # caller -> set(callee)
        self.sites = {}      # (caller, callee) -> list of (bb, span)
        self.unresolved = []  # (caller, bb, description)
        self.external = {}   # caller -> set(external callee names)
        self._impl_index = None
        self._build()

    def _add(self, a, b, bb=None, sp=None):
        self.edges.setdefault(a, set()).add(b)
        self.sites.setdefault((a, b), []).append((bb, sp))

    def _fmt_target(self, callee, targs, prefix):
        m = re.search(r"Argument(?:::)?(?:<'_>)?::(new_\w+)", callee)
        if not m or m.group(1) not in FMT_TRAITS or not targs:
            return None
        t = targs[0]
        while t.startswith("&"):
            t = t[1:].lstrip()
            if t.startswith("mut "):
                t = t[4:]
        tr = FMT_TRAITS[m.group(1)]
        for pfx in ("lace", "bin"):
            cand = "%s::<%s as %s>::fmt" % (pfx, t, tr)
            if cand in self.prog.fns:
                return cand
        return None

    def _impl_methods(self, fn_full):
        m = re.match(r"^<(.+) as ([^<>]+(?:<.*>)?)>::\w+$", fn_full or "")
        if not m:
            return []
        if self._impl_index is None:
            self._impl_index = {}
            for n in self.prog.fns:
                mm = re.match(r"^(lace|bin)::(<.+ as .+>)::[^:]+$", n)
                if mm:
                    self._impl_index.setdefault(mm.group(2), []).append(n)
        return self._impl_index.get("<%s as %s>" % (m.group(1), m.group(2)), [])

    def _build(self):
        fns = self.prog.fns
        for name, f in fns.items():
            self.edges.setdefault(name, set())
            if f.bkind == "promoted":
                continue
            # promoteds belong to their owner
            for b in range(len(f.blocks)):
                blk = f.blocks[b]
                for s in blk["stmts"]:
                    if s["k"] != "assign":
                        continue
                    r = s["r"]
                    if r["k"] == "agg" and r.get("ak") == "closure":
                        self._add(name, r["closure"], b, s.get("sp"))
                    for op in _ops_in_rvalue(r):
                        self._const_edges(name, op, b, s.get("sp"))
                t = blk["term"]
                if t["k"] == "call":
                    fo = t["f"]
                    c = callee_of(t)
                    if c is None:
                        self.unresolved.append((name, b, "indirect call"))
                        # indirect through a place: edges were added where the pointer was reified / table referenced
                    else:
                        self._add(name, c, b, t.get("sp"))
                        if c not in fns:
                            self.external.setdefault(name, set()).add(c)
                        for cl in fo.get("closures", []):
                            if cl.startswith("fn:"):
                                self._add(name, cl[3:], b, t.get("sp"))
                            else:
                                self._add(name, cl, b, t.get("sp"))
                        ft = self._fmt_target(c, fo.get("targs", []), f.crate.prefix)
                        if ft:
                            self._add(name, ft, b, t.get("sp"))
                        # a trait's provided method on a local type (`<NormalWriter as fmt::Write>::write_fmt`) runs in the
                        # trait's crate and calls back into the type's own required methods (`write_str`)
                        if c not in fns:
                            for tgt in self._impl_methods(fo.get("fn_full")):
                                self._add(name, tgt, b, t.get("sp"))
                    for a in t["args"]:
                        self._const_edges(name, a, b, t.get("sp"))
                elif t["k"] == "switch":
                    self._const_edges(name, t["a"], b, t.get("sp"))

    def _const_edges(self, name, op, b, sp):
        if op.get("k") != "const":
            return
        if "fn" in op:
            # a fn item used as a value (reified or passed) may be called by the holder
            self._add(name, op.get("resolved") or op["fn"], b, sp)
        if "uneval" in op:
            tgt = op["uneval"]
            if op.get("promoted") is not None:
                tgt = "%s::promoted[%d]" % (tgt, op["promoted"])
            self._add(name, tgt, b, sp)
        if "fnptr" in op:
            self._add(name, op["fnptr"], b, sp)

    def callees(self, name):
        return self.edges.get(name, set())

    def reachable(self, roots, stop=()):
        """set of function names reachable from roots (roots included); `stop` names are not expanded"""
        stop = set(stop)
        seen = set()
        work = list(roots)
        while work:
            n = work.pop()
            if n in seen:
                continue
            seen.add(n)
            if n in stop:
                continue
            for c in self.edges.get(n, ()):
                if c not in seen:
                    work.append(c)
        return seen

    def reaches(self, src, pred, stop=()):
        """does src reach a function name satisfying pred?"""
        for n in self.reachable([src], stop):
            if pred(n):
                return True
        return False

    def path(self, src, pred, stop=()):
        from collections import deque
        stop = set(stop)
        prev = {src: None}
        dq = deque([src])
        while dq:
            n = dq.popleft()
            if pred(n) and n != src:
                out = []
                while n is not None:
                    out.append(n)
                    n = prev[n]
                return out[::-1]
            if n in stop:
                continue
            for c in sorted(self.edges.get(n, ())):
                if c not in prev:
                    prev[c] = n
                    dq.append(c)
        return None

    def callers(self, target):
        return sorted(a for a, cs in self.edges.items() if target in cs)
