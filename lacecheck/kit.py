"""Analysis kit shared by the rules: regions, loops, error edges, result consumption,
value provenance. Generic over MIR; lace-specific names are passed in by the rules."""
import re
from .facts import (callee_of, op_local, op_place, place_is_local, place_key, const_int,
                    sp_file_line, short, expr_walk)


# ------------------------------------------------------------------ regions / arms
def dominated_region(fn, entry):
    """blocks dominated by `entry` (the body of a match arm whose first block is `entry`)"""
    dom = fn.dominators()
    return {b for b, ds in dom.items() if entry in ds}


def discr_switches(fn, adt):
    """yield (bb, place, {variant_idx: target}, otherwise) for every SwitchInt on discriminant of `adt`"""
    for b in sorted(fn.live_blocks()):
        t = fn.term(b)
        if t["k"] != "switch":
            continue
        l = op_local(t["a"])
        if l is None:
            continue
        for kind, db, i, node in fn.defs().get(l, []):
            if kind == "stmt" and node["r"]["k"] == "discr" and node["r"].get("adt") == adt and db == b:
                yield b, node["r"]["p"], {v: tb for v, tb in t["targets"]}, t["otherwise"]


def switch_on_discr_of_local(fn, bb):
    """if bb ends in a switch on discriminant(L ...) return (place, adt) else None"""
    t = fn.term(bb)
    if t["k"] != "switch":
        return None
    l = op_local(t["a"])
    if l is None:
        return None
    for kind, db, i, node in fn.defs().get(l, []):
        if kind == "stmt" and node["r"]["k"] == "discr":
            # the discriminant read closest before the switch
            if db == bb:
                return node["r"]["p"], node["r"].get("adt")
    sd = fn.single_def(l)
    if sd and sd[0] == "stmt" and sd[3]["r"]["k"] == "discr":
        return sd[3]["r"]["p"], sd[3]["r"].get("adt")
    return None


# ------------------------------------------------------------------ loops
def back_edges(fn):
    out = []
    dom = fn.dominators()
    for b in fn.live_blocks():
        for s in fn.succ_map()[b]:
            if s in dom.get(b, ()):
                out.append((b, s))
    return out


def loop_body(fn, header, latches):
    """natural loop of header given its back-edge sources"""
    body = {header}
    work = [l for l in latches]
    pm = fn.pred_map()
    live = fn.live_blocks()
    while work:
        b = work.pop()
        if b in body or b not in live:
            continue
        body.add(b)
        for p in pm[b]:
            if p not in body:
                work.append(p)
    return body


def loops(fn):
    """header -> (body, latches)"""
    hs = {}
    for u, h in back_edges(fn):
        hs.setdefault(h, []).append(u)
    return {h: (loop_body(fn, h, ls), ls) for h, ls in hs.items()}


# ------------------------------------------------------------------ error edges (Result / Option flow)
TRY_BRANCH = "core::ops::try_trait::Try>::branch"
FROM_RESIDUAL = "core::ops::try_trait::FromResidual"


def is_try_branch(c):
    return c is not None and TRY_BRANCH in c


def is_from_residual(c):
    return c is not None and FROM_RESIDUAL in c and c.endswith("from_residual")


def error_blocks(fn):
    """blocks that put an error into the return place: `?` residual conversion or `_0 = Err(..)`/`None`"""
    out = set()
    for b in fn.live_blocks():
        t = fn.term(b)
        if t["k"] == "call" and is_from_residual(callee_of(t)) and t["dest"]["l"] == 0:
            out.add(b)
        for s in fn.stmts(b):
            if s["k"] == "assign" and s["p"]["l"] == 0 and place_is_local(s["p"]):
                r = s["r"]
                if r["k"] == "agg" and r.get("ak") == "adt" and r.get("adt") in (
                        "core::result::Result", "core::option::Option") and r.get("variant") in ("Err", "None"):
                    out.add(b)
    return out


def result_err_edges(fn, only_locals=None):
    """edges (bb, target) taken when a Result-typed local is Err (discriminant 1), or when a
    Try::branch result is Break. only_locals: restrict to these result locals."""
    edges = set()
    for b in fn.live_blocks():
        sw = switch_on_discr_of_local(fn, b)
        if not sw:
            continue
        place, adt = sw
        t = fn.term(b)
        if adt in ("core::result::Result", "core::ops::control_flow::ControlFlow") and place_is_local(place):
            l = place["l"]
            if only_locals is not None and l not in only_locals:
                continue
            for v, tb in t["targets"]:
                if v == 1:
                    edges.add((b, tb))
            # `if let Ok(x) = r` lowers to `switch [0: ok, otherwise: err]`
            vals = [v for v, _ in t["targets"]]
            if vals == [0]:
                edges.add((b, t["otherwise"]))
    return edges


def uses_of_local(fn, l):
    """list of (bb, kind, node) where local l is read: kinds 'stmt','term'"""
    out = []
    for b in fn.live_blocks():
        for s in fn.stmts(b):
            if s["k"] != "assign":
                continue
            if _rvalue_mentions(s["r"], l) or (s["p"]["l"] == l and s["p"].get("pr")):
                out.append((b, "stmt", s))
        t = fn.term(b)
        if _term_mentions(t, l):
            out.append((b, "term", t))
    return out


def _op_mentions(op, l):
    p = op_place(op)
    if p is None:
        return False
    if p["l"] == l:
        return True
    for e in p.get("pr", []):
        if isinstance(e, dict) and e.get("idx") == l:
            return True
    return False


def _rvalue_mentions(r, l):
    k = r["k"]
    if k in ("use", "un", "cast", "repeat"):
        return _op_mentions(r["a"], l)
    if k == "bin":
        return _op_mentions(r["a"], l) or _op_mentions(r["b"], l)
    if k == "agg":
        return any(_op_mentions(o, l) for o in r["ops"])
    if k in ("ref", "rawptr", "discr"):
        return r["p"]["l"] == l
    return False


def _term_mentions(t, l):
    k = t["k"]
    if k == "switch":
        return _op_mentions(t["a"], l)
    if k == "call":
        return any(_op_mentions(a, l) for a in t["args"]) or _op_mentions(t["f"], l)
    if k == "assert":
        return _op_mentions(t["cond"], l) or any(_op_mentions(o, l) for o in t["ops"])
    if k == "drop":
        return t["p"]["l"] == l and False  # drops are not reads
    return False


def result_is_consumed(fn, bb):
    """For a call block bb whose destination holds a Result: is the outcome looked at?
    Accepted idioms (enumerated from the tree): `?` (Try::branch), match / if let (discriminant),
    returned as the function's own result, passed on to another function (into_diagnostic,
    map_err, unwrap, expect, is_ok ...). Not accepted: the value is only dropped or never read."""
    t = fn.term(bb)
    d = t["dest"]
    if not place_is_local(d):
        return True
    l = d["l"]
    if l == 0:
        return True
    seen = set()
    work = [l]
    while work:
        x = work.pop()
        if x in seen:
            continue
        seen.add(x)
        for b, kind, node in uses_of_local(fn, x):
            if kind == "term":
                if node["k"] in ("call", "switch"):
                    return True
            else:
                r = node["r"]
                if r["k"] == "discr":
                    return True
                if r["k"] in ("use", "ref", "cast") and place_is_local(node["p"]):
                    if node["p"]["l"] == 0:
                        return True
                    work.append(node["p"]["l"])
                elif r["k"] == "agg":
                    return True
                elif node["p"]["l"] == 0:
                    return True
    return False


# ------------------------------------------------------------------ expression helpers
def expr_calls(e):
    """callee names appearing in an expression tree"""
    return [x[1] for x in expr_walk(e) if x[0] == "call"]


def expr_leaves(e):
    return [x for x in expr_walk(e) if x[0] in ("arg", "local", "const", "str", "uneval", "fn")]


def expr_fields(e):
    return [x[2] for x in expr_walk(e) if x[0] == "field"]


def strip_refs(e):
    while e and e[0] in ("ref", "deref"):
        e = e[1]
    return e


def strip_casts(e):
    while e and e[0] in ("cast", "ref", "deref"):
        e = e[3] if e[0] == "cast" else e[1]
    return e


# ------------------------------------------------------------------ generic forward dataflow
def forward(fn, init, transfer, join, start=0, blocks=None, edge=None):
    """Worklist forward dataflow. transfer(bb, state) -> state after the block (or None to kill);
    edge(src, dst, state) -> state (or None). States must be comparable with ==."""
    live = fn.live_blocks() if blocks is None else set(blocks)
    instate = {start: init}
    work = [start]
    sm = fn.succ_map()
    it = 0
    while work:
        it += 1
        if it > 200000:
            raise RuntimeError("dataflow did not converge in %s" % fn.name)
        b = work.pop()
        st = instate.get(b)
        out = transfer(b, st)
        if out is None:
            continue
        for s in sm[b]:
            if s not in live:
                continue
            o2 = edge(b, s, out) if edge else out
            if o2 is None:
                continue
            if s in instate:
                j = join(instate[s], o2)
                if j == instate[s]:
                    continue
                instate[s] = j
            else:
                instate[s] = o2
            work.append(s)
    return instate


# ------------------------------------------------------------------ string comparisons
def promoted_strs(prog, op):
    """string literals held by the promoted/const an operand refers to"""
    out = []
    if op.get("k") != "const":
        return out
    if "str" in op:
        return [op["str"]]
    if "uneval" in op:
        nm = op["uneval"]
        if op.get("promoted") is not None:
            nm = "%s::promoted[%d]" % (nm, op["promoted"])
        f = prog.fns.get(nm)
        if f is not None:
            for b in f.blocks:
                for s in b["stmts"]:
                    if s["k"] == "assign":
                        for key in ("a",):
                            o = s["r"].get(key)
                            if isinstance(o, dict) and "str" in o:
                                out.append(o["str"])
                        for o in s["r"].get("ops", []):
                            if "str" in o:
                                out.append(o["str"])
    return out


def operand_strs(prog, fn, op, depth=4):
    """string literals an operand may denote, following single-definition temporaries, refs and promoteds"""
    if op.get("k") == "const":
        return promoted_strs(prog, op)
    l = op_local(op)
    p = op_place(op)
    if p is None:
        return []
    l = p["l"]
    if depth <= 0:
        return []
    sd = fn.single_def(l)
    if not sd or sd[0] != "stmt":
        return []
    r = sd[3]["r"]
    if r["k"] in ("use", "cast"):
        return operand_strs(prog, fn, r["a"], depth - 1)
    if r["k"] == "ref":
        inner = r["p"]
        return operand_strs(prog, fn, {"k": "copy", "p": {"l": inner["l"]}}, depth - 1)
    return []


def const_str_list(prog, fn, op):
    """the strings of a constant `[&str; N]` operand (a named const table, possibly reached through a promoted reference)"""
    def from_name(nm, idx):
        if idx is None:
            v = prog.consts_hir.get(nm)
            return v if isinstance(v, list) and v and all(isinstance(x, str) for x in v) else None
        pf = prog.fns.get("%s::promoted[%s]" % (nm, idx))
        if pf is None:
            return None
        for b_, i_, s_ in pf.assigns():
            for x in expr_walk(pf.rvalue_expr(s_["r"], 4)):
                if x[0] == "uneval" and (len(x) < 3 or x[2] is None):
                    v = from_name(x[1], None)
                    if v:
                        return v
        return None
    for x in expr_walk(fn.expr(op, 8)):
        if x[0] == "uneval":
            v = from_name(x[1], x[2] if len(x) > 2 else None)
            if v:
                return v
    return None


def _switch_on_result(fn, nb, dest_local, hops=6):
    """the switch that tests the boolean produced into dest_local, following plain copies through straight-line blocks"""
    track = {dest_local}
    cur = nb
    for _ in range(hops):
        if cur is None:
            return None
        for s_ in fn.stmts(cur):
            if s_["k"] == "assign" and not s_["p"].get("pr") and s_["r"]["k"] == "use" and s_["r"]["a"].get("p") is not None \
                    and not s_["r"]["a"]["p"].get("pr") and s_["r"]["a"]["p"]["l"] in track:
                track.add(s_["p"]["l"])
        tt = fn.term(cur)
        if tt["k"] == "switch":
            return (cur, tt) if op_local(tt["a"]) in track else None
        if tt["k"] != "goto":
            return None
        cur = tt["t"]
    return None


def guard_switch_block(fn, gb):
    """block holding the switch that tests the result of the comparison call in block gb"""
    t = fn.term(gb)
    sw = _switch_on_result(fn, t.get("t"), t["dest"]["l"]) if t.get("t") is not None else None
    return sw[0] if sw else None


def str_eq_guards(prog, fn):
    """[(call_bb, literal, true_target_bb, false_target_bb)] for every `x == "lit"` test; `TABLE.contains(&x)` over a constant table
    of strings counts as one test per entry"""
    out = []
    for b, t, c in fn.calls():
        if c is None or t.get("t") is None:
            continue
        lits = []
        negated = False
        if (c.endswith("::eq") or c.endswith("::ne")) and "PartialEq" in c:
            negated = c.endswith("::ne")          # `x != "lit"`: the same test with the branches swapped
            for a in t["args"]:
                lits += operand_strs(prog, fn, a)
        elif c.endswith("[T]>::contains") and t.get("args"):
            lits = const_str_list(prog, fn, t["args"][0]) or []
        if not lits:
            continue
        sw = _switch_on_result(fn, t["t"], t["dest"]["l"])
        if sw:
            nb, tt = sw
            tgt = {v: x for v, x in tt["targets"]}
            true_bb = tt["otherwise"] if 0 in tgt else tgt.get(1)
            false_bb = tgt.get(0, tt["otherwise"])
            if negated:
                true_bb, false_bb = false_bb, true_bb
            for lit in lits:
                out.append((b, lit, true_bb, false_bb))
    return out


# ------------------------------------------------------------------ guards returning Option / Result
def ok_target_of_call(fn, gb):
    """block entered only when the Option/Result returned by the call in block `gb` is Some/Ok
    (through `?` or a direct match on it); None if the shape is not recognised"""
    t = fn.term(gb)
    cur = t.get("t")
    res = t["dest"]["l"]
    for _ in range(5):
        if cur is None:
            return None
        tt = fn.term(cur)
        if tt["k"] == "call" and is_try_branch(callee_of(tt)) and op_local(tt["args"][0]) == res:
            res = tt["dest"]["l"]
            cur = tt.get("t")
            continue
        if tt["k"] == "switch":
            sw = switch_on_discr_of_local(fn, cur)
            if sw and place_is_local(sw[0]) and sw[0]["l"] == res:
                tg = {v: x for v, x in tt["targets"]}
                if sw[1] == "core::ops::control_flow::ControlFlow":
                    return tg.get(0)
                if sw[1] == "core::option::Option":
                    return tg.get(1, tt["otherwise"] if 0 in tg else None)
                if sw[1] == "core::result::Result":
                    return tg.get(0, tt["otherwise"] if 1 in tg else None)
            return None
        if tt["k"] == "goto":
            cur = tt["t"]
            continue
        return None
    return None


def promoted_expr(prog, op):
    """expression tree of the value a promoted / const operand denotes (its body's return value)"""
    if op.get("k") != "const" or "uneval" not in op:
        return None
    nm = op["uneval"]
    if op.get("promoted") is not None:
        nm = "%s::promoted[%d]" % (nm, op["promoted"])
    f = prog.fns.get(nm)
    if f is None:
        return None
    for b in f.exits() or range(len(f.blocks)):
        pass
    # _0 = &_1 ; _1 = <value>
    e = f.local_expr(0, 10)
    while e and e[0] == "ref":
        e = e[1]
    return e


def operand_value_expr(prog, fn, op, depth=6):
    """like fn.expr but looks through references into promoteds"""
    e = fn.expr(op, depth)
    return resolve_promoteds(prog, e)


def resolve_promoteds(prog, e):
    if not isinstance(e, tuple) or not e:
        return e
    if e[0] == "uneval":
        nm = e[1]
        if e[2] is not None:
            nm = "%s::promoted[%d]" % (nm, e[2])
        f = prog.fns.get(nm)
        if f is not None:
            v = f.local_expr(0, 10)
            while v and v[0] == "ref":
                v = v[1]
            return resolve_promoteds(prog, v)
        return e
    out = []
    for x in e:
        if isinstance(x, tuple) and x and isinstance(x[0], str):
            out.append(resolve_promoteds(prog, x))
        elif isinstance(x, tuple):
            out.append(tuple(resolve_promoteds(prog, y) if isinstance(y, tuple) else y for y in x))
        else:
            out.append(x)
    return tuple(out)


def has_cycle(fn, blocks):
    """is there a CFG cycle using only `blocks`?"""
    blocks = set(blocks)
    color = {}
    sm = fn.succ_map()
    for root in blocks:
        if root in color:
            continue
        stack = [(root, iter([s for s in sm[root] if s in blocks]))]
        color[root] = 1
        while stack:
            node, it = stack[-1]
            adv = False
            for s in it:
                if color.get(s) == 1:
                    return (node, s)
                if s not in color:
                    color[s] = 1
                    stack.append((s, iter([x for x in sm[s] if x in blocks])))
                    adv = True
                    break
            if not adv:
                color[node] = 2
                stack.pop()
    return None


def default_origins(prog, fn, blocks=None):
    """constants that stand in for a missing `.orig` in fn (restricted to `blocks`): the argument of `orig().unwrap_or(K)`, the
    other definition of a u16 local one of whose definitions is the payload of `orig()`, or a constant handed straight to
    to_be_bytes. Named constants are evaluated from their bodies."""
    from . import formula
    from .facts import callee_of, expr_walk, const_int, place_is_local

    def val(e):
        try:
            v = formula.evaluate(e, {"prog": prog})
            return v if isinstance(v, int) else None
        except Exception:
            return None
    out = []
    live = fn.live_blocks() if blocks is None else (set(blocks) & fn.live_blocks())
    def from_orig(e):
        return any(x[0] == "call" and str(x[1]).endswith("Air::orig") for x in expr_walk(e))
    for b, t, c in fn.calls():
        if b not in live or not c:
            continue
        if c.endswith("Option::<T>::unwrap_or") and from_orig(fn.expr(t["args"][0], 8)):
            v = val(fn.expr(t["args"][1], 6))
            if v is not None:
                out.append(v)
        if c.endswith("to_be_bytes"):
            e = fn.expr(t["args"][0], 2)
            if e[0] in ("const", "uneval"):
                v = val(e)
                if v is not None:
                    out.append(v)
    for l, ds in fn.defs().items():
        if len(ds) < 2 or fn.local_ty(l) != "u16":
            continue
        exprs = []
        for kind, db, i, node in ds:
            if db not in live:
                exprs = []
                break
            exprs.append(fn.rvalue_expr(node["r"], 8) if kind == "stmt" else ("call", callee_of(node), tuple(fn.expr(a, 6) for a in node["args"])))
        if exprs and any(from_orig(e) for e in exprs):
            for e in exprs:
                if not from_orig(e):
                    v = val(e)
                    if v is not None:
                        out.append(v)
    return out


_VIDX = {"None": 0, "Some": 1, "Ok": 0, "Err": 1, "Continue": 0, "Break": 1}


def _enum_const_discr(prog, fn, op):
    """discriminant of the fieldless-enum constant an operand refers to (`&Ordering::Equal` as a promoted), else None"""
    if prog is None:
        return None
    try:
        e = resolve_promoteds(prog, fn.expr(op, 6))
    except Exception:
        return None
    while e[0] in ("ref", "deref"):
        e = e[1]
    if e[0] == "agg" and e[1][0] == "adt" and not e[2]:
        adt = prog.adts.get(e[1][1])
        if adt:
            for v in adt["variants"]:
                if v["name"] == e[1][2]:
                    return v.get("discr", v["idx"])
        return _STD_DISCR.get((e[1][1], e[1][2]))
    return None


_STD_DISCR = {("core::cmp::Ordering", "Less"): -1, ("core::cmp::Ordering", "Equal"): 0, ("core::cmp::Ordering", "Greater"): 1}


def feasible_path_avoiding(fn, start, goal, avoid, limit=20000, prog=None, facts0=None):
    """Is there a path start -> goal that avoids the blocks in `avoid` and is consistent with what each path itself establishes
    about Option/Result/ControlFlow-valued locals? Along a path we remember the variant last stored into a local (an aggregate
    `Some(..)`/`None`/..., a copy or move of such a local, the result of Try::branch on one); a switch on the discriminant of a
    local whose variant is known only follows the matching edge. (Correlates `return None` in an inlined helper with the caller's
    `?` taking its early-return edge.) Returns a witness path or None."""
    from .facts import callee_of
    avoid = set(avoid)
    seen = set()
    steps = [0]

    def step(b, facts, path):
        steps[0] += 1
        if steps[0] > limit:
            return path + [b]        # give up conservatively: report as feasible
        if b in avoid:
            return None
        key = (b, tuple(sorted(facts.items())))
        if key in seen:
            return None
        seen.add(key)
        if b == goal:
            return path + [b]
        facts = dict(facts)
        for s_ in fn.stmts(b):
            if s_["k"] != "assign" or s_["p"].get("pr"):
                if s_["k"] == "assign" and s_["p"].get("pr"):
                    facts.pop(s_["p"]["l"], None) if False else None
                continue
            l = s_["p"]["l"]
            r = s_["r"]
            # what is known about the payload of l (`Ok(None)`: the payload of the Ok is a None) is kept under the key -(l + 1)
            inner = facts.pop(-(l + 1), None)
            if r["k"] == "agg" and r.get("variant") in _VIDX:
                facts[l] = r["variant"]
                ops_ = r.get("ops", [])
                if len(ops_) == 1 and ops_[0].get("p") is not None and not ops_[0]["p"].get("pr") and isinstance(facts.get(ops_[0]["p"]["l"]), str):
                    facts[-(l + 1)] = facts[ops_[0]["p"]["l"]]
            elif r["k"] == "use" and r["a"].get("p") is not None and not r["a"]["p"].get("pr") and r["a"]["p"]["l"] in facts:
                facts[l] = facts[r["a"]["p"]["l"]]
                if l == r["a"]["p"]["l"] and inner is not None:
                    facts[-(l + 1)] = inner
                elif isinstance(facts.get(-(r["a"]["p"]["l"] + 1)), str):
                    facts[-(l + 1)] = facts[-(r["a"]["p"]["l"] + 1)]
            elif r["k"] == "use" and r["a"].get("p") is not None and isinstance(facts.get(-(r["a"]["p"]["l"] + 1)), str) \
                    and [("dc" in e_ or e_.get("f") == 0) if isinstance(e_, dict) else False for e_ in r["a"]["p"].get("pr", [])] == [True, True]:
                facts[l] = facts[-(r["a"]["p"]["l"] + 1)]          # `x = move (l as Ok).0`: the payload itself
            elif r["k"] == "use" and r["a"].get("k") == "const" and isinstance(r["a"].get("int"), int):
                facts[l] = ("int", r["a"]["int"])          # a constant flag (`return true` in an inlined helper)
            else:
                facts.pop(l, None)
        t = fn.term(b)
        k = t["k"]
        if k == "call":
            d = t["dest"]
            c = callee_of(t) or ""
            if not d.get("pr"):
                src = op_local(t["args"][0]) if t.get("args") else None
                if c.endswith("Try>::branch") and src in facts and not isinstance(facts[src], tuple):
                    facts[d["l"]] = "Continue" if facts[src] in ("Some", "Ok") else "Break"
                elif c.endswith("::from_residual") and fn.local_ty(d["l"]).startswith("core::option::Option"):
                    facts[d["l"]] = "None"          # `?` on an Option re-raises None
                elif c.endswith("::from_residual") and fn.local_ty(d["l"]).startswith("core::result::Result"):
                    facts[d["l"]] = "Err"
                elif re.search(r"cmp::PartialEq(<.*>)?>?::(eq|ne)$", c) and len(t.get("args", [])) == 2 and prog is not None:
                    # `x != Ordering::Equal` on a local whose variant this path has already branched on
                    val = None
                    for i_, j_ in ((0, 1), (1, 0)):
                        e_ = fn.expr(t["args"][i_], 4, stop={"named"})
                        while e_[0] in ("ref", "deref"):
                            e_ = e_[1]
                        if e_[0] == "local" and isinstance(facts.get(e_[1]), tuple) and facts[e_[1]][0] in ("discr", "notdiscr"):
                            w = _enum_const_discr(prog, fn, t["args"][j_])
                            if w is not None:
                                f_ = facts[e_[1]]
                                if f_[0] == "discr":
                                    val = (f_[1] == w)
                                elif w in f_[1]:
                                    val = False
                    if val is None:
                        facts.pop(d["l"], None)
                    else:
                        facts[d["l"]] = ("int", int(val if c.endswith("eq") else not val))
                else:
                    facts.pop(d["l"], None)
            if t.get("t") is None:
                return None
            return step(t["t"], facts, path + [b])
        if k == "switch":
            sw = switch_on_discr_of_local(fn, b)
            known = None
            if sw and not [e for e in sw[0].get("pr", []) if e != "*"] and sw[0]["l"] in facts and not isinstance(facts[sw[0]["l"]], tuple):
                known = _VIDX[facts[sw[0]["l"]]]
            elif sw and isinstance(facts.get(-(sw[0]["l"] + 1)), str) and \
                    [("dc" in e_ or e_.get("f") == 0) if isinstance(e_, dict) else False for e_ in sw[0].get("pr", []) if e_ != "*"] == [True, True]:
                known = _VIDX[facts[-(sw[0]["l"] + 1)]]          # a match on the payload of a local whose payload is known
            sl = op_local(t["a"])
            if known is None and sl is not None and isinstance(facts.get(sl), tuple):
                known = facts[sl][1]
            succs = []
            tg = {v: x for v, x in t["targets"]}
            dl = sw[0]["l"] if sw and not sw[0].get("pr") else None      # a match on a plain enum local: remember which arm was taken
            if known is None and dl is not None and isinstance(facts.get(dl), tuple) and facts[dl][0] == "discr":
                known = facts[dl][1]
            if known is not None:
                succs = [(tg.get(known, t["otherwise"]), None)]
            else:
                succs = [(x, ("discr", v)) for v, x in t["targets"]] + [(t["otherwise"], ("notdiscr", tuple(v for v, x in t["targets"])))]
            done = set()
            for x, learned in succs:
                if (x, learned) in done:
                    continue
                done.add((x, learned))
                f2 = facts
                if learned is not None and dl is not None and prog is not None:
                    f2 = dict(facts)
                    f2[dl] = learned
                r_ = step(x, f2, path + [b])
                if r_:
                    return r_
            return None
        if k in ("goto", "drop", "assert"):
            return step(t["t"], facts, path + [b])
        return None
    import sys
    old = sys.getrecursionlimit()
    sys.setrecursionlimit(max(old, 20000))
    try:
        return step(start, dict(facts0 or {}), [])
    finally:
        sys.setrecursionlimit(old)


def inlined_view(prog, fn, callees):
    """a copy of fn in which every direct call to one of `callees` (closures or functions of the crate) is inlined - lets a rule
    reason about `let check = |v| ..; check(x)` and about the same test written in line with one piece of code"""
    import copy
    from . import inline
    from .facts import Fn
    d = copy.deepcopy(fn.d)
    changed = False
    b = 0
    while b < len(d["blocks"]) and len(d["blocks"]) < 4000:
        t = d["blocks"][b]["term"]
        c = (t.get("f", {}).get("resolved") or t.get("f", {}).get("fn")) if t.get("k") == "call" else None
        if c in callees and c in prog.fns:
            g = copy.deepcopy(prog.fns[c].d)
            if len(t.get("args", [])) == g.get("arg_count") or (g.get("defkind") == "Closure" and len(t.get("args", [])) == 2):
                inline._inline_at(d, b, g)
                changed = True
        b += 1
    return Fn(fn.name, d, fn.crate) if changed else fn


def opcode_dispatch(prog, ex):
    """How `execute` gets from an instruction word to its handler: {"form": "table"|"match", "handlers": [16 names],
    "index": expression dispatched on, "args": [[arg strings] per call]}; None if neither form is found.
    table form: a const array of 16 fn pointers indexed by an expression; match form: a switch on an expression whose arm for
    value i (or the default arm) calls one local handler."""
    from .facts import callee_of as _co, expr_str as _es
    tab = None
    for n, f in prog.fns.items():
        if f.bkind == "const" and n.startswith(ex.name.rsplit("::", 1)[0] + "::"):
            fns = [s["r"]["a"].get("resolved") or s["r"]["a"].get("fn") for blk in f.blocks for s in blk["stmts"]
                   if s["k"] == "assign" and s["r"]["k"] == "cast" and "ReifyFnPointer" in s["r"].get("ck", "")]
            if len(fns) == 16:
                tab = fns
    ind = [t for b in ex.live_blocks() for t in [ex.term(b)] if t["k"] == "call" and _co(t) is None]
    if tab is not None and len(ind) == 1:
        idx = None
        for b in sorted(ex.live_blocks()):
            t = ex.term(b)
            if t["k"] == "assert" and t["ak"] == "BoundsCheck":
                idx = ex.expr(t["ops"][1], 10)
        return {"form": "table", "handlers": tab, "index": idx, "args": [[_es(ex.expr(x, 6)) for x in ind[0]["args"]]]}
    # match form
    for b in sorted(ex.live_blocks()):
        t = ex.term(b)
        if t["k"] != "switch" or len(t["targets"]) < 15:
            continue
        tg = {v: x for v, x in t["targets"]}
        hs, args = [], []
        for i in range(16):
            x = tg.get(i, t["otherwise"])
            h = None
            for _ in range(4):
                tt = ex.term(x)
                if tt["k"] == "goto":
                    x = tt["t"]
                    continue
                if tt["k"] == "call" and _co(tt) in prog.fns:
                    h = _co(tt)
                    args.append([_es(ex.expr(a, 6)) for a in tt["args"]])
                break
            hs.append(h)
        if all(hs):
            return {"form": "match", "handlers": hs, "index": ex.expr(t["a"], 10), "args": args}
    return None
