"""Fact extraction: run the rustc_private driver over /repo's *working tree*.

Freshness: a SHA-256 over every file of /repo (minus target/ and .git/) keys the fact
cache; cargo's own freshness cache is defeated by deleting the workspace member's
.fingerprint entries before every extraction and by asserting that the fact files were
rewritten by this very run.
"""
import re
import fcntl
import hashlib
import json
import os
import shutil
import subprocess
import sys
import time

VERIF = os.path.dirname(os.path.dirname(os.path.abspath(__file__)))
REPO = os.environ.get("LACE_REPO", "/repo")
BUILD = os.path.join(VERIF, ".build")
DRIVER_DIR = os.path.join(VERIF, "driver")
DRIVER_BIN = os.path.join(DRIVER_DIR, "target", "debug", "lacefacts")

PROFILES = {
    # what the test-suite (and `cargo run`) executes: debug assertions + overflow checks on
    "dev": "-Zmir-opt-level=0 -Awarnings",
    # what `cargo install` ships
    "rel": "-Zmir-opt-level=0 -Awarnings -C debug-assertions=off -C overflow-checks=off",
}
FLOORS = {"lib": 400, "bin": 40}


def env_offline():
    e = dict(os.environ)
    e["CARGO_NET_OFFLINE"] = "true"
    e.pop("RUSTFLAGS", None)
    e.pop("RUSTC_WRAPPER", None)
    return e


def sysroot():
    return subprocess.check_output(["rustc", "+nightly", "--print", "sysroot"], env=env_offline()).decode().strip()


def tree_hash(repo=None):
    repo = repo or REPO
    h = hashlib.sha256()
    n = 0
    for root, dirs, files in os.walk(repo):
        dirs[:] = sorted(d for d in dirs if not (root == repo and d in ("target", ".git")))
        for f in sorted(files):
            p = os.path.join(root, f)
            rel = os.path.relpath(p, repo)
            try:
                with open(p, "rb") as fh:
                    data = fh.read()
            except OSError:
                continue
            h.update(rel.encode())
            h.update(b"\0")
            h.update(hashlib.sha256(data).digest())
            n += 1
    return h.hexdigest(), n


def file_hash(p):
    with open(p, "rb") as fh:
        return hashlib.sha256(fh.read()).hexdigest()


def build_driver(force=False):
    srcs = [os.path.join(DRIVER_DIR, "src", f) for f in sorted(os.listdir(os.path.join(DRIVER_DIR, "src")))]
    stamp = os.path.join(BUILD, "driver.stamp")
    want = hashlib.sha256(b"".join(open(s, "rb").read() for s in srcs)).hexdigest()
    if not force and os.path.exists(DRIVER_BIN) and os.path.exists(stamp) and open(stamp).read() == want:
        return
    os.makedirs(BUILD, exist_ok=True)
    r = subprocess.run(
        ["cargo", "+nightly", "build", "--offline"], cwd=DRIVER_DIR, env=env_offline(),
        stdout=subprocess.PIPE, stderr=subprocess.STDOUT)
    if r.returncode != 0:
        sys.stdout.write(r.stdout.decode(errors="replace"))
        raise SystemExit("lacecheck: building the fact extractor failed")
    with open(stamp, "w") as fh:
        fh.write(want)


class Lock:
    def __init__(self, name):
        os.makedirs(BUILD, exist_ok=True)
        self.path = os.path.join(BUILD, name + ".lock")

    def __enter__(self):
        self.fh = open(self.path, "w")
        fcntl.flock(self.fh, fcntl.LOCK_EX)
        return self

    def __exit__(self, *a):
        fcntl.flock(self.fh, fcntl.LOCK_UN)
        self.fh.close()


def _run_driver(profile, repo, outdir, target_dir):
    """One cargo check of `repo` with the driver as workspace wrapper."""
    fpdir = os.path.join(target_dir, "debug", ".fingerprint")
    if os.path.isdir(fpdir):
        for d in os.listdir(fpdir):
            if d.startswith("lace-"):
                shutil.rmtree(os.path.join(fpdir, d), ignore_errors=True)
    e = env_offline()
    e["LACEFACTS_OUT"] = outdir
    e["LD_LIBRARY_PATH"] = os.path.join(sysroot(), "lib") + ":" + e.get("LD_LIBRARY_PATH", "")
    e["RUSTFLAGS"] = PROFILES[profile]
    e["RUSTC_WORKSPACE_WRAPPER"] = DRIVER_BIN
    e["CARGO_TARGET_DIR"] = target_dir
    r = subprocess.run(
        ["cargo", "+nightly", "check", "--offline", "--lib", "--bins"], cwd=repo, env=e,
        stdout=subprocess.PIPE, stderr=subprocess.STDOUT)
    return r


def extract(profile="dev", repo=None, quiet=True):
    """Return (facts_dir, tree_hash). Re-extracts unless the cache holds this exact tree."""
    repo = repo or REPO
    build_driver()
    th, nfiles = tree_hash(repo)
    drv = file_hash(DRIVER_BIN)[:16]
    key = "%s-%s-%s" % (th[:24], drv, profile)
    fdir = os.path.join(BUILD, "facts", key)
    # LACE_BUILD_TAG: campaign tools that check several scratch worktrees at once give each worker its own cargo target dir and lock
    tag = os.environ.get("LACE_BUILD_TAG", "")
    tag = ("-" + re.sub(r"[^A-Za-z0-9]", "", tag)) if tag else ""
    with Lock("extract-" + profile + tag):
        ok = (os.path.exists(os.path.join(fdir, "lace-lib.json"))
              and os.path.exists(os.path.join(fdir, "lace-bin.json"))
              and os.path.exists(os.path.join(fdir, "header.json")))
        if ok and not os.environ.get("VERIF_NO_CACHE"):
            hd = json.load(open(os.path.join(fdir, "header.json")))
            if hd.get("tree_hash") == th and hd.get("driver") == drv:
                try:
                    os.utime(fdir, None)
                except OSError:
                    pass
                return fdir, th
        tmp = fdir + ".tmp.%d" % os.getpid()
        shutil.rmtree(tmp, ignore_errors=True)
        os.makedirs(tmp)
        target_dir = os.path.join(BUILD, "target-" + profile + tag)
        t0 = time.time()
        r = _run_driver(profile, repo, tmp, target_dir)
        if r.returncode != 0:
            shutil.rmtree(tmp, ignore_errors=True)
            sys.stdout.write(r.stdout.decode(errors="replace")[-6000:])
            raise SystemExit("lacecheck: /repo does not compile under the fact extractor (profile %s)" % profile)
        for part in ("lib", "bin"):
            p = os.path.join(tmp, "lace-%s.json" % part)
            if not os.path.exists(p):
                shutil.rmtree(tmp, ignore_errors=True)
                raise SystemExit("lacecheck: extractor produced no facts for the %s crate (cargo skipped the wrapper?)" % part)
        th2, _ = tree_hash(repo)
        if th2 != th:
            shutil.rmtree(tmp, ignore_errors=True)
            raise SystemExit("lacecheck: /repo changed during extraction; re-run")
        with open(os.path.join(tmp, "header.json"), "w") as fh:
            json.dump({"tree_hash": th, "driver": drv, "profile": profile, "files": nfiles,
                       "rustflags": PROFILES[profile], "extract_s": round(time.time() - t0, 2)}, fh)
        shutil.rmtree(fdir, ignore_errors=True)
        os.rename(tmp, fdir)
        # keep the cache small: drop all but the 6 newest fact sets
        froot = os.path.join(BUILD, "facts")
        ents = []
        for d in os.listdir(froot):
            if ".tmp." in d:
                continue
            try:
                ents.append((os.path.getmtime(os.path.join(froot, d)), d))
            except OSError:
                pass              # removed by a check running side by side
        ents.sort()
        for mt, d in ents[:-6]:
            if time.time() - mt < 1200:
                continue          # checks may run side by side (campaign workers): a set extracted minutes ago may still be in use
            shutil.rmtree(os.path.join(froot, d), ignore_errors=True)
    return fdir, th


def setup():
    build_driver(force=False)
    for prof in ("dev", "rel"):
        extract(prof)
    print("lacecheck setup: driver built, dependency caches and facts ready")


if __name__ == "__main__":
    setup()
