"""GLOB — inventory of process-global state (thread-local keys, statics) and who writes it."""
import json
import re
from .facts import callee_of, short
from .effects import Effects

INTERIOR_WRITES = ("core::cell::RefCell::<T>::borrow_mut", "core::cell::RefCell::<T>::replace", "core::cell::RefCell::<T>::take",
                   "core::cell::RefCell::<T>::swap", "core::cell::RefCell::<T>::replace_with", "core::cell::Cell::<T>::set",
                   "core::cell::Cell::<T>::replace", "core::cell::Cell::<T>::take", "core::cell::RefCell::<T>::try_borrow_mut")
KEY_MUT_METHODS = ("with_borrow_mut", "set", "replace", "take")


class Globals:
    def __init__(self, ctx):
        self.ctx = ctx
        prog = ctx.prog
        self.prog = prog
        self.eff = Effects(prog)
        self.keys = sorted(n for n, f in prog.fns.items() if f.d.get("const_ty", "").startswith("std::thread::local::LocalKey"))
        self.statics = sorted(n for n, f in prog.fns.items() if f.defkind.startswith("Static") and "__RUST_STD_INTERNAL_VAL" not in n)
        # key -> accessor functions (owners of a promoted that mentions the key)
        self.accessors = {k: set() for k in self.keys}
        for n, f in prog.fns.items():
            txt = json.dumps(f.blocks)
            for m in re.finditer(r'"uneval": "([^"]+)"', txt):
                u = m.group(1)
                if u in self.accessors:
                    owner = f.d.get("owner", n)
                    if owner in prog.fns:
                        self.accessors[u].add(owner)
                    else:
                        # the owner's body was inlined into its callers (a new helper or closure): the accessors are the functions
                        # that now carry the reference to this promoted constant
                        mi = re.search(r"::promoted\[(\d+)\]$", n)
                        ref = '"uneval": %s, "promoted": %s' % (json.dumps(owner), mi.group(1) if mi else "0")
                        users = [n2 for n2, f2 in prog.fns.items() if n2 != n and ref in json.dumps(f2.blocks)]
                        if not users:
                            parent = owner
                            while parent not in prog.fns and "::{closure" in parent:
                                parent = parent.rsplit("::{closure", 1)[0]
                            users = [parent] if parent in prog.fns else []
                        for n2 in users:
                            self.accessors[u].add(prog.fns[n2].d.get("owner", n2) if prog.fns[n2].d.get("owner", n2) in prog.fns else n2)
        self.writers = {k: set() for k in self.keys}   # functions (or closure creators) that may write the key
        self.readers = {k: set() for k in self.keys}
        self.write_sites = {k: [] for k in self.keys}
        for k in self.keys:
            for a in self.accessors[k]:
                self._classify(k, a)

    def _closure_writes(self, cl, mutable_param):
        """does closure `cl` write the key's value? mutable_param: the closure receives &mut T (with_borrow_mut)"""
        f = self.prog.fns.get(cl)
        if f is None:
            return True
        if mutable_param:
            for p in range(2, f.arg_count + 1):
                if self.eff.writes(cl, p):
                    return True
            return False
        for b, t, c in f.calls():
            if c in INTERIOR_WRITES:
                return True
        return False

    def _classify(self, k, acc):
        prog = self.prog
        f = prog.fns[acc]
        generic = any("closure" in ty or ty in ("F", "impl FnOnce") or len(ty) <= 2 for ty in f.d.get("inputs", []))
        key_calls = [(b, t, c) for b, t, c in f.calls() if c and c.startswith("std::thread::local::LocalKey")]
        for b, t, c in key_calls:
            meth = c.rsplit("::", 1)[1]
            mutable = meth in KEY_MUT_METHODS
            cls = [x for x in t["f"].get("closures", []) if not x.startswith("fn:")]
            if cls:
                for cl in cls:
                    w = self._closure_writes(cl, meth == "with_borrow_mut")
                    (self.writers if w else self.readers)[k].add(acc)
                    if w:
                        self.write_sites[k].append((acc, cl))
            else:
                # the closure is the accessor's own parameter: classify each call site of the accessor
                for caller in self.ctx.cg.callers(acc):
                    cf = prog.fns.get(caller)
                    if cf is None:
                        continue
                    for bb, tt, cc in cf.calls():
                        if cc != acc:
                            continue
                        ccls = [x for x in tt["f"].get("closures", []) if not x.startswith("fn:")]
                        if not ccls:
                            # passes its own parameter on: treat the caller as a further accessor layer
                            (self.writers if mutable else self.readers)[k].add(caller)
                            continue
                        for cl in ccls:
                            w = self._closure_writes(cl, meth == "with_borrow_mut") if meth != "set" else True
                            (self.writers if w else self.readers)[k].add(caller)
                            if w:
                                self.write_sites[k].append((caller, cl))
                if meth in ("set", "replace", "take"):
                    self.writers[k].add(acc)
