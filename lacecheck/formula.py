"""Decision-structure extraction and finite equivalence of guard predicates.

`decision(fn, ...)` reads the branching structure of a small loop-free function off its CFG
(a decision DAG unfolded into a tree): inner nodes are the conditions tested by SwitchInt
terminators (as back-substituted expression trees), leaves are what the function stores in
its return place. `evaluate(tree, env)` evaluates such a tree on concrete leaf bindings; the
rules use it to compare a guard with the property's interval on the *cells* of the spec's own
partition (boundary points of every comparison), which decides equivalence for predicates that
touch their argument only through comparisons with constants/parameters.

Nothing here runs lace: only expression trees extracted from MIR are evaluated.
"""
import re
from .facts import callee_of, op_local, place_is_local, const_int

MASKS = {"u8": 8, "u16": 16, "u32": 32, "u64": 64, "usize": 64, "i8": 8, "i16": 16, "i32": 32, "i64": 64, "isize": 64,
         "u128": 128, "i128": 128, "bool": 1, "char": 32}


class Unknown(Exception):
    pass


class Overflow(Exception):
    """an arithmetic step that panics under overflow checks"""
    def __init__(self, what):
        Exception.__init__(self, what)
        self.what = what


def wrap(v, ty):
    if ty not in MASKS:
        return v
    bits = MASKS[ty]
    if ty == "bool":
        return 1 if v else 0
    v &= (1 << bits) - 1
    if ty.startswith("i") and v >= 1 << (bits - 1):
        v -= 1 << bits
    return v


def in_range(v, ty):
    if ty not in MASKS or ty == "bool":
        return True
    bits = MASKS[ty]
    if ty.startswith("i"):
        return -(1 << (bits - 1)) <= v < (1 << (bits - 1))
    return 0 <= v < (1 << bits)


_STD_CONST = re.compile(r"core::num::<impl ([iu])(8|16|32|64|128|size)>::(MAX|MIN|BITS)$")


def evaluate(e, env, checked=True):
    """Concrete value of an expression tree. env: dict with
       'args': {name_or_index: value}, 'calls': {callee_suffix: python function(args)->value},
       'locals': {index: value}. Raises Unknown for anything not understood, Overflow for a
       checked arithmetic failure (when checked=True)."""
    k = e[0]
    sub = env.get("subst")
    if sub is not None:
        v = sub(e)
        if v is not None:
            return v
    if k == "const":
        return e[1]
    if k == "uneval":
        # a named or promoted constant: evaluate its (CTFE) body when the program is at hand
        prog = env.get("prog")
        if prog is not None:
            nm = e[1] if len(e) < 3 or e[2] is None else "%s::promoted[%s]" % (e[1], e[2])
            cf = prog.fns.get(nm)
            if cf is not None and nm not in env.get("_const_stack", ()):
                sub_env = dict(env)
                sub_env["_const_stack"] = tuple(env.get("_const_stack", ())) + (nm,)
                sub_env["args"] = {}
                sub_env["locals"] = {}
                return evaluate(cf.local_expr(0, 12), sub_env, checked)
        m = _STD_CONST.search(str(e[1]))
        if m:
            bits, signed = int(m.group(2)) if m.group(2) != "size" else 64, m.group(1) == "i"
            lo, hi = (-(1 << (bits - 1)), (1 << (bits - 1)) - 1) if signed else (0, (1 << bits) - 1)
            return {"MAX": hi, "MIN": lo, "BITS": bits}[m.group(3)]
        raise Unknown("uneval %s" % (e[1],))
    if k == "unknown":
        # an associated constant of a primitive type the extractor left symbolic (`u16::MAX` as a range-pattern bound)
        m = re.match(r"^(?:const )?([iu])(8|16|32|64|128|size)::(MAX|MIN|BITS)(?:_[iu]\w+)?$", str(e[1]).strip())
        if m:
            bits, signed = int(m.group(2)) if m.group(2) != "size" else 64, m.group(1) == "i"
            lo, hi = (-(1 << (bits - 1)), (1 << (bits - 1)) - 1) if signed else (0, (1 << bits) - 1)
            return {"MAX": hi, "MIN": lo, "BITS": bits}[m.group(3)]
        raise Unknown("unknown %s" % (e[1],))
    if k == "arg":
        a = env.get("args", {})
        if e[2] in a:
            return a[e[2]]
        if e[1] in a:
            return a[e[1]]
        raise Unknown("arg %s" % e[2])
    if k == "local":
        l = env.get("locals", {})
        if e[1] in l:
            return l[e[1]]
        if e[2] in l:
            return l[e[2]]
        raise Unknown("local %s" % e[2])
    if k in ("ref", "deref"):
        return evaluate(e[1], env, checked)
    if k == "cast":
        v = evaluate(e[3], env, checked)
        if isinstance(v, tuple):
            raise Unknown("cast of aggregate")
        return wrap(v, e[2])
    if k == "un":
        v = evaluate(e[2], env, checked)
        if e[1] == "Not":
            ty = env.get("ty_hint", "u16")
            if isinstance(v, bool):
                return not v
            return v ^ 1 if v in (0, 1) and env.get("bool_not", False) else ~v
        if e[1] == "Neg":
            return -v
        raise Unknown("un " + e[1])
    if k in ("bin", "checked"):
        op = e[1]
        a = evaluate(e[2], env, checked)
        b = evaluate(e[3], env, checked)
        return binop(op, a, b)
    if k == "ovf":
        raise Unknown("overflow flag")
    if k == "discr":
        v = evaluate(e[1], env, checked)
        if isinstance(v, tuple) and v and v[0] == "variant":
            return _VARIANT_INDEX.get(v[1], v[1])
        raise Unknown("discr")
    if k == "agg":
        desc = e[1]
        ops = tuple(evaluate(o, env, checked) for o in e[2])
        if desc[0] == "adt":
            return ("variant", desc[2], desc[1], ops)
        return ("tuple", ops)
    if k == "field":
        v = evaluate(e[1], env, checked)
        if isinstance(v, tuple) and v[0] == "variant":
            try:
                return v[3][int(e[2])] if str(e[2]).isdigit() else v[3][_field_index(v, e[2])]
            except Exception:
                raise Unknown("field")
        if isinstance(v, tuple) and v[0] == "tuple":
            return v[1][int(e[2])]
        raise Unknown("field of scalar")
    if k == "downcast":
        return evaluate(e[1], env, checked)
    if k == "call":
        name = e[1] or ""
        for suffix, fnc in env.get("calls", {}).items():
            if name.endswith(suffix):
                vals = []
                for a in e[2]:
                    try:
                        vals.append(evaluate(a, env, checked))
                    except Unknown:
                        vals.append(None)
                return fnc(*vals)
        return builtin_call(name, [evaluate(a, env, checked) for a in e[2]], checked)
    raise Unknown(k)


_VARIANT_INDEX = {"None": 0, "Some": 1, "Ok": 0, "Err": 1, "Continue": 0, "Break": 1, "Less": -1, "Equal": 0, "Greater": 1}
_FIELD_NAMES = {"core::ops::range::Range": ["start", "end"], "core::ops::range::RangeInclusive": ["start", "end", "exhausted"]}


def _field_index(v, name):
    names = _FIELD_NAMES.get(v[2], [])
    return names.index(name)


def binop(op, a, b):
    if op == "Add":
        return a + b
    if op == "Sub":
        return a - b
    if op == "Mul":
        return a * b
    if op == "BitAnd":
        return a & b
    if op == "BitOr":
        return a | b
    if op == "BitXor":
        return a ^ b
    if op == "Shl":
        return a << b
    if op == "Shr":
        return a >> b
    if op == "Eq":
        return 1 if a == b else 0
    if op == "Ne":
        return 1 if a != b else 0
    if op == "Lt":
        return 1 if a < b else 0
    if op == "Le":
        return 1 if a <= b else 0
    if op == "Gt":
        return 1 if a > b else 0
    if op == "Ge":
        return 1 if a >= b else 0
    if op == "Div":
        if b == 0:
            raise Overflow("division by zero")
        return int(a / b)
    raise Unknown("binop " + op)


def builtin_call(name, args, checked):
    """std summaries (trusted, listed in the evidence)"""
    def ends(s):
        return name.endswith(s)
    import re
    m = re.search(r"core::num::<impl (\w+)>::(\w+)$", name)
    if m:
        ty, meth = m.group(1), m.group(2)
        if meth == "pow":
            v = args[0] ** args[1]
            if not in_range(v, ty):
                if checked:
                    raise Overflow("%s::pow(%d, %d) overflows" % (ty, args[0], args[1]))
                v = wrap(v, ty)
            return v
        if meth == "abs":
            if not in_range(abs(args[0]), ty):
                if checked:
                    raise Overflow("%s::abs(%d) overflows" % (ty, args[0]))
                return wrap(abs(args[0]), ty)
            return abs(args[0])
        if meth in ("checked_sub", "checked_add", "checked_mul"):
            v = {"checked_sub": args[0] - args[1], "checked_add": args[0] + args[1], "checked_mul": args[0] * args[1]}[meth]
            if in_range(v, ty):
                return ("variant", "Some", "core::option::Option", (v,))
            return ("variant", "None", "core::option::Option", ())
        if meth in ("saturating_sub", "saturating_add"):
            v = args[0] - args[1] if meth == "saturating_sub" else args[0] + args[1]
            lo, hi = (0, (1 << int(ty[1:])) - 1) if ty.startswith("u") and ty[1:].isdigit() else (-(1 << (int(ty[1:]) - 1)), (1 << (int(ty[1:]) - 1)) - 1) if ty[1:].isdigit() else (v, v)
            return max(lo, min(hi, v))
        if meth == "wrapping_add":
            return wrap(args[0] + args[1], ty)
        if meth == "wrapping_sub":
            return wrap(args[0] - args[1], ty)
        if meth == "overflowing_sub":
            return ("tuple", (wrap(args[0] - args[1], ty), 0 if in_range(args[0] - args[1], ty) else 1))
        if meth == "overflowing_add":
            return ("tuple", (wrap(args[0] + args[1], ty), 0 if in_range(args[0] + args[1], ty) else 1))
        if meth in ("leading_ones", "leading_zeros", "trailing_ones", "trailing_zeros", "count_ones", "count_zeros") and ty[1:].isdigit() and isinstance(args[0], int):
            bits_ = int(ty[1:])
            v_ = args[0] & ((1 << bits_) - 1)
            bs_ = format(v_, "0%db" % bits_)
            if meth == "leading_ones":
                return len(bs_) - len(bs_.lstrip("1"))
            if meth == "leading_zeros":
                return len(bs_) - len(bs_.lstrip("0"))
            if meth == "trailing_ones":
                return len(bs_) - len(bs_.rstrip("1"))
            if meth == "trailing_zeros":
                return len(bs_) - len(bs_.rstrip("0"))
            return bs_.count("1") if meth == "count_ones" else bs_.count("0")
        if meth in ("min",):
            return min(args)
        if meth in ("max",):
            return max(args)
    if re.search(r"core::ops::range::Range(::)?<", name) and ends("::contains"):
        r, x = args
        return 1 if r[3][0] <= x < r[3][1] else 0
    if re.search(r"core::ops::range::RangeInclusive(::)?<", name) and ends("::contains"):
        r, x = args
        return 1 if r[3][0] <= x <= r[3][1] else 0
    if re.search(r"(core::cmp::Ord|impl core::cmp::Ord for \w+>?)::cmp$", name) or ends("::cmp") and len(args) == 2 and all(isinstance(a, int) for a in args):
        a, b = args
        return ("variant", "Less" if a < b else ("Equal" if a == b else "Greater"), "core::cmp::Ordering", ())
    if re.search(r"PartialEq(<.*>)?>?::(eq|ne)$", name) and len(args) == 2:
        def plain(v):
            # compare enum values by variant and payload, ignoring how the type was spelled
            return (v[0], v[1], tuple(plain(x) for x in v[3])) if isinstance(v, tuple) and len(v) == 4 and v[0] == "variant" else v
        same = plain(args[0]) == plain(args[1])
        return (1 if same else 0) if name.endswith("eq") else (0 if same else 1)
    if re.search(r"char::methods::<impl char>::to_digit$", name) and len(args) == 2 and all(isinstance(a, int) for a in args):
        c_, r_ = args
        d_ = c_ - 48 if 48 <= c_ <= 57 else (c_ - 97 + 10 if 97 <= c_ <= 122 else (c_ - 65 + 10 if 65 <= c_ <= 90 else None))
        if d_ is not None and d_ < r_ and 2 <= r_ <= 36:
            return ("variant", "Some", "core::option::Option", (d_,))
        return ("variant", "None", "core::option::Option", ())
    if re.search(r"char::methods::<impl char>::is_digit$", name) and len(args) == 2 and all(isinstance(a, int) for a in args):
        return 1 if builtin_call("core::char::methods::<impl char>::to_digit", args, checked)[1] == "Some" else 0
    if ends("Option::<T>::map") and len(args) == 2 and isinstance(args[0], tuple) and args[0][:1] == ("variant",):
        # the variant survives; the payload is whatever the closure makes of it (not followed)
        return args[0] if args[0][1] == "None" else ("variant", "Some", args[0][2], (None,))
    if ends("Option::<T>::is_none"):
        return 1 if args[0][1] == "None" else 0
    if ends("Option::<T>::is_some"):
        return 1 if args[0][1] == "Some" else 0
    if ends("Try>::branch"):
        v = args[0]
        if v[1] in ("Some", "Ok"):
            return ("variant", "Continue", "core::ops::control_flow::ControlFlow", v[3])
        return ("variant", "Break", "core::ops::control_flow::ControlFlow", v[3])
    if re.search(r"RangeInclusive(::)?<Idx>::new$", name):
        return ("variant", "RangeInclusive", "core::ops::range::RangeInclusive", (args[0], args[1], 0))
    if ends("core::cmp::Ord::max") or ends("cmp::max"):
        return max(args)
    if ends("core::cmp::Ord::min") or ends("cmp::min"):
        return min(args)
    # integer conversions: `u16::try_from(x)` / `x.try_into()` succeed exactly when the value fits the target; `T::from(x)` is lossless
    m = re.search(r"TryFrom<(\w+)> for (\w+)>::try_from$", name) or re.search(r"TryInto<(\w+)>>::try_into$", name)
    if m and len(args) == 1 and isinstance(args[0], int) and not isinstance(args[0], bool):
        tgt = m.group(2) if m.lastindex == 2 else m.group(1)
        if tgt in MASKS or tgt in ("usize", "isize"):
            if in_range(args[0], tgt):
                return ("variant", "Ok", "core::result::Result", (args[0],))
            return ("variant", "Err", "core::result::Result", (("variant", "TryFromIntError", "core::num::error::TryFromIntError", ()),))
    if re.search(r"convert::(num::)?<impl core::convert::From<\w+> for \w+>::from$", name) and len(args) == 1 and isinstance(args[0], int):
        return args[0]
    if ends("Result::<T, E>::ok") and len(args) == 1 and isinstance(args[0], tuple) and args[0][:1] == ("variant",):
        return ("variant", "Some", "core::option::Option", args[0][3]) if args[0][1] == "Ok" else ("variant", "None", "core::option::Option", ())
    if ends("<impl bool>::then_some") and len(args) == 2:
        return ("variant", "Some", "core::option::Option", (args[1],)) if args[0] else ("variant", "None", "core::option::Option", ())
    if ends("Option::<T>::filter") and len(args) == 2 and isinstance(args[0], tuple) and args[0][:2] == ("variant", "None"):
        return args[0]
    raise Unknown("call " + name)


# --------------------------------------------------------------------------- decision trees
class NotATree(Exception):
    pass


def decision(fn, start=0, max_nodes=20000, leaf_of_block=None, result_place=None, leaf_of_call=None):
    """Unfold the CFG below `start` into a decision tree.
       nodes: ('switch', cond_expr, {value: subtree}, default_subtree, bb)
              ('leaf', label, bb)    label = what was last stored to the return place / diverging callee
    """
    count = [0]

    multi = {l for l, ds in fn.defs().items() if len(ds) > 1 and not fn.is_arg(l) and l != 0}

    def ret_label(b, cur, lets):
        for s in fn.stmts(b):
            if s["k"] == "assign" and ((result_place is None and s["p"]["l"] == 0 and place_is_local(s["p"])) or
                                       (result_place is not None and result_place(s["p"]))):
                cur = subst_locals(fn.rvalue_expr(s["r"], depth=20), lets)
            elif s["k"] == "assign" and place_is_local(s["p"]) and s["p"]["l"] in multi:
                lets = dict(lets)
                lets[s["p"]["l"]] = subst_locals(fn.rvalue_expr(s["r"], depth=20), lets)
        return cur, lets

    def walk(b, cur, onpath, lets=None):
        lets = lets or {}
        count[0] += 1
        if count[0] > max_nodes:
            raise NotATree("decision structure too large in %s" % fn.name)
        if b in onpath:
            raise NotATree("loop in %s at bb%d" % (fn.name, b))
        onpath = onpath | {b}
        cur, lets = ret_label(b, cur, lets)
        if leaf_of_block:
            lab = leaf_of_block(b)
            if lab is not None:
                return ("leaf", lab, b)
        t = fn.term(b)
        k = t["k"]
        if k == "return":
            return ("leaf", cur, b)
        if k == "unreachable":
            return ("leaf", ("unreachable",), b)
        if k in ("goto", "drop", "assert"):
            return walk(t["t"], cur, onpath, lets)
        if k == "call":
            if leaf_of_call:
                # the rule names a call as the end of the walk and labels it in terms of what the path has bound so far
                lab = leaf_of_call(b, t, lambda e_, _l=lets: subst_locals(e_, _l))
                if lab is not None:
                    return ("leaf", lab, b)
            if t["dest"]["l"] == 0 and place_is_local(t["dest"]):
                c = callee_of(t)
                cur = subst_locals(("call", c or "<indirect>", tuple(fn.expr(a, 20) for a in t["args"])), lets)
            elif place_is_local(t["dest"]) and t["dest"]["l"] in multi:
                lets = dict(lets)
                lets[t["dest"]["l"]] = subst_locals(("call", callee_of(t) or "<indirect>", tuple(fn.expr(a, 20) for a in t["args"])), lets)
            if t.get("t") is None:
                return ("leaf", ("diverge", callee_of(t)), b)
            return walk(t["t"], cur, onpath, lets)
        if k == "switch":
            cond = subst_locals(fn.expr(t["a"], 20), lets)
            subs = {}
            for v, tb in t["targets"]:
                subs[v] = walk(tb, cur, onpath, lets)
            dflt = walk(t["otherwise"], cur, onpath, lets)
            return ("switch", cond, subs, dflt, b)
        raise NotATree("terminator %s" % k)

    return walk(start, None, frozenset())


def eval_decision(tree, env, checked=True):
    """leaf label reached for concrete bindings"""
    while tree[0] == "switch":
        try:
            v = evaluate(tree[1], env, checked)
        except Unknown:
            # a condition that does not depend on the bindings (e.g. which message to print):
            # acceptable only when every branch ends in the same kind of leaf
            labs = [eval_decision(sub, env, checked) for sub in list(tree[2].values()) + [tree[3]]]
            kinds = {label_variant(l) if label_variant(l) is not None else repr(l) for l in labs
                     if not (l and l[0] in ("unreachable",))}
            if len(kinds) == 1:
                return [l for l in labs if not (l and l[0] in ("unreachable",))][0]
            raise
        if isinstance(v, bool):
            v = 1 if v else 0
        tree = tree[2].get(v, tree[3])
    return tree[1]


def tree_conditions(tree, out=None):
    out = [] if out is None else out
    if tree[0] == "switch":
        out.append(tree[1])
        for s in tree[2].values():
            tree_conditions(s, out)
        tree_conditions(tree[3], out)
    return out


def label_variant(label):
    """'Some' / 'None' / 'Ok' / 'Err' / variant name of an aggregate label, or None"""
    if label is None:
        return None
    if label[0] == "agg" and label[1][0] == "adt":
        return label[1][2]
    if label[0] == "const":
        return label[1]
    return None


def map_tree(tree, f):
    """apply f to every condition expression of a decision tree"""
    if tree[0] == "switch":
        return ("switch", f(tree[1]), {v: map_tree(t, f) for v, t in tree[2].items()}, map_tree(tree[3], f), tree[4])
    return tree


def eval_decision_set(tree, env, checked=True):
    """set of leaf labels reachable for the bindings; conditions that cannot be evaluated are explored both ways"""
    if tree[0] != "switch":
        return {tree[1]}
    try:
        v = evaluate(tree[1], env, checked)
    except Unknown:
        out = set()
        for sub in list(tree[2].values()) + [tree[3]]:
            out |= eval_decision_set(sub, env, checked)
        return out
    if isinstance(v, bool):
        v = 1 if v else 0
    return eval_decision_set(tree[2].get(v, tree[3]), env, checked)


def subst_locals(e, lets):
    """replace ('local', l, name) nodes by the expression last bound to l on this path"""
    if not lets or not isinstance(e, tuple) or not e:
        return e
    if e[0] == "local" and e[1] in lets:
        return lets[e[1]]
    out = []
    for x in e:
        if isinstance(x, tuple) and x and isinstance(x[0], str):
            out.append(subst_locals(x, lets))
        elif isinstance(x, tuple):
            out.append(tuple(subst_locals(y, lets) if isinstance(y, tuple) else y for y in x))
        else:
            out.append(x)
    return tuple(out)
