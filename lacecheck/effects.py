"""EFF — write effects through `&mut` parameters, closed over the call graph.

For a function g and a reference-typed parameter i the summary says which first-level fields
of the pointee g may write (a set of field names, '*' = the whole value or unknown part),
and whether g's return value is a mutable reference into the pointee (and where).
Flow-insensitive alias tracking inside a body; least fixpoint over the call graph.
"""
from .facts import callee_of, op_place, place_is_local

# external functions that take `&mut T` but are known not to modify what lace passes them in a
# way that matters for the rules (none needed so far; kept explicit on purpose)
PURE_EXTERNALS = set()


def _fields_after_deref(pr):
    """field names of a projection list, starting after the first deref"""
    out = []
    seen = False
    for e in pr:
        if e == "*":
            seen = True
            continue
        if seen and isinstance(e, dict) and "f" in e:
            out.append(e.get("n", str(e["f"])))
    return out


def _has_deref(pr):
    return any(e == "*" for e in pr)


class Effects:
    def __init__(self, prog):
        self.prog = prog
        self.sum = {}   # fn name -> {param: {"w": set(paths), "ret": set(paths) or None}}
        self._ind = {}
        self._solve()

    # a "path" is a tuple of field names below the parameter's pointee; () = whole
    def _analyse(self, fn):
        n_args = fn.arg_count
        # alias[local] = set of (param, path, mutable)
        alias = {}
        for p in range(1, n_args + 1):
            ty = fn.local_ty(p)
            if ty.startswith("&") or ty.startswith("*"):
                alias.setdefault(p, set()).add((p, (), ty.startswith("&mut") or ty.startswith("*mut")))
        writes = {p: set() for p in range(1, n_args + 1)}
        ret = {p: set() for p in range(1, n_args + 1)}
        changed = True
        rounds = 0

        def add(l, item):
            s = alias.setdefault(l, set())
            if item not in s:
                s.add(item)
                return True
            return False

        while changed and rounds < 20:
            changed = False
            rounds += 1
            for b in range(len(fn.blocks)):
                if fn.is_cleanup(b):
                    continue
                for s in fn.blocks[b]["stmts"]:
                    if s["k"] != "assign":
                        continue
                    dst, r = s["p"], s["r"]
                    # alias propagation
                    if place_is_local(dst):
                        d = dst["l"]
                        if r["k"] in ("ref", "rawptr"):
                            src = r["p"]
                            mut = (r.get("bk") == "mut") or ("Mut" in str(r.get("bk")))
                            for (p, path, m) in list(alias.get(src["l"], ())):
                                if _has_deref(src.get("pr", [])):
                                    np = path + tuple(_fields_after_deref(src.get("pr", [])))
                                    if add(d, (p, np, mut and m)):
                                        changed = True
                        elif r["k"] in ("use", "cast"):
                            pl = op_place(r["a"])
                            if pl is not None:
                                for it in list(alias.get(pl["l"], ())):
                                    if not pl.get("pr"):
                                        if add(d, it):
                                            changed = True
                                    elif _has_deref(pl["pr"]):
                                        # copying a pointer stored inside the pointee (e.g. Box pointer field)
                                        p, path, m = it
                                        np = path + tuple(_fields_after_deref(pl["pr"]))
                                        if "*" in fn.local_ty(d) or fn.local_ty(d).startswith("&") or "NonNull" in fn.local_ty(d) or "Unique" in fn.local_ty(d) or "Box<" in fn.local_ty(d):
                                            if add(d, (p, np, m)):
                                                changed = True
                                    else:
                                        # field of a local aggregate holding a pointer (e.g. _148.0.pointer)
                                        if add(d, it):
                                            changed = True
                        elif r["k"] == "agg":
                            for o in r["ops"]:
                                pl = op_place(o)
                                if pl is not None and not pl.get("pr"):
                                    for it in list(alias.get(pl["l"], ())):
                                        if add(d, it):
                                            changed = True
                    # writes through an alias
                    if _has_deref(dst.get("pr", [])):
                        for (p, path, m) in list(alias.get(dst["l"], ())):
                            np = path + tuple(_fields_after_deref(dst["pr"]))
                            if np not in writes[p]:
                                writes[p].add(np)
                                changed = True
                t = fn.blocks[b]["term"]
                if t["k"] == "drop":
                    pl = t["p"]
                    if _has_deref(pl.get("pr", [])):
                        for (p, path, m) in list(alias.get(pl["l"], ())):
                            np = path + tuple(_fields_after_deref(pl["pr"]))
                            if np not in writes[p]:
                                writes[p].add(np)
                                changed = True
                if t["k"] != "call":
                    continue
                c = callee_of(t)
                csum = self.sum.get(c) if c else None
                dest = t["dest"]
                for j, a in enumerate(t["args"]):
                    pl = op_place(a)
                    if pl is None or pl.get("pr"):
                        continue
                    for (p, path, m) in list(alias.get(pl["l"], ())):
                        aty = (t.get("arg_tys") or [])[j] if j < len(t.get("arg_tys") or []) else ""
                        if csum is not None:
                            info = csum.get(j + 1)
                            if info:
                                for w in info["w"]:
                                    np = path + w
                                    if np not in writes[p]:
                                        writes[p].add(np)
                                        changed = True
                                if info["ret"] and place_is_local(dest):
                                    for rp in info["ret"]:
                                        if add(dest["l"], (p, path + rp, m)):
                                            changed = True
                        elif c is None and self._indirect(fn):
                            # indirect call through a table of fn items referenced by this body
                            for g in self._indirect(fn):
                                info = self.sum.get(g, {}).get(j + 1)
                                for w in (info["w"] if info else ()):
                                    np = path + w
                                    if np not in writes[p]:
                                        writes[p].add(np)
                                        changed = True
                        elif c is None or c not in self.prog.fns:
                            # external or unresolvable callee
                            dty = fn.local_ty(dest["l"]) if place_is_local(dest) else ""
                            ptrish = (dty.startswith("&") or dty.startswith("*") or "Option<&" in dty
                                      or "NonNull" in dty or "IterMut" in dty or "Iter<" in dty)
                            if place_is_local(dest) and ptrish:
                                # accessor idiom (get_unchecked_mut, deref_mut, iter_mut ...): hands out a
                                # reference into the pointee; a write happens only if someone stores through it
                                if add(dest["l"], (p, path, m)):
                                    changed = True
                            elif (aty.startswith("&mut") or aty.startswith("*mut")) and m and c not in PURE_EXTERNALS:
                                if path not in writes[p]:
                                    writes[p].add(path)
                                    changed = True
                # writes through the call destination when it is a deref place
                if _has_deref(dest.get("pr", [])):
                    for (p, path, m) in list(alias.get(dest["l"], ())):
                        np = path + tuple(_fields_after_deref(dest["pr"]))
                        if np not in writes[p]:
                            writes[p].add(np)
                            changed = True
        # returned aliases
        for (p, path, m) in alias.get(0, ()):
            if m:
                ret[p].add(path)
        out = {}
        for p in range(1, n_args + 1):
            out[p] = {"w": set(writes[p]), "ret": set(ret[p]) or None}
        return out, alias

    def _solve(self):
        names = [n for n, f in self.prog.fns.items() if f.bkind == "fn"]
        for n in names:
            f = self.prog.fns[n]
            self.sum[n] = {p: {"w": set(), "ret": None} for p in range(1, f.arg_count + 1)}
        for _ in range(15):
            changed = False
            for n in names:
                f = self.prog.fns[n]
                s, _ = self._analyse(f)
                if s != self.sum[n]:
                    self.sum[n] = s
                    changed = True
            if not changed:
                break

    def _indirect(self, fn):
        """fn items stored in const tables that `fn` references (targets of its indirect calls)"""
        key = fn.name
        if key in self._ind:
            return self._ind[key]
        out = []
        for b in range(len(fn.blocks)):
            for s in fn.blocks[b]["stmts"]:
                if s["k"] != "assign":
                    continue
                ops = []
                r = s["r"]
                if r["k"] in ("use", "cast", "un"):
                    ops = [r["a"]]
                for o in ops:
                    if o.get("k") == "const" and "uneval" in o and o.get("promoted") is None:
                        cf = self.prog.fns.get(o["uneval"])
                        if cf is not None:
                            for bb in cf.blocks:
                                for st in bb["stmts"]:
                                    if st["k"] == "assign" and st["r"]["k"] == "cast" and "ReifyFnPointer" in st["r"].get("ck", ""):
                                        a = st["r"]["a"]
                                        if a.get("k") == "const" and "fn" in a:
                                            out.append(a.get("resolved") or a["fn"])
        self._ind[key] = out
        return out

    # ---- queries
    def writes(self, name, param):
        """set of first-level field names ('*' for whole/unknown) written through param"""
        info = self.sum.get(name, {}).get(param)
        if not info:
            return set()
        return {(w[0] if w else "*") for w in info["w"]}

    def aliases(self, fn):
        """local -> set of (param, path, mutable) inside fn"""
        return self._analyse(fn)[1]

    def site_writes(self, fn, root_param, blocks=None):
        """write sites through `root_param` inside `fn`, restricted to `blocks`:
        list of (bb, kind, path, span); kind in {'assign','call:<callee>','drop'}; path = tuple of field
        names below the pointee (() = the whole value)"""
        _, alias = self._analyse(fn)
        out = []
        live = fn.live_blocks()
        for b in sorted(live if blocks is None else (set(blocks) & live)):
            for s in fn.blocks[b]["stmts"]:
                if s["k"] != "assign":
                    continue
                dst = s["p"]
                if _has_deref(dst.get("pr", [])):
                    for (p, path, m) in alias.get(dst["l"], ()):
                        if p == root_param:
                            np = path + tuple(_fields_after_deref(dst["pr"]))
                            out.append((b, "assign", np, s.get("sp")))
            t = fn.blocks[b]["term"]
            if t["k"] == "drop" and _has_deref(t["p"].get("pr", [])):
                for (p, path, m) in alias.get(t["p"]["l"], ()):
                    if p == root_param:
                        np = path + tuple(_fields_after_deref(t["p"]["pr"]))
                        out.append((b, "drop", np, t.get("sp")))
            if t["k"] == "call":
                c = callee_of(t)
                csum = self.sum.get(c) if c else None
                for j, a in enumerate(t["args"]):
                    pl = op_place(a)
                    if pl is None or pl.get("pr"):
                        continue
                    for (p, path, m) in alias.get(pl["l"], ()):
                        if p != root_param:
                            continue
                        if csum is not None:
                            info = csum.get(j + 1)
                            for w in (info["w"] if info else ()):
                                np = path + w
                                out.append((b, "call:" + (c or "?"), np, t.get("sp")))
                        elif c is None and self._indirect(fn):
                            for g in self._indirect(fn):
                                info = self.sum.get(g, {}).get(j + 1)
                                for w in (info["w"] if info else ()):
                                    np = path + w
                                    out.append((b, "call:" + g, np, t.get("sp")))
                        else:
                            aty = (t.get("arg_tys") or [""] * (j + 1))[j]
                            dty = fn.local_ty(t["dest"]["l"]) if place_is_local(t["dest"]) else ""
                            ptrish = (dty.startswith("&") or dty.startswith("*") or "Option<&" in dty
                                      or "NonNull" in dty or "IterMut" in dty or "Iter<" in dty)
                            if (aty.startswith("&mut") or aty.startswith("*mut")) and m and not ptrish:
                                out.append((b, "call:" + (c or "<indirect>"), path, t.get("sp")))
                dest = t["dest"]
                if _has_deref(dest.get("pr", [])):
                    for (p, path, m) in alias.get(dest["l"], ()):
                        if p == root_param:
                            np = path + tuple(_fields_after_deref(dest["pr"]))
                            out.append((b, "assign", np, t.get("sp")))
        # de-duplicate
        seen = set()
        res = []
        for x in out:
            if x not in seen:
                seen.add(x)
                res.append(x)
        return res
