"""Interprocedural constant resolution over expression trees.

values(fn, expr) -> finite set of integer constants the expression may take, or None.
Looks through function parameters to the constant arguments of *all* call sites, through
closure environments to the captured places at the creation site, and through enum/struct
payloads to the aggregates that built them. Depth-bounded (default 4 call levels).
"""
from .facts import callee_of, expr_walk
from . import formula

CAP = 256


class Resolver:
    def __init__(self, ctx):
        self.ctx = ctx
        self.prog = ctx.prog
        self.cg = ctx.cg
        self._sites = None

    def call_sites(self, name):
        """[(caller_fn, term)] of direct calls to `name`"""
        if self._sites is None:
            self._sites = {}
            for n, f in self.prog.fns.items():
                if f.bkind != "fn":
                    continue
                for b, t, c in f.calls():
                    if c is not None:
                        self._sites.setdefault(c, []).append((f, t))
        return self._sites.get(name, [])

    def closure_creations(self, name):
        """[(creator_fn, aggregate_expr)] for closure `name`"""
        out = []
        f = self.prog.fns.get(name)
        parent = f.parent if f else None
        cands = [self.prog.fns[parent]] if parent in self.prog.fns else [g for g in self.prog.fns.values() if g.bkind == "fn"]
        for g in cands:
            for b, i, s in g.assigns():
                r = s["r"]
                if r["k"] == "agg" and r.get("ak") == "closure" and r.get("closure") == name:
                    out.append((g, g.rvalue_expr(r, 10)))
        return out

    # ---- structures
    def structs(self, fn, e, depth=4, _vis=None):
        """aggregates (owner_fn, agg_expr) that expression e may denote"""
        if depth < 0:
            return None
        _vis = _vis or frozenset()
        if e[0] == "local":
            if (fn.name, e[1]) in _vis:
                return None
            _vis = _vis | {(fn.name, e[1])}
        return self._structs(fn, e, depth, _vis)

    def _structs(self, fn, e, depth, _vis):
        k = e[0]
        if k == "agg":
            return [(fn, e)]
        if k in ("ref", "deref", "cast"):
            return self.structs(fn, e[3] if k == "cast" else e[1], depth, _vis)
        if k == "downcast":
            ss = self.structs(fn, e[1], depth, _vis)
            if ss is None:
                return None
            return [(o, a) for o, a in ss if a[1][0] == "adt" and a[1][2] == e[2]]
        if k == "arg":
            if fn.defkind == "Closure" and e[1] == 1:
                cr = self.closure_creations(fn.name)
                return cr or None
            out = []
            sites = self.call_sites(fn.name)
            if not sites:
                return None
            for caller, t in sites:
                if e[1] - 1 >= len(t["args"]):
                    return None
                sub = self.structs(caller, caller.expr(t["args"][e[1] - 1], 10), depth - 1, _vis)
                if sub is None:
                    return None
                out += sub
            return out
        if k == "local":
            out = []
            ds = fn.defs().get(e[1], [])
            if not ds:
                return None
            for kind, b, i, node in ds:
                if kind == "stmt":
                    sub = self.structs(fn, fn.rvalue_expr(node["r"], 10), depth, _vis)
                elif kind == "call":
                    return None
                else:
                    return None
                if sub is None:
                    return None
                out += sub
            return out
        if k == "field":
            ss = self.structs(fn, e[1], depth, _vis)
            if ss is None:
                return None
            out = []
            for o, a in ss:
                op = _operand_by_field(self.prog, a, e[2])
                if op is None:
                    return None
                sub = self.structs(o, op, depth, _vis)
                if sub is None:
                    return None
                out += sub
            return out
        return None

    # ---- values
    def values(self, fn, e, depth=4, _vis=None):
        if depth < 0:
            return None
        _vis = _vis or frozenset()
        if e[0] == "local":
            if (fn.name, e[1]) in _vis:
                return None      # loop-carried value: not a finite constant set
            _vis = _vis | {(fn.name, e[1])}
        return self._values(fn, e, depth, _vis)

    def _values(self, fn, e, depth, _vis):
        k = e[0]
        if k == "const" and isinstance(e[1], int):
            return {e[1]}
        if k in ("ref", "deref"):
            return self.values(fn, e[1], depth, _vis)
        if k == "cast":
            v = self.values(fn, e[3], depth, _vis)
            if v is None:
                return None
            return {formula.wrap(x, e[2]) for x in v}
        if k == "arg":
            if fn.defkind == "Closure" and e[1] == 1:
                return None
            sites = self.call_sites(fn.name)
            if not sites:
                return None
            out = set()
            for caller, t in sites:
                if e[1] - 1 >= len(t["args"]):
                    return None
                v = self.values(caller, caller.expr(t["args"][e[1] - 1], 10), depth - 1, _vis)
                if v is None:
                    return None
                out |= v
                if len(out) > CAP:
                    return None
            return out
        if k == "local":
            ds = fn.defs().get(e[1], [])
            if not ds:
                return None
            out = set()
            for kind, b, i, node in ds:
                if kind != "stmt":
                    return None
                v = self.values(fn, fn.rvalue_expr(node["r"], 10), depth, _vis)
                if v is None:
                    return None
                out |= v
            return out
        if k == "field":
            ss = self.structs(fn, e[1], depth, _vis)
            if ss is None:
                return None
            out = set()
            for o, a in ss:
                op = _operand_by_field(self.prog, a, e[2])
                if op is None:
                    return None
                v = self.values(o, op, depth, _vis)
                if v is None:
                    return None
                out |= v
            return out
        if k in ("bin", "checked"):
            a = self.values(fn, e[2], depth, _vis)
            b = self.values(fn, e[3], depth, _vis)
            if a is None or b is None or len(a) * len(b) > CAP:
                return None
            out = set()
            for x in a:
                for y in b:
                    try:
                        out.add(formula.binop(e[1], x, y))
                    except (formula.Unknown, formula.Overflow):
                        return None
            return out
        if k == "discr":
            ss = self.structs(fn, e[1], depth, _vis)
            if ss is None:
                return None
            out = set()
            for o, a in ss:
                if a[1][0] != "adt":
                    return None
                adt = self.prog.adts.get(a[1][1])
                if adt is None:
                    return None
                for v in adt["variants"]:
                    if v["name"] == a[1][2]:
                        out.add(v.get("discr", v["idx"]))
            return out
        return None

    def bindings(self, fn, exprs, depth=4):
        """For the leaves (args / named locals / captured fields) of the given expressions find finite value sets.
        returns dict leaf_expr -> set, or None if some leaf is unbounded."""
        leaves = {}
        for e in exprs:
            for x in _maximal_resolvable(e):
                if x not in leaves:
                    v = self.values(fn, x, depth)
                    if v is None:
                        return None
                    leaves[x] = v
        return leaves


def _maximal_resolvable(e):
    """sub-trees that are 'leaf-like': args, locals, field/downcast chains over them"""
    k = e[0]
    if k in ("arg", "local", "field", "downcast", "discr"):
        yield e
        return
    if k == "const":
        return
    for x in e[1:]:
        if isinstance(x, tuple) and x and isinstance(x[0], str):
            for y in _maximal_resolvable(x):
                yield y
        elif isinstance(x, tuple):
            for z in x:
                if isinstance(z, tuple) and z and isinstance(z[0], str):
                    for y in _maximal_resolvable(z):
                        yield y


def _operand_by_field(prog, agg, field):
    """operand expr of aggregate `agg` for field name / index `field`"""
    desc, ops = agg[1], agg[2]
    if str(field).isdigit():
        i = int(field)
        return ops[i] if i < len(ops) else None
    if desc[0] == "adt":
        adt = prog.adts.get(desc[1])
        if adt:
            for v in adt["variants"]:
                if v["name"] == desc[2]:
                    for i, f in enumerate(v["fields"]):
                        if f["name"] == field and i < len(ops):
                            return ops[i]
    return None
