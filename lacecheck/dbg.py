"""Role queries for the debugger (private anchors are found by what they do, §2.2)."""
from .facts import expr_walk, expr_str, callee_of, short, const_int
from . import kit

COMMAND_ADT = "lace::debugger::command::Command"
STATE_TY = "&mut runtime::RunState"


def dispatcher(ctx):
    """the function that matches on the parsed Command with the machine state in hand"""
    cands = []
    for n, f in ctx.prog.fns.items():
        if f.bkind != "fn":
            continue
        sws = list(kit.discr_switches(f, COMMAND_ADT))
        if sws and any(f.local_ty(i) == STATE_TY for i in range(1, f.arg_count + 1)):
            cands.append((f, sws))
    ctx.need(len(cands) == 1, "exactly one command dispatcher (match on Command with &mut RunState): found %d" % len(cands))
    f, sws = cands[0]
    ctx.analysed_fns.add(f.name)
    sw = max(sws, key=lambda s: len(s[2]))
    b, place, targets, otherwise = sw
    adt = ctx.prog.adt(COMMAND_ADT)
    arms = {}
    for v in adt["variants"]:
        ctx.need(v["idx"] in targets, "Command::%s has an arm in the dispatcher" % v["name"])
        arms[v["name"]] = targets[v["idx"]]
    state_param = [i for i in range(1, f.arg_count + 1) if f.local_ty(i) == STATE_TY][0]
    self_param = [i for i in range(1, f.arg_count + 1) if "debugger::Debugger" in f.local_ty(i)]
    return f, b, arms, state_param, (self_param[0] if self_param else None)


def arm_region(fn, entry):
    return kit.dominated_region(fn, entry)


def pauser(ctx, disp):
    """the function that calls the dispatcher in a loop and returns an Action (today: next_action)"""
    cands = [n for n in ctx.cg.callers(disp.name) if ctx.prog.fns.get(n) and ctx.prog.fns[n].bkind == "fn"]
    ctx.need(len(cands) == 1, "exactly one caller of the dispatcher: %s" % cands)
    f = ctx.prog.fns[cands[0]]
    ctx.analysed_fns.add(f.name)
    return f


def run_loop(ctx, pz):
    cands = [n for n in ctx.cg.callers(pz.name) if ctx.prog.fns.get(n) and ctx.prog.fns[n].bkind == "fn"]
    ctx.need(len(cands) == 1, "exactly one caller of the pausing function: %s" % cands)
    f = ctx.prog.fns[cands[0]]
    ctx.analysed_fns.add(f.name)
    return f


def userspace_guard(ctx):
    """Option<()>-returning method comparing its u16 argument with the origin and 0xFE00"""
    end = None
    for n, f in ctx.prog.fns.items():
        if n.endswith("runtime::USER_MEMORY_END"):
            for b in f.blocks:
                for s in b["stmts"]:
                    if s["k"] == "assign" and s["r"]["k"] == "use" and const_int(s["r"]["a"]) is not None:
                        end = const_int(s["r"]["a"])
    ctx.need(end is not None, "constant USER_MEMORY_END")
    cands = []
    for n, f in ctx.prog.fns.items():
        if f.bkind != "fn" or not n.startswith("lace::debugger::"):
            continue
        if f.d.get("output") != "core::option::Option<()>":
            continue
        ins = f.d.get("inputs", [])
        if len(ins) != 2 or ins[1] != "u16":
            continue
        has_end = False
        for b in f.blocks:
            for s in b["stmts"]:
                if s["k"] == "assign":
                    for key in ("a", "b"):
                        o = s["r"].get(key)
                        if isinstance(o, dict) and (const_int(o) == end or o.get("uneval", "").endswith("USER_MEMORY_END")):
                            has_end = True
                    for o in s["r"].get("ops", []):
                        if const_int(o) == end or o.get("uneval", "").endswith("USER_MEMORY_END"):
                            has_end = True
        cands.append((has_end, f))
    # the signature alone identifies the guard on this code base; the constant only disambiguates
    if len(cands) > 1:
        cands = [c for c in cands if c[0]]
    cands = [c[1] for c in cands]
    ctx.need(len(cands) == 1, "exactly one user-space guard (Option<()> fn(&Debugger, u16) mentioning 0xFE00): %s"
             % [c.name for c in cands])
    ctx.analysed_fns.add(cands[0].name)
    return cands[0], end


def quit_dodges(disp, arms):
    """blocks through which the Quit arm can be left without having raised Action::StopDebugger (empty = it always stops)"""
    region = arm_region(disp, arms["Quit"])
    stop_b = set()
    for b in region:
        for s in disp.stmts(b):
            if s["k"] == "assign" and s["r"]["k"] == "agg" and s["r"].get("adt") == "lace::debugger::Action" and s["r"].get("variant") == "StopDebugger":
                stop_b.add(b)
    sm = disp.succ_map()
    leaving = {b for b in region if any(x not in region for x in sm[b]) or disp.term(b)["k"] == "return"}
    dodge = (disp.reachable(arms["Quit"], avoid=stop_b) & leaving) - stop_b
    return dodge, stop_b


def run_loop_skips(ctx, rl):
    """After the debugger answered Proceed, which branches of the run loop can still skip `execute` for this cycle?
    Returns (proceed_target, execute_block, [(switch_bb, kind, cond_expr, skip_succs, go_succs)]) with kind in
    {'bounds', 'halt', None}: 'bounds' = check_pc_bounds() compared with Equal, 'halt' = the word at the PC classified as HALT
    by SignificantInstr::try_from. Helpers and named temporaries are looked through (the condition is fully expanded)."""
    prog = ctx.prog
    EXEC = "lace::runtime::RunState::execute"
    act = list(kit.discr_switches(rl, "lace::debugger::Action"))
    ctx.need(act, "match on Action in the run loop")
    ab, aplace, atargets, aoth = act[0]
    avidx = {v["name"]: v["idx"] for v in prog.adt("lace::debugger::Action")["variants"]}
    ctx.need(avidx.get("Proceed") in atargets, "Proceed arm in the run loop")
    pt = atargets[avidx["Proceed"]]
    exs = [b for b, t, c in rl.calls() if c == EXEC]
    ctx.need(len(exs) == 1, "one execute site in the run loop")
    heads = {h for h, (body, latches) in kit.loops(rl).items() if exs[0] in body}

    def promoted_variants(e):
        out = []
        for x in expr_walk(e):
            if x[0] == "uneval" and len(x) > 2:
                pf = prog.fns.get("%s::promoted[%s]" % (x[1], x[2]))
                if pf is not None:
                    out += [s_["r"].get("variant") for b_, i_, s_ in pf.assigns() if s_["r"]["k"] == "agg" and s_["r"].get("variant")]
            if x[0] == "agg" and x[1][0] == "adt":
                out.append(x[1][2])
        return out
    res = []
    sm = rl.succ_map()
    for bb in sorted(kit.dominated_region(rl, pt)):
        t = rl.term(bb)
        if t["k"] != "switch":
            continue
        reach = {x: exs[0] in rl.reachable(x, avoid=heads) for x in sm[bb]}
        if all(reach.values()) or not any(reach.values()):
            continue
        e = rl.expr(t["a"], 12)
        calls_ = [str(x[1]) for x in expr_walk(e) if x[0] == "call"]
        pv = promoted_variants(e)
        txt = expr_str(e, 3000)
        kind = None
        if any(c == "lace::runtime::RunState::check_pc_bounds" for c in calls_) and "Equal" in pv and \
                not any("SignificantInstr" in c for c in calls_):
            kind = "bounds"
        elif any("SignificantInstr" in c and c.endswith("try_from") for c in calls_) and "Halt" in pv and "pc" in txt and "mem" in txt \
                and not any(c == "lace::runtime::RunState::check_pc_bounds" for c in calls_):
            kind = "halt"
        res.append((bb, kind, e, [x for x, r in reach.items() if not r], [x for x, r in reach.items() if r]))
    return pt, exs[0], res


def reads_live_word(fn, e, state_arg):
    """does expression e decode the word at the *live* machine's PC: RunState::mem(state, RunState::pc(state)) with `state` the
    function's own RunState parameter (not, say, a saved copy held in a field of self)?"""
    def root_is_state(x):
        while isinstance(x, tuple) and x and x[0] in ("ref", "deref", "cast"):
            x = x[1] if x[0] in ("ref", "deref") else x[3]
        return x[0] == "arg" and x[1] == state_arg
    for x in expr_walk(e):
        if x[0] == "call" and str(x[1]).endswith("RunState::mem") and len(x[2]) == 2 and root_is_state(x[2][0]):
            for y in expr_walk(x[2][1]):
                if y[0] == "call" and str(y[1]).endswith("RunState::pc") and len(y[2]) == 1 and root_is_state(y[2][0]):
                    return True
    return False

