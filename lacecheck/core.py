"""Check context: rule bookkeeping, violations, known findings, evidence."""
import json
import os
import time

from . import extract
from .facts import Program, short, sp_file_line
from .callgraph import CallGraph

VERIF = extract.VERIF
KNOWN = os.path.join(VERIF, "known_findings.json")


class AnchorLost(Exception):
    pass


class Rule:
    def __init__(self, rid, title, floor=0):
        self.id = rid
        self.title = title
        self.floor = floor
        self.instances = 0
        self.obligations = 0
        self.discharged = 0
        self.assumed = 0
        self.violations = []
        self.known = []
        self.samples = []
        self.notes = []

    def as_json(self):
        return {
            "rule": self.id, "title": self.title, "instances_found": self.instances, "floor": self.floor,
            "obligations": self.obligations, "discharged": self.discharged, "assumed": self.assumed,
            "violations": len(self.violations), "known_findings": len(self.known),
            "samples": self.samples[:6], "notes": self.notes[:10],
        }


class Ctx:
    def __init__(self, prop, tier, profile="dev", repo=None):
        self.prop = prop
        self.tier = tier
        self.profile = profile
        self.t0 = time.time()
        fdir, th = extract.extract(profile, repo)
        self.tree_hash = th
        self.prog = Program(fdir)
        from . import linear as _linear
        _linear.PROG[0] = self.prog
        for part, cr in (("lib", self.prog.lib), ("bin", self.prog.bin)):
            n = sum(1 for f in cr.fns.values() if f.bkind == "fn")
            if n < extract.FLOORS[part]:
                raise SystemExit("lacecheck: only %d MIR bodies in the %s crate (floor %d) — extraction is incomplete"
                                 % (n, part, extract.FLOORS[part]))
        self._cg = None
        self.rules = []
        self.cur = None
        self.assumptions = []
        self.trusted = [
            "rustc nightly MIR construction and Instance resolution (-Zmir-opt-level=0)",
            "the fact extractor /verif/driver (dumps MIR/HIR/ADT facts, decides nothing)",
            "the spec tables under /verif/spec written from the ISA, README and property statements",
        ]
        if getattr(self.prog, "aliases", None):
            self.trusted.append("rename matcher (lacecheck/alias.py): %s" % ", ".join("%s is the reference tree's %s" % (a, b) for a, b in sorted(self.prog.aliases.items())))
        if getattr(self.prog, "inlined", None):
            self.trusted.append("inliner (lacecheck/inline.py): functions unknown to the reference tree inlined at their call sites: %s"
                                % ", ".join("%s x%d" % (a, n) for a, n in sorted(self.prog.inlined.items())))
        self.known_db = load_known()
        self.analysed_fns = set()

    @property
    def cg(self):
        if self._cg is None:
            self._cg = CallGraph(self.prog)
        return self._cg

    # ---- rule bookkeeping
    def rule(self, rid, title, floor=0):
        r = Rule(rid, title, floor)
        self.rules.append(r)
        self.cur = r
        return r

    def instance(self, n=1, sample=None):
        self.cur.instances += n
        if sample is not None and len(self.cur.samples) < 6:
            self.cur.samples.append(sample)

    def oblig(self, ok, desc=None, tactic=None, assumed=False):
        """record one obligation; ok=True means discharged"""
        self.cur.obligations += 1
        if ok:
            self.cur.discharged += 1
            if assumed:
                self.cur.assumed += 1
            if desc is not None and len(self.cur.samples) < 6:
                self.cur.samples.append({"obligation": desc, "discharged_by": tactic})
        return ok

    def note(self, text):
        self.cur.notes.append(text)

    def assume(self, text):
        if text not in self.assumptions:
            self.assumptions.append(text)

    def need(self, cond, what):
        """fail closed when an anchor is lost"""
        if not cond:
            raise AnchorLost(what)
        return cond

    def fn(self, name):
        f = self.prog.fn(name)
        if f is None:
            raise AnchorLost("function %s not found" % name)
        self.analysed_fns.add(name)
        return f

    def violation(self, key, where, msg, detail=None):
        """key: stable identity without line numbers; where: file:line or fn; msg: human text"""
        rid = self.cur.id
        full_key = "%s|%s" % (rid, key)
        if any(v["key"] == full_key for v in self.cur.violations + self.cur.known):
            return
        rec = {"property": self.prop, "rule": rid, "key": full_key, "where": where, "message": msg}
        if detail:
            rec["detail"] = detail
        kf = self.known_db.get(full_key)
        if kf and kf.get("status") == "open" and self.prop in kf.get("properties", [self.prop]):
            rec["known"] = kf
            self.cur.known.append(rec)
        else:
            self.cur.violations.append(rec)

    def finish_rule(self):
        r = self.cur
        if r.instances < r.floor:
            self.violation("floor", "-", "rule matched %d instance(s), floor is %d — the anchor or the matcher is lost"
                           % (r.instances, r.floor))


def load_known():
    db = {}
    if os.path.exists(KNOWN):
        for e in json.load(open(KNOWN)).get("findings", []):
            db[e["key"]] = e
    return db


def write_evidence(ctx, explanation, extra=None, error=None):
    os.makedirs(os.path.join(VERIF, "evidence"), exist_ok=True)
    nviol = sum(len(r.violations) for r in ctx.rules)
    nknown = sum(len(r.known) for r in ctx.rules)
    obl = sum(r.obligations for r in ctx.rules)
    dis = sum(r.discharged for r in ctx.rules)
    samples = []
    for r in ctx.rules:
        for s in r.samples[:3]:
            samples.append({"rule": r.id, "case": s})
    if not samples:
        samples = [{"rule": r.id, "instances": r.instances} for r in ctx.rules] or [{"note": "no rule ran"}]
    cov = {
        "explanation": explanation,
        "rules": [r.as_json() for r in ctx.rules],
        "rule_instances": sum(r.instances for r in ctx.rules),
        "obligations": obl,
        "discharged": dis,
        "assumed": sum(r.assumed for r in ctx.rules),
        "samples": samples,
        "functions_analysed": sorted(short(x) for x in ctx.analysed_fns)[:400],
        "mir_bodies": {"lib": len(ctx.prog.lib.fns), "bin": len(ctx.prog.bin.fns)},
        "profiles": [ctx.profile] + (extra or {}).get("extra_profiles", []),
        "tree_hash": ctx.tree_hash,
        "trusted_base": ctx.trusted,
        "known_findings": [{"key": k["key"], "where": k["where"], "message": k["message"]}
                           for r in ctx.rules for k in r.known],
        "exhaustive": False,
    }
    if extra:
        for k, v in extra.items():
            if k != "extra_profiles":
                cov[k] = v
    if error:
        cov["error"] = error
    ev = {
        "property_id": ctx.prop,
        "tier": ctx.tier,
        "seed": int(os.environ.get("VERIF_SEED", "0") or 0),
        "level": "other",
        "coverage": cov,
        "assumptions": ctx.assumptions,
        "wall_s": round(time.time() - ctx.t0, 3),
        "violations": nviol,
    }
    p = os.path.join(VERIF, "evidence", "%s.json" % ctx.prop)
    tmp = p + ".tmp.%d" % os.getpid()          # checks may run side by side (campaign workers)
    with open(tmp, "w") as fh:
        json.dump(ev, fh, indent=1)
    os.replace(tmp, p)
    return p


def report(ctx):
    """print findings; return exit code"""
    vdir = os.path.join(VERIF, "evidence", "violations")
    code = 0
    n = 0
    for r in ctx.rules:
        for k in r.known:
            print("KNOWN-FINDING: property=%s %s [%s] %s — %s" % (ctx.prop, k["where"], k["rule"], k["message"],
                                                                 k["known"].get("what", "")))
    for r in ctx.rules:
        for v in r.violations:
            os.makedirs(vdir, exist_ok=True)
            p = os.path.join(vdir, "%s.%d.json" % (ctx.prop, n))
            with open(p, "w") as fh:
                json.dump(v, fh, indent=1)
            print("%s  %s  %s" % (v["where"], v["rule"], v["message"]))
            print("    key: %s" % v["key"])
            print("VIOLATION property=%s replay=%s" % (ctx.prop, p))
            n += 1
            code = 1
    return code
