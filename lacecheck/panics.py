"""PANIC — closed ledger of panic obligations reachable from an entry set.

Every potential panic site in lace's own code reachable from the entries is enumerated from
MIR (Assert terminators, calls to the panic machinery, panicking std APIs, checked-arithmetic
std helpers) and must be discharged by a checked tactic, tried automatically:

  const       operands constant, failure impossible
  interval    interval evaluation of the operand expressions (types, masks, casts, enum
              discriminants, char-range arms, dominating comparisons) excludes the failure
  guarded     `a - b` / index dominated by the successor of a comparison that implies safety
  peeked      next().unwrap() dominated by a peek() matched Some on the same iterator
  value-set   a panicking arm whose enum variants cannot flow to the scrutinee
  ledger      tables/ledger.json: a reviewed entry naming the argument (kept by key, no line numbers)

A site that nothing discharges is reported: for a "never panics" property an unjustified
reachable panic site is the property's counter-obligation.
"""
import json
import os
import re

from .facts import (callee_of, short, sp_file_line, expr_str, expr_walk, op_local, place_is_local, const_int)
from . import kit, formula
from .extract import VERIF

LEDGER = os.path.join(VERIF, "tables", "ledger.json")

PANIC_FNS = ("core::panicking::panic_fmt", "core::panicking::panic", "core::panicking::assert_failed",
             "core::panicking::panic_explicit", "core::panicking::unreachable_display", "std::rt::begin_panic",
             "core::panicking::panic_display", "core::panicking::panic_nounwind", "core::option::expect_failed",
             "core::result::unwrap_failed", "core::panicking::panic_const")
UNWRAPS = re.compile(r"core::(option::Option|result::Result)::<[^>]*>::(unwrap|expect|unwrap_err|expect_err)$")
INDEXING = re.compile(r"(core::ops::index::Index(Mut)?(<[^>]*>)?( for [^>]*)?>::index(_mut)?$|core::str::<impl str>::split_at(_mut)?$|"
                      r"core::slice::<impl \[T\]>::split_at(_mut)?$|alloc::string::String::(insert|remove|insert_str|drain|truncate|split_off)$|"
                      r"alloc::vec::Vec::<T, A>::(insert|remove|swap_remove|drain|split_off)$|core::slice::<impl \[T\]>::(clone_from_slice|copy_from_slice|swap)$)")
REFCELL = re.compile(r"core::cell::RefCell::<T>::(borrow|borrow_mut)$")
CHECKED_STD = re.compile(r"(core::num::<impl [ui]\w+>::(abs|pow|next_power_of_two|isqrt|ilog\w*|div_euclid|rem_euclid)$|"
                         r"core::ops::arith::(Add|Sub|Mul|Neg|Div|Rem)(<.*>)?>::(add|sub|mul|neg|div|rem)$|"
                         r"core::ops::arith::(AddAssign|SubAssign|MulAssign)(<.*>)?>::\w+$)")
RANGEFROM_NEXT = re.compile(r"core::ops::range::RangeFrom<.*Iterator>::next$|<core::ops::range::RangeFrom<A> as core::iter::traits::iterator::Iterator>::next$")
EXITS = ("std::process::exit", "std::process::abort")
LOCALKEY = re.compile(r"std::thread::local::LocalKey::<T>::(with|with_borrow|with_borrow_mut|set|replace|take)$")

TY_RANGE = {"u8": (0, 255), "u16": (0, 65535), "u32": (0, 2**32 - 1), "u64": (0, 2**64 - 1), "usize": (0, 2**64 - 1),
            "i8": (-128, 127), "i16": (-32768, 32767), "i32": (-2**31, 2**31 - 1), "i64": (-2**63, 2**63 - 1),
            "isize": (-2**63, 2**63 - 1), "bool": (0, 1), "char": (0, 0x10FFFF), "u128": (0, 2**128 - 1), "i128": (-2**127, 2**127 - 1)}


class Site:
    def __init__(self, fn, bb, kind, desc, sp, macs=(), operands=(), extra=None):
        self.fn = fn
        self.bb = bb
        self.kind = kind          # 'overflow:Add' 'bounds' 'panic' 'unwrap' 'index' 'refcell' 'checked-std' 'rangefrom' 'exit' ...
        self.desc = desc          # canonical operand shape
        self.sp = sp
        self.macs = tuple(macs)
        self.operands = operands  # expression trees
        self.extra = extra or {}
        self.key = None
        self.tactic = None
        self.why = None

    def where(self):
        return sp_file_line(self.sp)


_NAMED_REF = []


def _named_ref():
    if not _NAMED_REF:
        try:
            _NAMED_REF.append(json.load(open(os.path.join(VERIF, "tables", "named_locals.json"))))
        except Exception:
            _NAMED_REF.append({})
    return _NAMED_REF[0]


def outer_macro(macs):
    """outermost user-visible macro of an expansion backtrace"""
    skip = {"$crate::panic::panic_2021", "$crate::const_format_args", "$crate::format_args", "format_args", "$crate::panic",
            "$crate::assert", "$crate::cfg", "$crate::format_args_nl", "$crate::__export::format_args"}
    for m in reversed(macs or []):
        if m.startswith("Desugaring"):
            continue
        return m
    return None


class Ledger:
    def __init__(self, ctx, entries, stop=(), include_exits=False, name="panic ledger"):
        self.ctx = ctx
        self.prog = ctx.prog
        self.entries = list(entries)
        self.include_exits = include_exits
        self.reach = sorted(n for n in ctx.cg.reachable(self.entries, stop=stop)
                            if n in self.prog.fns and self.prog.fns[n].bkind == "fn")
        self.sites = []
        _PROG[0] = ctx.prog
        self.db = load_ledger()
        for n in self.reach:
            self._enumerate(self.prog.fns[n])
        self._keys()

    # ------------------------------------------------------------------ enumeration
    def _enumerate(self, fn):
        for b in sorted(fn.live_blocks()):
            if fn.is_cleanup(b):
                continue
            t = fn.term(b)
            k = t["k"]
            macs = t.get("mac", [])
            if k == "assert":
                ak = t["ak"]
                if ak in ("Misaligned", "NullPtr"):
                    continue
                ops = tuple(fn.expr(o, 10, stop={"named"}) for o in t["ops"])
                if ak.startswith("Overflow("):
                    op = ak[9:-1]
                    self.sites.append(Site(fn, b, "overflow:" + op, "%s(%s)" % (op, ", ".join(expr_str(o, 70) for o in ops)), t.get("sp"), macs, ops,
                                           {"ty": self._ty_of(fn, t["ops"][0]), "cond": fn.expr(t["cond"], 10), "raw": t["ops"]}))
                elif ak == "BoundsCheck":
                    self.sites.append(Site(fn, b, "bounds", "index %s < len %s" % (expr_str(ops[1], 70), expr_str(ops[0], 50)), t.get("sp"), macs, ops))
                elif ak == "OverflowNeg":
                    self.sites.append(Site(fn, b, "overflow:Neg", "Neg(%s)" % expr_str(ops[0], 70), t.get("sp"), macs, ops, {"ty": self._ty_of(fn, t["ops"][0]), "raw": t["ops"]}))
                else:
                    self.sites.append(Site(fn, b, ak.lower(), "%s(%s)" % (ak, ", ".join(expr_str(o, 60) for o in ops)), t.get("sp"), macs, ops,
                                           {"cond": fn.expr(t["cond"], 10), "expected": t.get("expected")}))
                continue
            if k != "call":
                continue
            c = callee_of(t)
            if c is None:
                continue
            args = tuple(fn.expr(a, 8, stop={"named"}) for a in t["args"])
            if c in PANIC_FNS or c.startswith("core::panicking::"):
                m = outer_macro(macs) or "panic"
                msg = self._panic_msg(fn, t)
                self.sites.append(Site(fn, b, "panic:" + m, "%s!(%s)" % (m, msg[:60]), t.get("sp"), macs, args, {"msg": msg}))
            elif UNWRAPS.search(c):
                meth = c.rsplit("::", 1)[1]
                self.sites.append(Site(fn, b, "unwrap", "%s(%s)" % (meth, expr_str(args[0], 90)), t.get("sp"), macs, args))
            elif INDEXING.search(c):
                nm = c.rsplit("::", 1)[1]
                aty = (t.get("arg_tys") or [""])[0]
                self.sites.append(Site(fn, b, "index", "%s on %s with %s" % (nm, _short_ty(aty), ", ".join(expr_str(a, 60) for a in args[1:])), t.get("sp"), macs, args,
                                       {"callee": c, "arg_tys": t.get("arg_tys")}))
            elif REFCELL.search(c):
                self.sites.append(Site(fn, b, "refcell", "%s(%s)" % (c.rsplit("::", 1)[1], expr_str(args[0], 60)), t.get("sp"), macs, args))
            elif CHECKED_STD.search(c):
                nm = c.rsplit("::", 1)[1]
                self.sites.append(Site(fn, b, "checked-std:" + nm, "%s(%s)" % (nm, ", ".join(expr_str(a, 60) for a in args)), t.get("sp"), macs, args, {"callee": c, "raw": t["args"]}))
            elif RANGEFROM_NEXT.search(c) or ("RangeFrom" in (t.get("arg_tys") or [""])[0] and c.endswith("::next")):
                self.sites.append(Site(fn, b, "rangefrom", "next() on %s" % _short_ty((t.get("arg_tys") or [""])[0]), t.get("sp"), macs, args))
            elif c in EXITS and self.include_exits:
                self.sites.append(Site(fn, b, "exit", "exit(%s)" % ", ".join(expr_str(a, 20) for a in args), t.get("sp"), macs, args))
            elif LOCALKEY.search(c):
                pass  # access after destruction only; RefCell borrows inside are listed on their own
            elif c in self._tls_borrowers():
                # a local wrapper around LocalKey::with_borrow(_mut) (`with_symbol_table(|sym| ..)`): the RefCell is borrowed for as long
                # as the closure runs, so the closure must not get back to the same wrapper
                self.sites.append(Site(fn, b, "tls-borrow", "%s(closure)" % short(c).rsplit("::", 1)[-1], t.get("sp"), macs, args,
                                       {"callee": c, "closures": [x[3:] if x.startswith("fn:") else x for x in t["f"].get("closures", [])]}))

    def _tls_borrowers(self):
        if not hasattr(self, "_tlsb"):
            self._tlsb = set()
            for n, f in self.prog.fns.items():
                if f.bkind == "fn" and (n.startswith("lace::") or n.startswith("bin::")) and "{closure" not in n:
                    if any(c and re.search(r"LocalKey::<.*>::with_borrow(_mut)?$", c) for b, t, c in f.calls()):
                        self._tlsb.add(n)
                    elif self._explicit_tls_borrow(f):
                        self._tlsb.add(n)
        return self._tlsb

    def _explicit_tls_borrow(self, f):
        """`KEY.with(|cell| { let mut t = cell.borrow_mut(); callback(&mut t) })`: with_borrow_mut written out. Returns the closures that borrow
        the cell they are handed."""
        out = []
        for b, t, c in f.calls():
            if not (c and re.search(r"LocalKey::<.*>::with$", c)):
                continue
            for cl in t["f"].get("closures", []):
                g = self.prog.fns.get(cl)
                if g is None:
                    continue
                # only a wrapper that runs a callback while the borrow is held can be re-entered (`*cell.borrow()` alone cannot)
                if not any((c2 and re.search(r"ops::function::Fn(Mut|Once)?(<.*>)?>?::call(_mut|_once)?$", c2)) or c2 is None for b2, t2, c2 in g.calls()):
                    continue
                for b2, t2, c2 in g.calls():
                    if c2 and REFCELL.search(c2) and t2.get("args"):
                        x = g.expr(t2["args"][0], 6)
                        while x[0] in ("ref", "deref"):
                            x = x[1]
                        if x[0] == "arg" and x[1] == 2:
                            out.append(cl)
        return out

    def t_tls(self, site):
        if site.kind == "refcell" and "::{closure" in site.fn.name:
            parent = self.prog.fns.get(site.fn.name.rsplit("::{closure", 1)[0])
            if parent is not None and parent.name in self._tls_borrowers() and site.fn.name in self._explicit_tls_borrow(parent):
                x = site.operands[0] if site.operands else ("unknown",)
                while x[0] in ("ref", "deref"):
                    x = x[1]
                if x[0] == "arg" and x[1] == 2:
                    return ("the thread-local's own borrow inside its accessor `%s`: whether it can be taken twice is decided at every call of the accessor "
                            "(tls-borrow sites)" % short(parent.name))
        if site.kind != "tls-borrow":
            return None
        w = site.extra["callee"]
        cls = site.extra.get("closures") or []
        if not cls:
            return None
        for cl in cls:
            if cl not in self.prog.fns:
                continue
            r = self.ctx.cg.reachable([cl])
            again = sorted(x for x in self._tls_borrowers() if x in r and self._same_key(w, x))
            if again:
                site.why = "the closure can reach `%s` again (%s)" % (short(again[0]), " -> ".join(short(x) for x in (self.ctx.cg.path(cl, lambda y, _a=again[0]: y == _a) or [cl, again[0]])))
                return None
        return "not re-entrant: nothing the closure calls borrows the same thread-local again"

    def t_infallible(self, site):
        """unwrap/expect of the result of a function of the program that stores `Ok(..)` / `Some(..)` in its return place on every path (and
        nothing else): `LineTracker::write_str(..).expect("should never fail")`"""
        if site.kind != "unwrap" or not site.operands:
            return None
        x = site.operands[0]
        while x[0] in ("ref", "deref"):
            x = x[1]
        if x[0] != "call" or str(x[1]) not in self.prog.fns:
            return None
        g = self.prog.fns[str(x[1])]
        if g.bkind != "fn":
            return None
        rets = [s_ for b, i, s_ in g.assigns() if s_["p"]["l"] == 0 and not s_["p"].get("pr")]
        if not rets or any(tt.get("dest", {}).get("l") == 0 and not tt.get("dest", {}).get("pr") for b, tt, c in g.calls()):
            return None                       # the answer is handed through from a callee: not decided here
        if all(s_["r"]["k"] == "agg" and s_["r"].get("variant") in ("Ok", "Some") for s_ in rets):
            return "infallible: `%s` stores %s in its return place on every path" % (short(g.name), rets[0]["r"].get("variant"))
        return None

    def _same_key(self, a, b):
        """do two wrappers borrow the same thread-local? (compared by the statics their bodies mention)"""
        def keys(n):
            f = self.prog.fns[n]
            return {str(x[1]) for bb in f.live_blocks() for a_ in (f.term(bb).get("args") or []) for x in expr_walk(f.expr(a_, 4)) if x[0] in ("uneval", "static", "fn")}
        ka, kb = keys(a), keys(b)
        return not ka or not kb or bool(ka & kb)

    def _ty_of(self, fn, op):
        if op.get("k") == "const":
            return op.get("ty")
        p = op.get("p")
        if p and not p.get("pr"):
            return fn.local_ty(p["l"])
        if p:
            for e in reversed(p["pr"]):
                if isinstance(e, dict) and "ty" in e:
                    return e["ty"]
            # deref of a reference local
            ty = fn.local_ty(p["l"])
            return ty.replace("&mut ", "").replace("&", "")
        return None

    def _panic_msg(self, fn, t):
        txt = []
        for a in t["args"]:
            l = op_local(a)
            if l is not None:
                sd = fn.single_def(l)
                if sd and sd[0] == "call":
                    for x in sd[3]["args"]:
                        if x.get("k") == "const" and "str" in x:
                            txt.append(x["str"])
                        elif x.get("k") == "const" and "bytes" in x:
                            txt.append(bytes(x["bytes"]).decode("utf-8", "replace"))
            if a.get("k") == "const" and "str" in a:
                txt.append(a["str"])
        return " ".join(txt)

    def _keys(self):
        seen = {}
        for s in self.sites:
            base = "%s|%s|%s" % (short(s.fn.name), s.kind, s.desc)
            n = seen.get(base, 0) + 1
            seen[base] = n
            s.key = base if n == 1 else "%s#%d" % (base, n)

    # ------------------------------------------------------------------ discharge
    def discharge(self, site):
        for tac in (self.t_const, self.t_tls, self.t_infeasible, self.t_interval, self.t_guarded, self.t_peeked, self.t_constargs, self.t_infallible):
            why = tac(site)
            if why:
                site.tactic, site.why = tac.__name__[2:], why
                return True
        e = self.db.get(site.key) or self._renamed_entry(site) or self._moved_entry(site) or self._callee_entry(site)
        if e:
            ok, why = self.verify_entry(site, e)
            if ok:
                site.tactic = "ledger:" + e.get("tactic", "reviewed")
                site.why = (e.get("reason", "") + (" [" + why + "]" if why else "")).strip()
                return True
            site.why = "ledger entry `%s` no longer verifies: %s" % (e.get("tactic"), why)
        return False

    def db_variants(self, site):
        e = self.db.get(site.key) or {}
        return e.get("variants", [])

    def _callee_entry(self, site):
        """an arithmetic site on the fields of an aggregate parameter (`value.end - value.start` in `From<Range<usize>> for Span`): the
        obligation is the caller's. Every caller in reach builds the aggregate in place, and for each the obligation written in its own
        values (`end - offs`) is a reviewed / assumed entry of that caller which no current site of the caller claims (the arithmetic moved
        here). The one entry all callers agree on is returned."""
        if not site.kind.startswith("overflow:") or not site.operands:
            return None
        fn = site.fn
        def param_field(e_):
            if e_[0] == "field" and isinstance(e_[1], tuple) and e_[1][0] == "arg" and not str(e_[2]).isdigit():
                return e_[1][1], e_[2]
            return None
        pf = [param_field(o) for o in site.operands]
        if not all(x is not None or o[0] == "const" for x, o in zip(pf, site.operands)) or not any(pf):
            return None
        live = {s.key for s in self.sites}
        found = []
        ncallers = 0
        for n in self.reach:
            g = self.prog.fns[n]
            for b, t, c in g.calls():
                if c != fn.name:
                    continue
                ncallers += 1
                ops_ = []
                for x, o in zip(pf, site.operands):
                    if x is None:
                        ops_.append(o)
                        continue
                    idx, fname = x
                    if idx - 1 >= len(t["args"]):
                        return None
                    a = g.expr(t["args"][idx - 1], 8, stop={"named"})
                    while a[0] in ("ref", "deref"):
                        a = a[1]
                    if not (a[0] == "agg" and a[1][0] == "adt"):
                        return None
                    names_ = formula._FIELD_NAMES.get(a[1][1])
                    if names_ is None and a[1][1] in self.prog.adts:
                        names_ = [f_["name"] for f_ in self.prog.adts[a[1][1]]["variants"][0]["fields"]]
                    if not names_ or fname not in names_ or names_.index(fname) >= len(a[2]):
                        return None
                    ops_.append(a[2][names_.index(fname)])
                op = site.kind.split(":")[1]
                key = "%s|%s|%s(%s)" % (short(n), site.kind, op, ", ".join(expr_str(o, 70) for o in ops_))
                e = self.db.get(key)
                if e is None or key in live or e.get("tactic") not in ("reviewed", "assumption"):
                    return None
                found.append(e)
        if not found or ncallers != len(found) or any(e is not found[0] for e in found):
            return None
        return found[0]

    def _moved_entry(self, site):
        """the reviewed entry of a function that no longer exists, for a site of the same kind and the same operand shape: a helper written
        into its only caller takes its sites (and the arguments made for them) along. Only when exactly one such entry fits and no
        current site claims it."""
        if not hasattr(self, "_short_fns"):
            self._short_fns = {short(n) for n in self.prog.fns}
        live = {s.key for s in self.sites}
        tail = "|%s|%s" % (site.kind, site.desc)
        hits = [e for k, e in self.db.items() if k not in live and re.sub(r"#\d+$", "", k).endswith(tail) and k.split("|", 1)[0] not in self._short_fns]
        return hits[0] if len(hits) == 1 else None

    def _renamed_entry(self, site):
        """a ledger entry for the same function and kind whose description equals this site's up to the names of locals
        (a renamed local or parameter must not orphan a reviewed entry); only entries no current site matches exactly"""
        names = set()
        copies = {}
        temps = {}
        for o in site.operands:
            for x in expr_walk(o):
                if x[0] == "field" and isinstance(x[2], str) and not x[2].isdigit():
                    names.add(x[2])          # a renamed private field must not orphan a reviewed entry either
                if x[0] in ("local", "arg") and isinstance(x[2], str):
                    names.add(x[2])
                    if x[0] == "local":
                        # `let start = self.cursor;` - a named local that only holds a copy of a place stands for that place
                        sd = site.fn.single_def(x[1])
                        if sd and sd[0] == "stmt" and sd[3]["r"]["k"] == "use" and sd[3]["r"]["a"].get("k") in ("copy", "move"):
                            copies[x[2]] = expr_str(site.fn.rvalue_expr(sd[3]["r"], 8, stop={"named"}), 60)
                        elif sd and sd[0] == "stmt" and sd[3]["r"]["k"] in ("bin", "cast"):
                            # `let image_end = orig + image.len();` - a named temporary for an arithmetic expression stands for that expression
                            temps[x[2]] = expr_str(site.fn.rvalue_expr(sd[3]["r"], 8, stop={"named"}), 80)
        live = {s.key for s in self.sites}
        prefix = "%s|%s|" % (short(site.fn.name), site.kind)
        # the other direction: the reviewed entry names a local the function no longer has, and the site carries, in its place, what that
        # local stood for on the reference tree (tables/named_locals.json, written by tools/mkanchors.py)
        ref_named = _named_ref().get(short(site.fn.name), {})
        if ref_named:
            have = {site.fn.local_name(l) for l in range(len(site.fn.locals))}
            gone = {k_: v_ for k_, v_ in ref_named.items() if k_ not in have}
            if gone:
                def norm_(d_):
                    return d_.replace("\u2026", "").replace(" ", "")
                mine_ = norm_(site.desc)
                hits_ = []
                for k, e in self.db.items():
                    if not k.startswith(prefix) or k in live:
                        continue
                    theirs_ = re.sub(r"#\d+$", "", k[len(prefix):])
                    unf_ = re.sub(r"[A-Za-z_][A-Za-z_0-9]*", lambda m_: gone.get(m_.group(0), m_.group(0)), theirs_)
                    if unf_ != theirs_:
                        u_ = norm_(unf_)
                        if u_ == mine_ or (len(min(u_, mine_, key=len)) >= 30 and (u_.startswith(mine_) or mine_.startswith(u_))):
                            hits_.append(e)
                if len(hits_) == 1:
                    return hits_[0]
        if not names:
            return None
        if copies:
            unfolded = re.sub(r"[A-Za-z_][A-Za-z_0-9]*", lambda m_: copies.get(m_.group(0), m_.group(0)), site.desc)
            k = prefix + unfolded
            if unfolded != site.desc and k in self.db and k not in live:
                return self.db[k]
        tok = re.compile(r"[A-Za-z_][A-Za-z_0-9]*|\S")
        desc = site.desc.replace("copy_from_slice on", "clone_from_slice on")      # the same length requirement
        comp = {k_: v_ for k_, v_ in copies.items() if not re.fullmatch(r"[A-Za-z_][A-Za-z_0-9]*", v_)}      # copies of computed temporaries (`x = move _t.0`)
        both = dict(temps)
        both.update(comp)
        hits = []
        for unf in ({}, comp, temps, both):
            d_ = desc
            nm_ = set(names)
            if unf:
                d_ = re.sub(r"[A-Za-z_][A-Za-z_0-9]*", lambda m_: unf.get(m_.group(0), m_.group(0)), desc)
                nm_ |= {m_ for v_ in unf.values() for m_ in re.findall(r"[A-Za-z_][A-Za-z_0-9]*", v_)}
            mine = tok.findall(d_)
            hits = []
            for k, e in self.db.items():
                if not k.startswith(prefix) or k in live:
                    continue
                theirs = tok.findall(re.sub(r"#\d+$", "", k[len(prefix):]))
                if len(theirs) != len(mine):
                    continue
                if all(a == b or (a in nm_ and re.match(r"[A-Za-z_]", b)) for a, b in zip(mine, theirs)):
                    hits.append(e)
            if len(hits) == 1:
                return hits[0]
        # the reviewed entry spelled the range of a span out (`src[span.offs()..span.offs() + span.len()]`) and the site now takes it from the
        # span's own accessor (`src[span.as_range()]`, whose body is that very range): the same slice of the same span
        if not hits and len(site.operands) >= 2:
            x = site.operands[-1]
            while x[0] in ("ref", "deref"):
                x = x[1]
            if x[0] == "call" and re.search(r"Span::as_range$", str(x[1])) and len(x[2]) == 1:
                g = self.prog.fns.get(str(x[1]))
                # the accessor's own body with the receiver written in: `span.as_range()` is `span.offs()..span.end()`, the very text of the
                # reviewed entry
                if g is not None and g.arg_count == 1 and not kit.loops(g):
                    recv = x[2][0]
                    while recv[0] in ("ref", "deref"):
                        recv = recv[1]
                    def put(e_):
                        if not isinstance(e_, tuple) or not e_:
                            return e_
                        if e_[0] == "deref" and isinstance(e_[1], tuple) and e_[1][:2] == ("arg", 1):
                            return recv
                        return tuple(put(y_) if isinstance(y_, tuple) and y_ and isinstance(y_[0], str) else
                                     (tuple(put(z_) if isinstance(z_, tuple) else z_ for z_ in y_) if isinstance(y_, tuple) else y_) for y_ in e_)
                    unf = put(g.local_expr(0, 10))
                    d_ = "%s with %s" % (site.desc.split(" with ", 1)[0], expr_str(unf, 60))
                    nrm = lambda t_: t_.replace("\u2026", "").replace(" ", "")
                    for k, e in self.db.items():
                        if k.startswith(prefix) and k not in live:
                            tail_ = nrm(re.sub(r"#\d+$", "", k[len(prefix):]))
                            if tail_ == nrm(d_) or (min(len(tail_), len(nrm(d_))) > 40 and (tail_.startswith(nrm(d_)) or nrm(d_).startswith(tail_))):
                                return e
                body = expr_str(g.local_expr(0, 10), 300) if g is not None else ""
                if "Range" in body and "offs(" in body and ("end(" in body or "len(" in body):
                    sp_ = expr_str(x[2][0], 120)
                    head = "%s on &str with adt:core::ops::range::Range:Range{offs(%s), (offs(" % (site.desc.split(" ", 1)[0], sp_)
                    for k, e in self.db.items():
                        tail_ = re.sub(r"#\d+$", "", k[len(prefix):]).rstrip("\u2026")
                        if k.startswith(prefix) and k not in live and len(tail_) > 40 and (head.startswith(tail_) or tail_.startswith(head)):
                            return e
        # the reviewed entry named its operand only by a local's name (`index on &str with range`): it never spoke about how that value is
        # computed, so it still applies when the function's one site of this kind now spells the value out (`.. with as_range(&stmt.span)`)
        if not hits:
            orphans = [(k, e) for k, e in self.db.items() if k.startswith(prefix) and k not in live]
            mine_here = [s_ for s_ in self.sites if s_.fn is site.fn and s_.kind == site.kind and s_.key not in self.db]
            if len(orphans) == 1 and len(mine_here) == 1:
                tail = re.sub(r"#\d+$", "", orphans[0][0][len(prefix):])
                opaque = re.sub(r"^(index|index_mut|get|get_mut) on \S+ with ", "", tail)
                # ... but only when the spelled-out value is the plain conversion of a span into a range (the only thing such a local
                # ever held): anything computed differently is a new site and needs its own argument
                conv = False
                if len(site.operands) >= 2:
                    x = site.operands[-1]
                    while x[0] in ("ref", "deref"):
                        x = x[1]
                    if x[0] == "call" and re.search(r"(Span::as_range|convert::Into<.*Range<usize>>>::into|convert::From<.*Span>>::from)$", str(x[1])) and len(x[2]) == 1 \
                            and "span" in expr_str(x[2][0], 120):
                        conv = True
                if conv and re.fullmatch(r"[A-Za-z_][A-Za-z_0-9]*", opaque):
                    return orphans[0][1]
        return None

    # ---- ledger tactics that are re-verified on every run
    def verify_entry(self, site, e):
        if e.get("variants"):
            # the reason speaks about a value of a particular variant (`a Lit(Str) token`): the site must sit on the edge that
            # a dominating match on that enum takes for that variant
            cons = self._dom_constraints(site.fn, site.bb, stable=False)
            for adt, var in e["variants"]:
                want = [v.get("discr", v["idx"]) for v in self.prog.adts.get(adt, {}).get("variants", []) if v["name"] == var]
                if not want or not any(c[0] == "discr" and c[2] == adt and v == want[0] for c, v in cons):
                    return False, "the site is not dominated by a match arm for %s::%s" % (short(adt), var)
            e = {k: v for k, v in e.items() if k != "variants"}
            ok, why = self.verify_entry(site, e)
            return ok, (why + "; " if why else "") + "inside the arm(s) " + ", ".join("%s::%s" % (short(a), v) for a, v in [tuple(x) for x in self.db_variants(site)]) if ok else why
        tac = e.get("tactic", "reviewed")
        if tac in ("reviewed", "assumption"):
            return True, ""
        if tac == "dominated-by-call":
            return self.v_dominated(site, e)
        if tac == "callers-dominated":
            return self.v_callers_dominated(site, e)
        if tac == "field-writers":
            return self.v_field_writers(site, e)
        if tac == "variant-built-only-in":
            return self.v_variant_built(site, e)
        if tac == "guarded-mul":
            return self.v_guarded_mul(site, e)
        if tac == "nonempty-const-arg":
            return self.v_nonempty_const_arg(site, e)
        if tac == "not-in-loop":
            return self.v_not_in_loop(site, e)
        if tac == "conditional":
            # discharged by another rule of another property (named in `on`); nothing to verify locally
            return True, "conditional on %s" % e.get("on")
        return False, "unknown tactic %s" % tac

    def _dominating_ok_call(self, fn, bb, callee_rx, outcome):
        rx = re.compile(callee_rx)
        for b, t, c in fn.calls():
            if c and rx.search(c) and b != bb:
                if outcome in (None, "any"):
                    if fn.dominates(b, bb):
                        return b
                elif outcome in ("true", "false"):
                    nb = t.get("t")
                    if nb is None:
                        continue
                    tt = fn.term(nb)
                    # allow one negation in between (`if !x()`)
                    if tt["k"] == "switch" and op_local(tt["a"]) is not None:
                        ce = fn.expr(tt["a"], 3)
                        neg = ce[0] == "un" and ce[1] == "Not"
                        base = ce[2] if neg else ce
                        if base[0] == "call" and base[1] == c:
                            tg = {v: x for v, x in tt["targets"]}
                            t_true = tt["otherwise"] if 0 in tg else tg.get(1)
                            t_false = tg.get(0, tt["otherwise"])
                            if neg:
                                t_true, t_false = t_false, t_true
                            tgt = t_true if outcome == "true" else t_false
                            if tgt is not None and (tgt == bb or fn.dominates(tgt, bb)):
                                return b
                else:
                    tgt = kit.ok_target_of_call(fn, b)
                    if tgt is not None and (tgt == bb or fn.dominates(tgt, bb)):
                        return b
        return None

    def v_dominated(self, site, e):
        b = self._dominating_ok_call(site.fn, site.bb, e["callee"], e.get("outcome", "any"))
        if b is None:
            return False, "no call matching /%s/ with outcome %s dominates the site" % (e["callee"], e.get("outcome", "any"))
        return True, "dominated by %s at %s" % (short(callee_of(site.fn.term(b))), sp_file_line(site.fn.term(b).get("sp")))

    def v_callers_dominated(self, site, e):
        """every call chain from function `root` down to the site's function passes a call site (in root or below) that is
        dominated by a call matching `callee` with the given outcome"""
        root = e["root"]
        roots = [n for n in self.prog.fns if re.search(root, n) and self.prog.fns[n].bkind == "fn"]
        if len(roots) != 1:
            return False, "root /%s/ matches %d functions" % (root, len(roots))
        target = site.fn.name
        seen = set()

        def covered(fname, depth):
            """all paths from fname to target are covered?"""
            if depth > 6:
                return False
            f = self.prog.fns.get(fname)
            if f is None:
                return True
            ok = True
            for b, t, c in f.calls():
                if c is None or c not in self.prog.fns:
                    continue
                if c != target and target not in self.ctx.cg.reachable([c]):
                    continue
                if self._dominating_ok_call(f, b, e["callee"], e.get("outcome", "any")) is not None:
                    continue
                if c == target:
                    return False
                key = (c, depth)
                if key in seen:
                    continue
                seen.add(key)
                if not covered(c, depth + 1):
                    ok = False
            return ok
        # callers of target that are not reachable from root are outside this entry's concern only if they are not in scope
        if not covered(roots[0], 0):
            return False, "a call chain from %s reaches %s without passing /%s/ (%s)" % (short(roots[0]), short(target), e["callee"], e.get("outcome", "any"))
        others = [c for c in self.ctx.cg.callers(target) if c in self.reach and roots[0] not in (c,) and roots[0] not in self._ancestors(c)]
        if others:
            return False, "%s is also called from %s, outside %s" % (short(target), [short(o) for o in others], short(roots[0]))
        return True, "all chains from %s pass /%s/" % (short(roots[0]), e["callee"])

    def _ancestors(self, name):
        out = set()
        work = [name]
        while work:
            n = work.pop()
            for c in self.ctx.cg.callers(n):
                if c not in out:
                    out.add(c)
                    work.append(c)
        return out

    def v_variant_built(self, site, e):
        """enum variant `adt::variant` is only constructed in `builders`, and those are only called from `callers`"""
        adt, variant = e["adt"], e["variant"]
        builders = set()
        for n, f in self.prog.fns.items():
            if f.bkind != "fn" or f.d.get("auto_derived"):
                continue
            for b, i, s in f.assigns():
                if s["r"]["k"] == "agg" and s["r"].get("adt") == adt and s["r"].get("variant") == variant:
                    builders.add(n)
        extra = sorted(short(b) for b in builders if short(b) not in e["builders"])
        if extra:
            return False, "%s::%s is also built in %s" % (short(adt), variant, extra)
        for b in builders:
            cs = {short(c) for c in self.ctx.cg.callers(b)}
            if not cs <= set(e["callers"]):
                return False, "%s is also called from %s" % (short(b), sorted(cs - set(e["callers"])))
        return True, "built only in %s, called only from %s" % (sorted(short(b) for b in builders), e["callers"])

    def v_guarded_mul(self, site, e):
        """a * b dominated by the false edge of `a > K / b` (K a constant within the type)"""
        if len(site.operands) != 2:
            return False, "not a binary site"
        a, b = site.operands
        ty = (site.extra.get("ty") or "").replace("&", "")
        for c, v in self._dom_constraints(site.fn, site.bb):
            if c[0] == "bin" and c[1] in ("Gt", "Le") and ((c[1] == "Gt" and v == 0) or (c[1] == "Le" and v != 0)):
                lhs, rhs = c[2], c[3]
                if _same(lhs, a) and rhs[0] in ("bin", "checked") and rhs[1] == "Div" and rhs[2][0] == "const" and _same(rhs[3], b):
                    if ty in TY_RANGE and rhs[2][1] <= TY_RANGE[ty][1]:
                        return True, "dominated by !(%s)" % expr_str(c, 80)
        return False, "no dominating `a > K / b` test with these operands"

    def v_nonempty_const_arg(self, site, e):
        """every call site of the site's function passes, as argument `param`, a const item whose initialiser is a non-empty array"""
        from .interp import Resolver
        if not hasattr(self, "_res"):
            self._res = Resolver(self.ctx)
        idx = e["param"]
        sites = self._res.call_sites(site.fn.name)
        if not sites:
            return False, "no call sites"
        names = []
        for caller, t in sites:
            a = t["args"][idx]
            nm = a.get("uneval") if a.get("k") == "const" else None
            if nm is None:
                x = caller.expr(a, 4)
                nm = x[1] if x[0] == "uneval" else None
            init = self.prog.consts_hir.get(nm) if nm else None
            if not (isinstance(init, list) and len(init) >= 1):
                return False, "call site in %s passes %s, not a non-empty const array" % (short(caller.name), nm)
            names.append("%s(len %d)" % (short(nm).split("::")[-1], len(init)))
        return True, "arguments: %s" % names

    def v_not_in_loop(self, site, e):
        """the site's function is never called from inside a loop (so a per-command counter stays small)"""
        target = site.fn.name
        for caller in self.ctx.cg.callers(target):
            f = self.prog.fns.get(caller)
            if f is None or f.bkind != "fn":
                continue
            lps = kit.loops(f)
            for b, t, c in f.calls():
                if c == target and any(b in body for h, (body, l) in lps.items()):
                    return False, "called inside a loop of %s" % short(caller)
        n = sum(1 for caller in self.ctx.cg.callers(target) for b, t, c in self.prog.fns[caller].calls() if c == target) if True else 0
        return True, "%d call sites, none inside a loop" % n

    def v_field_writers(self, site, e):
        adt, field, allowed = e["adt"], e["field"], set(e["writers"])
        writers = set()
        for n, f in self.prog.fns.items():
            if f.bkind != "fn":
                continue
            for b, i, s in f.assigns():
                for pe in s["p"].get("pr", []):
                    if isinstance(pe, dict) and pe.get("adt") == adt and pe.get("n") == field:
                        writers.add(n)
                r = s["r"]
                if r["k"] == "agg" and r.get("adt") == adt:
                    writers.add(n)
                if r["k"] in ("ref", "rawptr") and (r.get("bk") == "mut" or "Mut" in str(r.get("bk"))):
                    for pe in r["p"].get("pr", []):
                        if isinstance(pe, dict) and pe.get("adt") == adt and pe.get("n") == field:
                            writers.add(n)
        writers = {w for w in writers if not self.prog.fns[w].d.get("auto_derived")}   # derived Clone copies the fields as they are
        extra = sorted(short(w) for w in writers if short(w) not in allowed and w not in allowed)
        if extra:
            return False, "field %s.%s is also written by %s" % (short(adt), field, extra)
        return True, "writers of %s.%s: %s" % (short(adt).split("::")[-1], field, sorted(short(w).split("::")[-1] for w in writers))

    def t_constargs(self, site):
        """operands depend only on values that are compile-time constants at every call site (closure captures and enum
        payloads followed): evaluate the checked operation for each combination"""
        raw = site.extra.get("raw")
        if not raw:
            return None
        from .interp import Resolver
        if not hasattr(self, "_res"):
            self._res = Resolver(self.ctx)
        fn = site.fn
        exprs = [fn.expr(o, 14) for o in raw]
        shift = site.kind in ("overflow:Shl", "overflow:Shr") and len(exprs) == 2
        if shift:
            exprs = [("const", 0), exprs[1]]        # only the amount of a shift can overflow; the shifted value is free
        # a comparison inside an operand (`2^(n-1) - i32::from(offset > 0)`) contributes 0 or 1 whatever it compares
        bools = {}
        def abstract_bools(e):
            if not isinstance(e, tuple) or not e or not isinstance(e[0], str):
                return e
            if e[0] == "bin" and e[1] in ("Lt", "Le", "Gt", "Ge", "Eq", "Ne"):
                key = ("boolvar", len(bools)) if e not in bools.values() else [k_ for k_, v_ in bools.items() if v_ == e][0]
                bools[key] = e
                return key
            return tuple(abstract_bools(x) if isinstance(x, tuple) and x and isinstance(x[0], str)
                         else (tuple(abstract_bools(y) if isinstance(y, tuple) else y for y in x) if isinstance(x, tuple) else x) for x in e)
        exprs = [abstract_bools(x) for x in exprs]
        b = self._res.bindings(fn, exprs)
        if b is None:
            return None
        for k_ in bools:
            b[k_] = {0, 1}
        leaves = sorted(b, key=repr)
        import itertools
        total = 1
        for l in leaves:
            total *= max(1, len(b[l]))
        if total > 4096 or total == 0:
            return None
        n = 0
        for combo in itertools.product(*[sorted(b[l]) for l in leaves]):
            m = dict(zip(leaves, combo))
            env = {"subst": lambda e, _m=m: _m.get(e)}
            try:
                vals = [formula.evaluate(x, env) for x in exprs]
            except formula.Unknown:
                return None
            except formula.Overflow:
                return None
            n += 1
            if site.kind.startswith("overflow:"):
                op = site.kind.split(":")[1]
                ty = (site.extra.get("ty") or "").replace("&", "")
                if ty not in TY_RANGE:
                    return None
                if op == "Neg":
                    res = -vals[0]
                elif op in ("Shl", "Shr"):
                    if not (0 <= vals[1] < formula.MASKS.get(ty, 0)):
                        return None
                    continue
                else:
                    try:
                        res = formula.binop(op, vals[0], vals[1])
                    except (formula.Unknown, formula.Overflow):
                        return None
                if not (TY_RANGE[ty][0] <= res <= TY_RANGE[ty][1]):
                    return None
            elif site.kind.startswith("checked-std:"):
                try:
                    formula.builtin_call(site.extra["callee"], vals, True)
                except (formula.Unknown, formula.Overflow):
                    return None
        if n == 0:
            return None
        return "const-args: operands take only call-site constants %s; %d combination(s) evaluated, none fails" % (
            {expr_str(l, 30): sorted(v)[:8] for l, v in b.items()}, n)

    def t_const(self, site):
        if site.kind == "index" and str(site.extra.get("callee", "")).endswith(("copy_from_slice", "clone_from_slice")):
            # both sides are whole arrays of the same constant length (e.g. the two 65,536-word memories): lengths cannot differ
            raw = site.fn.term(site.bb).get("args", [])
            if len(raw) == 2:
                lens = []
                for a in raw:
                    txt = expr_str(site.fn.expr(a, 14), 2000)
                    if re.search(r"Range|index\(|get\(|split|\.\.|take\(|skip\(", txt):
                        lens.append(None)
                        continue
                    m = re.findall(r"\[\w+; (\d+)\]", txt)
                    lens.append(m[-1] if m else None)
                if lens[0] is not None and lens[0] == lens[1]:
                    return "operands constant: both slices are whole arrays of %s elements" % lens[0]
        if site.kind in ("divisionbyzero", "remainderbyzero") and "cond" in site.extra:
            try:
                v = formula.evaluate(site.extra["cond"], {})
                if bool(v) == bool(site.extra.get("expected")):
                    return "operands constant: the divisor is a non-zero constant"
            except (formula.Unknown, formula.Overflow):
                pass
        if site.kind.startswith("overflow:") and "cond" in site.extra:
            try:
                v = formula.evaluate(site.extra["cond"], {})
                if v in (1, True):
                    return "operands constant: the checked condition folds to true"
            except (formula.Unknown, formula.Overflow):
                pass
            # shifts by a constant below the bit width
            if site.kind in ("overflow:Shl", "overflow:Shr") and len(site.operands) == 2 and site.operands[1][0] == "const":
                ty = site.extra.get("ty") or "u16"
                bits = formula.MASKS.get(ty, 16)
                if 0 <= site.operands[1][1] < bits:
                    return "shift amount %d < %d bits" % (site.operands[1][1], bits)
        return None

    def _dom_constraints(self, fn, bb, stable=True):
        """[(cond_expr, taken_value_or_('not',[vals]))] from dominating switches with a unique edge towards bb"""
        out = []
        dom = fn.dominators()
        for d in sorted(dom.get(bb, ())):
            if d == bb:
                continue
            t = fn.term(d)
            if t["k"] == "call" and re.search(r"ops::index::Index(Mut)?<.*::index(_mut)?$", callee_of(t) or "") and len(t.get("args", [])) == 2 \
                    and re.search(r"^&(mut )?(str|alloc::string::String|\[|alloc::vec::Vec)", (t.get("arg_tys") or [""])[0]):
                # a slice `x[a..]` / `x[a..b]` / `x[..b]` that was taken successfully: its bounds are at most len(x) <= isize::MAX
                rng = fn.expr(t["args"][1], 6, stop={"named"})
                while rng[0] in ("ref", "deref"):
                    rng = rng[1]
                if rng[0] == "agg" and rng[1][0] == "adt" and "ops::range::Range" in str(rng[1][1]):
                    for bound in rng[2]:
                        if bound[0] != "const" and self._stable_between(fn, d, bb, bound):
                            out.append((("bin", "Le", bound, ("const", 2**63 - 1)), 1))
                continue
            if t["k"] != "switch":
                continue
            succ = fn.succ_map()[d]
            toward = [s for s in succ if s == bb or fn.dominates(s, bb)]
            if len(toward) != 1:
                continue
            tgt = toward[0]
            vals = [v for v, x in t["targets"] if x == tgt]
            cond = fn.expr(t["a"], 10, stop={"named"})
            if stable and not self._stable_between(fn, d, bb, cond):
                continue
            if tgt == t["otherwise"] and not vals:
                out.append((cond, ("not", [v for v, x in t["targets"]])))
                truth = True if [v for v, x in t["targets"]] == [0] else None
            elif len(vals) == 1 and tgt != t["otherwise"]:
                out.append((cond, vals[0]))
                truth = (vals[0] != 0) if vals[0] in (0, 1) else None
            elif vals:
                out.append((cond, ("in", vals)))
                truth = None
            else:
                truth = None
            # `(a..=b).contains(&x)` / `(a..b).contains(&x)` taken as true is the pair of comparisons it stands for
            if truth is True and cond[0] == "call" and re.search(r"ops::range::Range(Inclusive)?<.*>::contains$|range::Range(Inclusive)?::<.*>::contains$", str(cond[1])) and len(cond[2]) == 2:
                rng, x = cond[2]
                while rng[0] in ("ref", "deref"):
                    rng = rng[1]
                while x[0] in ("ref", "deref"):
                    x = x[1]
                lo = hi = None
                incl = "RangeInclusive" in str(cond[1])
                if rng[0] == "uneval":          # a range of literals lives in a promoted constant
                    rng = kit.resolve_promoteds(self.prog, rng)
                    while rng and rng[0] in ("ref", "deref"):
                        rng = rng[1]
                if rng[0] == "agg" and len(rng[2]) >= 2:
                    lo, hi = rng[2][0], rng[2][1]
                elif rng[0] == "call" and str(rng[1]).endswith("RangeInclusive::<Idx>::new") and len(rng[2]) == 2:
                    lo, hi = rng[2]
                if lo is not None:
                    out.append((("bin", "Ge", x, lo), 1))
                    out.append((("bin", "Le" if incl else "Lt", x, hi), 1))
        return out

    def _index_below_len(self, fn, site):
        """`v[i]` / `v.remove(i)` under the true edge of `i < v.len()`: between the test and the use nothing assigns `i`, and nothing
        borrows `v` (or the object it lives in) mutably or assigns through it"""
        t = fn.term(site.bb)
        args = t.get("args", [])
        if len(args) != 2:
            return None
        ie = kit.strip_refs(fn.expr(args[1], 3, stop={"named"}))
        if ie[0] not in ("local", "arg"):
            return None
        vplace = kit.strip_refs(fn.expr(args[0], 6, stop={"named"}))
        root = vplace
        while root[0] in ("field", "deref", "ref"):
            root = root[1]
        if root[0] not in ("local", "arg"):
            return None
        dom = fn.dominators()
        succ = fn.succ_map()
        for d in sorted(dom.get(site.bb, ())):
            if d == site.bb:
                continue
            sw = fn.term(d)
            if sw["k"] != "switch":
                continue
            cond = fn.expr(sw["a"], 8, stop={"named"})
            if cond[0] != "bin" or cond[1] not in ("Lt", "Gt", "Ge", "Le"):
                continue
            toward = [s for s in succ[d] if s == site.bb or fn.dominates(s, site.bb)]
            if len(toward) != 1:
                continue
            tgt = toward[0]
            allv = [v for v, x in sw["targets"]]
            vals = [v for v, x in sw["targets"] if x == tgt]
            if tgt == sw["otherwise"] and not vals and allv == [0]:
                op = cond[1]
            elif vals == [0] and tgt != sw["otherwise"]:
                op = {"Lt": "Ge", "Le": "Gt", "Gt": "Le", "Ge": "Lt"}[cond[1]]
            else:
                continue
            a, b = cond[2], cond[3]
            if op == "Gt":
                a, b, op = b, a, "Lt"
            if op != "Lt" or not _same(a, ie) or _canon(b) != ("len", vplace):
                continue
            fwd = set()
            for sx in succ[d]:
                if sx != d:
                    fwd |= fn.reachable(sx, avoid={d, site.bb}) | ({sx} if sx == site.bb else set())
            between = (fwd & _reaching(fn, site.bb, avoid={d})) | {site.bb}
            between.discard(d)
            bad = None
            for b_ in sorted(between):
                for s in fn.stmts(b_):
                    if s["k"] != "assign":
                        continue
                    if s["p"]["l"] == ie[1] and place_is_local(s["p"]):
                        bad = "the index is assigned"
                    if b_ != site.bb and s["p"]["l"] == root[1] and s["p"].get("pr"):
                        bad = "the collection's owner is written"
                    if b_ != site.bb and s["r"]["k"] in ("ref", "rawptr") and str(s["r"].get("bk", "")).lower().startswith("mut") and s["r"]["p"]["l"] == root[1]:
                        bad = "the collection's owner is borrowed mutably"
                if b_ == site.bb:
                    continue
                tt = fn.term(b_)
                if tt["k"] == "call":
                    dl = tt.get("dest")
                    if isinstance(dl, dict) and dl.get("l") == ie[1] and not dl.get("pr"):
                        bad = "the index is assigned"
                    for a_, ty in zip(tt["args"], tt.get("arg_tys", [])):
                        if ty.startswith("&mut") and op_local(a_) is not None:
                            l_ = op_local(a_)
                            if l_ == root[1]:
                                bad = "the collection's owner is passed on mutably"
                elif tt["k"] not in ("goto", "switch", "assert", "return", "unreachable", "drop"):
                    bad = "an unrecognised terminator lies between"
            if bad is None:
                return "guarded: dominated by `%s` on the edge towards the use; neither the index nor the collection changes in between" % expr_str(cond, 80)
        return None

    def _range_loop_index(self, fn, site):
        """`v[i]` inside `for i in 0..v.len()` (the length of v does not change in the loop), and `v[k]` for a counter k that starts at 0
        in front of that loop and is stepped by one at most once per round, behind the use: k <= i < len"""
        t = fn.term(site.bb)
        args = t.get("args", [])
        if len(args) != 2 or not str(site.extra.get("callee", "")).endswith(("::index", "::index_mut")):
            return None
        ie = kit.strip_refs(fn.expr(args[1], 3, stop={"named"}))
        if ie[0] != "local":
            return None
        vplace = kit.strip_refs(fn.expr(args[0], 6, stop={"named"}))
        root = vplace
        while root[0] in ("field", "deref", "ref"):
            root = root[1]
        if root[0] not in ("local", "arg"):
            return None
        lps = kit.loops(fn)
        inl = [(h, body) for h, (body, l) in lps.items() if site.bb in body]
        if not inl:
            return None
        head, body = min(inl, key=lambda x: len(x[1]))
        th = fn.term(head)
        if not (th["k"] == "call" and re.search(r"range::<impl core::iter::traits::iterator::Iterator for core::ops::range::Range<A>>::next$", callee_of(th) or "")):
            return None
        # the range: 0 .. len(v), built in front of the loop
        it = kit.strip_refs(fn.expr(th["args"][0], 4, stop={"named"}))
        rng = None
        if it[0] == "local":
            sd = fn.single_def(it[1])
            if sd and sd[0] == "stmt":
                rng = fn.rvalue_expr(sd[3]["r"], 8, stop={"named"})
            elif sd and sd[0] == "call":
                rng = ("call", callee_of(sd[3]), tuple(fn.expr(a_, 8, stop={"named"}) for a_ in sd[3]["args"]))
        while rng is not None and rng[0] == "call" and str(rng[1]).endswith("IntoIterator>::into_iter") and len(rng[2]) == 1:
            rng = rng[2][0]
        if not (rng is not None and rng[0] == "agg" and rng[1][0] == "adt" and str(rng[1][1]).endswith("ops::range::Range") and len(rng[2]) == 2):
            return None
        lo, hi = rng[2]
        if not (lo[0] == "const" and isinstance(lo[1], int) and lo[1] >= 0 and _canon(hi) == ("len", vplace)):
            return None
        # the length of v does not change while the loop runs: the only `&mut` uses of its owner inside the loop are element accesses
        for b_ in body:
            tt = fn.term(b_)
            if tt["k"] == "call":
                for a_, ty in zip(tt["args"], tt.get("arg_tys", [])):
                    if ty.startswith("&mut") and not re.search(r"IndexMut<I>>::index_mut$|IndexMut<I> for \[T\]>::index_mut$|::swap$", callee_of(tt) or "") and b_ != head:
                        x_ = kit.strip_refs(fn.expr(a_, 6, stop={"named"}))
                        while x_[0] in ("field", "deref", "ref"):
                            x_ = x_[1]
                        if x_[:2] == root[:2]:
                            return None
            for s_ in fn.stmts(b_):
                if s_["k"] == "assign" and s_["p"]["l"] == root[1] and s_["p"].get("pr") and root[0] in ("local", "arg"):
                    return None
        # the loop variable: `i = (next(..) as Some).0`
        def is_loop_var(l):
            ds = fn.defs().get(l, [])
            if len(ds) != 1 or ds[0][0] != "stmt" or ds[0][1] not in body:
                return False
            e_ = fn.rvalue_expr(ds[0][3]["r"], 4)
            x_ = e_
            while x_[0] in ("field", "downcast", "ref", "deref"):
                x_ = x_[1]
            return x_[0] == "call" and callee_of(th) == x_[1] and "Some" in expr_str(e_, 120)
        if is_loop_var(ie[1]):
            return "guarded: the index runs over `%d..%s.len()` and the length does not change inside the loop" % (lo[1], expr_str(vplace, 40))
        # a trailing counter
        if lo[1] != 0:
            return None
        ds = fn.defs().get(ie[1], [])
        zero = [d for d in ds if d[0] == "stmt" and fn.rvalue_expr(d[3]["r"], 4, stop={"named"}) == ("const", 0) and d[1] not in body and fn.dominates(d[1], head)]
        steps = [d for d in ds if d[0] == "stmt" and d[1] in body]
        if len(zero) != 1 or len(steps) != 1 or len(ds) != 2:
            return None
        se = fn.rvalue_expr(steps[0][3]["r"], 6, stop={"named"})
        if not (se[0] in ("bin", "checked") and se[1] == "Add" and se[2][:2] == ie[:2] and se[3] == ("const", 1)):
            return None
        sb = steps[0][1]
        if any(sb in bd and h_ != head for h_, (bd, l_) in lps.items() if len(bd) < len(body)):
            return None                                   # stepped inside a nested loop: more than once per round
        if site.bb in fn.reachable(sb, avoid={head}) and site.bb != sb:
            return None                                   # used again after the step in the same round: k may equal i + 1
        return ("guarded: `%s` starts at 0 in front of `for _ in 0..%s.len()`, is stepped by one at most once per round and only behind this use, so it never "
                "overtakes the loop index, which stays below the length" % (ie[2] if len(ie) > 2 else "counter", expr_str(vplace, 40)))

    def _stable_between(self, fn, guard_bb, site_bb, cond):
        """the places a guard talks about are not written between the guard and the site: no assignment to a field the
        condition reads, and no call that receives `&mut` of the whole object those fields live in"""
        fields = {x[2] for x in expr_walk(cond) if x[0] == "field"}
        if not fields:
            return True
        fwd = set()
        for sx in fn.succ_map()[guard_bb]:
            if sx != guard_bb:
                fwd |= fn.reachable(sx, avoid={guard_bb, site_bb}) | ({sx} if sx == site_bb else set())
        between = fwd & _reaching(fn, site_bb, avoid={guard_bb})
        between.discard(guard_bb)
        between.add(site_bb)
        for b in between:
            for s in fn.stmts(b):
                if s["k"] != "assign":
                    continue
                fl = [e.get("n") for e in s["p"].get("pr", []) if isinstance(e, dict) and "f" in e]
                if fl and fl[-1] in fields:
                    if b == site_bb:
                        continue
                    return False
            if b == site_bb:
                continue
            t = fn.term(b)
            if t["k"] == "call":
                for a, ty in zip(t["args"], t.get("arg_tys", [])):
                    if not ty.startswith("&mut"):
                        continue
                    l = op_local(a)
                    sd = fn.single_def(l) if l is not None else None
                    if sd and sd[0] == "stmt" and sd[3]["r"]["k"] == "ref":
                        pl = sd[3]["r"]["p"]
                        fl = [e.get("n") for e in pl.get("pr", []) if isinstance(e, dict) and "f" in e]
                        if not fl or fl[0] in fields:
                            return False
                    elif l is not None and fn.is_arg(l):
                        return False
        return True

    def ival(self, fn, e, cons, depth=0):
        """interval of an expression tree (None = unknown)"""
        if depth > 14:
            return None
        k = e[0]
        if k == "const" and isinstance(e[1], int):
            return (e[1], e[1])
        # constraints that pin this very expression
        best = None
        for c, v in cons:
            r = _constraint_interval(c, v, e)
            if r:
                best = _meet(best, r)
        # ... or bound it by another quantity whose own range is known (`i < s.len()`)
        if depth < 6:
            for c, v in cons:
                if not (c[0] == "bin" and c[1] in ("Lt", "Le", "Gt", "Ge") and v in (0, 1, ("not", [0]))):
                    continue
                op = c[1] if v != 0 else {"Lt": "Ge", "Le": "Gt", "Gt": "Le", "Ge": "Lt"}[c[1]]
                if _same(c[3], e) and c[2][0] != "const":
                    other, op = c[2], {"Lt": "Gt", "Le": "Ge", "Gt": "Lt", "Ge": "Le"}[op]
                elif _same(c[2], e) and c[3][0] != "const":
                    other = c[3]
                else:
                    continue
                ob = self.ival(fn, other, [], depth + 6)
                if ob:
                    best = _meet(best, {"Lt": (-10**30, ob[1] - 1), "Le": (-10**30, ob[1]), "Gt": (ob[0] + 1, 10**30), "Ge": (ob[0], 10**30)}[op])
        r = None
        if k in ("arg", "local"):
            ty = fn.local_ty(e[1])
            r = TY_RANGE.get(ty.replace("&mut ", "").replace("&", ""))
            if k == "local":
                sd = fn.single_def(e[1])
                if sd and sd[0] == "stmt":
                    r = _meet(r, self.ival(fn, fn.rvalue_expr(sd[3]["r"], 8, stop={"named"}), cons, depth + 1))
                elif sd and sd[0] == "call":
                    full = fn.local_expr(e[1], 6)          # e.g. `usize::from(x)`, which reads as a widening cast
                    if full != e and full[0] != "local":
                        r = _meet(r, self.ival(fn, full, cons, depth + 1))
        elif k == "cast":
            inner = self.ival(fn, e[3], cons, depth + 1)
            tr = TY_RANGE.get(e[2])
            fr = TY_RANGE.get(e[1])
            if inner is None:
                inner = fr
            if inner is not None and tr is not None:
                if tr[0] <= inner[0] and inner[1] <= tr[1]:
                    r = inner
                else:
                    r = tr
            else:
                r = tr
        elif k in ("ref", "deref", "downcast"):
            r = self.ival(fn, e[1], cons, depth + 1)
        elif k == "discr":
            adt = e[2]
            if adt in self.prog.adts:
                ds = [v.get("discr", v["idx"]) for v in self.prog.adts[adt]["variants"]]
                r = (min(ds), max(ds))
        elif k in ("bin", "checked"):
            a = self.ival(fn, e[2], cons, depth + 1)
            b = self.ival(fn, e[3], cons, depth + 1)
            op = e[1]
            if op == "BitAnd":
                cands = []
                if b is not None and b[0] >= 0:
                    cands.append((0, b[1]))
                if a is not None and a[0] >= 0:
                    cands.append((0, a[1]))
                if cands:
                    r = (0, min(c[1] for c in cands))
            elif a is not None and b is not None:
                if op == "Add":
                    r = (a[0] + b[0], a[1] + b[1])
                elif op == "Sub" and _part_len(fn, e[2], e[3]):
                    r = (0, a[1])          # len(whole) - len(part of it): never negative
                elif op == "Sub":
                    r = (a[0] - b[1], a[1] - b[0])
                elif op == "Mul":
                    ps = [a[0] * b[0], a[0] * b[1], a[1] * b[0], a[1] * b[1]]
                    r = (min(ps), max(ps))
                elif op == "Shr" and b[0] == b[1] and a[0] >= 0:
                    r = (a[0] >> b[0], a[1] >> b[0])
                elif op == "Shl" and b[0] == b[1] and a[0] >= 0:
                    r = (a[0] << b[0], a[1] << b[0])
                elif op == "BitOr" and a[0] >= 0 and b[0] >= 0:
                    r = (0, (1 << max(a[1].bit_length(), b[1].bit_length())) - 1)
                elif op in ("Eq", "Ne", "Lt", "Le", "Gt", "Ge"):
                    r = (0, 1)
                elif op == "Rem" and b[0] > 0 and a[0] >= 0:
                    r = (0, b[1] - 1)
                elif op == "Div" and b[0] > 0 and a[0] >= 0:
                    r = (a[0] // b[1], a[1] // b[0])
        elif k == "un" and e[1] == "PtrMetadata":
            r = (0, 2**63 - 1)
        elif k == "field":
            # typed field of a known struct: use the declared field type when we can find it
            r = self._field_range(e)
            if r is None and str(e[2]) == "0" and e[1][0] == "downcast" and e[1][2] in ("Some", "Ok"):
                r = self._payload_summary(e[1][1], e[1][2])
        elif k == "call" and e[1]:
            c = e[1]
            m = re.search(r"core::num::<impl (\w+)>::(\w+)$", c)
            if False:
                pass
            elif re.search(r"convert::(num::)?<impl core::convert::From<(\w+)> for \w+>::from$", c) and len(e[2]) == 1:
                # a lossless conversion (`i32::from(flag)`, `usize::from(x)`): the value itself, within its source type
                src_ty = re.search(r"From<(\w+)> for", c).group(1)
                a = self.ival(fn, e[2][0], cons, depth + 1)
                r = _meet(a, TY_RANGE.get(src_ty)) if a else TY_RANGE.get(src_ty)
            elif c.endswith("::len") or c.endswith("::count") or c.endswith("len_utf8"):
                r = (1, 4) if c.endswith("len_utf8") else (0, 2**63 - 1)
            elif re.search(r"core::str::<impl str>::r?find$|Iterator>?::position$", c):
                r = (0, 2**63 - 2)          # Some(i) => i < len <= isize::MAX (read through unwrap_or below)
            elif c.endswith("Option::<T>::unwrap_or") and len(e[2]) == 2:
                a = self.ival(fn, e[2][0], cons, depth + 1)
                b = self.ival(fn, e[2][1], cons, depth + 1)
                if a and b:
                    r = (min(a[0], b[0]), max(a[1], b[1]))
            elif m and m.group(2) in ("wrapping_add", "wrapping_sub", "wrapping_mul"):
                r = TY_RANGE.get(m.group(1))
            elif m and m.group(2) in ("min", "max") and len(e[2]) == 2:
                a = self.ival(fn, e[2][0], cons, depth + 1)
                b = self.ival(fn, e[2][1], cons, depth + 1)
                if a and b:
                    r = (min(a[0], b[0]), min(a[1], b[1])) if m.group(2) == "min" else (max(a[0], b[0]), max(a[1], b[1]))
            elif c.endswith("core::cmp::Ord::max") or c.endswith("core::cmp::Ord::min"):
                a = self.ival(fn, e[2][0], cons, depth + 1)
                b = self.ival(fn, e[2][1], cons, depth + 1)
                if a and b:
                    r = (min(a[0], b[0]), min(a[1], b[1])) if c.endswith("min") else (max(a[0], b[0]), max(a[1], b[1]))
            else:
                f2 = self.prog.fns.get(c)
                if f2 is not None:
                    out = f2.d.get("output", "")
                    r = TY_RANGE.get(out)
        res = _meet(best, r) if (best or r) else None
        if res is not None:
            for c, v in cons:
                k0 = _constraint_excluded(c, v, e)
                if k0 is not None:
                    if res[1] == k0:
                        res = (res[0], k0 - 1)
                    if res[0] == k0:
                        res = (k0 + 1, res[1])
        return res

    def _payload_summary(self, e, variant):
        """range of the payload of `Some(..)` / `Ok(..)` returned by a loop-free function of the program all of whose returns of that variant
        carry a constant (`fn len(&self) -> Option<usize> { match self { A => Some(4), .., E => None } }`)"""
        while e[0] in ("ref", "deref"):
            e = e[1]
        if not (e[0] == "call" and e[1] in self.prog.fns):
            return None
        g = self.prog.fns[e[1]]
        if g.bkind != "fn" or kit.loops(g):
            return None
        try:
            tree = formula.decision(g, max_nodes=400)
        except formula.NotATree:
            return None
        vals = []
        def leaves(t_):
            if t_[0] == "switch":
                for s_ in list(t_[2].values()) + [t_[3]]:
                    if not leaves(s_):
                        return False
                return True
            lab = t_[1]
            if lab == ("unreachable",):
                return True
            if not (isinstance(lab, tuple) and lab and lab[0] == "agg" and lab[1][0] == "adt"):
                return False
            if lab[1][2] != variant:
                return True
            if len(lab[2]) == 1 and lab[2][0][0] == "const" and isinstance(lab[2][0][1], int):
                vals.append(lab[2][0][1])
                return True
            return False
        if not leaves(tree) or not vals:
            return None
        return (min(vals), max(vals))

    def _field_range(self, e):
        name = e[2]
        if str(name).isdigit():
            return None                  # `.0` of a tuple or of a call's pair: the name says nothing about the type
        tys = {f["ty"] for adt in self.prog.adts.values() for v in adt["variants"] for f in v["fields"] if f["name"] == name}
        if len(tys) == 1:
            return TY_RANGE.get(next(iter(tys)))       # every struct that has a field of this name gives it this type
        return None

    def t_infeasible(self, site):
        """the site sits in the default arm of a match on an integer whose range the other arms cover completely
        (`match x >> 12 { 0 => .., .., 15 => .., _ => unreachable!() }`)"""
        fn = site.fn
        cons = self._dom_constraints(fn, site.bb)
        for c, v in cons:
            if isinstance(v, tuple) and v[0] == "not" and len(v[1]) >= 2 and c[0] != "discr":
                iv = self.ival(fn, c, [x for x in cons if x[0] is not c])
                if iv and 0 <= iv[1] - iv[0] < 65536 and all(k in set(v[1]) for k in range(iv[0], iv[1] + 1)):
                    return "infeasible: `%s` lies in [%d,%d] and every one of these values has an arm of its own" % (expr_str(c, 50), iv[0], iv[1])
        return None

    def t_interval(self, site):
        fn = site.fn
        cons = self._dom_constraints(fn, site.bb)
        if site.kind.startswith("overflow:"):
            op = site.kind.split(":")[1]
            ty = (site.extra.get("ty") or "").replace("&", "")
            tr = TY_RANGE.get(ty)
            if tr is None:
                return None
            if op == "Sub" and len(site.operands) == 2 and _part_len(fn, site.operands[0], site.operands[1]):
                return "interval: the length of a string minus the length of a trimmed / stripped part of the same string is never negative"
            if op in ("Add", "Sub", "Mul") and len(site.operands) == 2:
                a = self.ival(fn, site.operands[0], cons)
                b = self.ival(fn, site.operands[1], cons)
                if a is None or b is None:
                    return None
                if op == "Add":
                    lo, hi = a[0] + b[0], a[1] + b[1]
                elif op == "Sub":
                    lo, hi = a[0] - b[1], a[1] - b[0]
                else:
                    ps = [a[0] * b[0], a[0] * b[1], a[1] * b[0], a[1] * b[1]]
                    lo, hi = min(ps), max(ps)
                if tr[0] <= lo and hi <= tr[1]:
                    return "interval: %s in [%d,%d], %s in [%d,%d] -> result in [%d,%d] fits %s" % (
                        expr_str(site.operands[0], 40), a[0], a[1], expr_str(site.operands[1], 40), b[0], b[1], lo, hi, ty)
            if op in ("Shl", "Shr") and len(site.operands) == 2:
                b = self.ival(fn, site.operands[1], cons)
                bits = formula.MASKS.get(ty, 0)
                if b and 0 <= b[0] and b[1] < bits:
                    return "interval: shift amount in [%d,%d] < %d" % (b[0], b[1], bits)
            if op == "Neg":
                a = self.ival(fn, site.operands[0], cons)
                if a and a[0] > tr[0]:
                    return "interval: operand in [%d,%d] excludes %s::MIN" % (a[0], a[1], ty)
        if site.kind in ("divisionbyzero", "overflow:Div", "overflow:Rem", "remainderbyzero") and site.operands:
            d = self.ival(fn, site.operands[-1], cons)
            if d and (d[0] > 0 or d[1] < -1):
                return "interval: divisor in [%d,%d] excludes 0 and -1" % (d[0], d[1])
        if site.kind == "checked-std:abs" and site.operands:
            m = re.search(r"<impl (\w+)>::abs$", site.extra.get("callee", ""))
            a = None
            if site.extra.get("raw"):
                a = _meet(self.ival(fn, fn.expr(site.extra["raw"][0], 12, stop={"named"}), cons),
                          self.ival(fn, fn.expr(site.extra["raw"][0], 12), cons))
            if m and a and m.group(1) in TY_RANGE and a[0] > TY_RANGE[m.group(1)][0]:
                return "interval: operand in [%d,%d] excludes %s::MIN" % (a[0], a[1], m.group(1))
        if site.kind == "index" and len(site.operands) == 2:
            # a range slice of a fixed-size array: start <= end <= N
            m = re.match(r"^&(?:mut )?\[[^;\]]+; (\d+)\]$", ((site.extra.get("arg_tys") or [""])[0]).strip())
            rng = site.operands[1]
            while rng[0] in ("ref", "deref"):
                rng = rng[1]
            if m and rng[0] == "agg" and rng[1][0] == "adt" and str(rng[1][1]).endswith("ops::range::Range") and len(rng[2]) == 2:
                n_ = int(m.group(1))
                a = self.ival(fn, rng[2][0], cons)
                b = self.ival(fn, rng[2][1], cons)
                if a and b and 0 <= a[0] and a[1] <= b[0] and b[1] <= n_:
                    return "interval: the range [%d,%d]..[%d,%d] lies inside an array of %d" % (a[0], a[1], b[0], b[1], n_)
        if site.kind == "bounds":
            ln = self.ival(fn, site.operands[0], cons)
            ix = self.ival(fn, site.operands[1], cons)
            if ln and ix and ix[0] >= 0 and ix[1] < ln[0]:
                return "interval: index in [%d,%d] < len %d" % (ix[0], ix[1], ln[0])
        return None

    def t_guarded(self, site):
        fn = site.fn
        cons = self._dom_constraints(fn, site.bb)
        if site.kind in ("overflow:Sub",) and len(site.operands) == 2:
            a, b = site.operands
            for c, v in cons:
                if _implies_ge(c, v, a, b):
                    return "guarded: dominated by `%s` = %s, operands unchanged" % (expr_str(c, 80), v)
            # a - const with a's lower bound from an equality/greater guard is interval's job
        if site.kind == "overflow:Add" and len(site.operands) == 2 and site.operands[1] == ("const", 1):
            # `k += 1` for a counter that starts at 0 in front of a `for _ in 0..n` loop and is stepped at most once per round: k <= loop index < n
            k_ = kit.strip_refs(site.operands[0])
            if k_[0] == "local":
                lps_ = kit.loops(fn)
                inl_ = [(h, body) for h, (body, l) in lps_.items() if site.bb in body]
                if inl_:
                    head_, body_ = min(inl_, key=lambda x: len(x[1]))
                    th_ = fn.term(head_)
                    ds_ = fn.defs().get(k_[1], [])
                    zero_ = [d for d in ds_ if d[0] == "stmt" and fn.rvalue_expr(d[3]["r"], 4, stop={"named"}) == ("const", 0) and d[1] not in body_ and fn.dominates(d[1], head_)]
                    steps_ = [d for d in ds_ if d[0] == "stmt" and d[1] in body_]
                    if th_["k"] == "call" and re.search(r"range::<impl core::iter::traits::iterator::Iterator for core::ops::range::Range<A>>::next$", callee_of(th_) or "") \
                            and "Range<usize>" in (th_.get("arg_tys") or [""])[0] and len(zero_) == 1 and len(steps_) == 1 and len(ds_) == 2:
                        se_ = fn.rvalue_expr(steps_[0][3]["r"], 6, stop={"named"})
                        it_ = kit.strip_refs(fn.expr(th_["args"][0], 4, stop={"named"}))
                        rng_ = None
                        if it_[0] == "local":
                            sd_ = fn.single_def(it_[1])
                            if sd_ and sd_[0] == "stmt":
                                rng_ = fn.rvalue_expr(sd_[3]["r"], 8, stop={"named"})
                            elif sd_ and sd_[0] == "call":
                                rng_ = ("call", callee_of(sd_[3]), tuple(fn.expr(a_, 8, stop={"named"}) for a_ in sd_[3]["args"]))
                        while rng_ is not None and rng_[0] == "call" and str(rng_[1]).endswith("IntoIterator>::into_iter") and len(rng_[2]) == 1:
                            rng_ = rng_[2][0]
                        from0 = rng_ is not None and rng_[0] == "agg" and len(rng_[2]) == 2 and rng_[2][0] == ("const", 0)
                        nested = any(steps_[0][1] in bd and len(bd) < len(body_) for h2, (bd, l2) in lps_.items())
                        if from0 and not nested and se_[0] in ("bin", "checked") and se_[1] == "Add" and se_[2][:2] == k_[:2] and se_[3] == ("const", 1):
                            return "guarded: the counter starts at 0 in front of a `for _ in 0..n` loop and is stepped at most once per round, so it stays below n <= usize::MAX"
        if site.kind == "bounds" and len(site.operands) == 2:
            # chunk[k] with k a constant below the constant chunk size of the chunks_exact(n) iterator that produced `chunk`
            raw = fn.term(site.bb).get("ops", [])
            if len(raw) == 2:
                ln, ix = fn.expr(raw[0], 16), fn.expr(raw[1], 6)
                if ix[0] == "const" and isinstance(ix[1], int):
                    for x in expr_walk(ln):
                        if x[0] == "call" and str(x[1]).endswith("chunks_exact") and len(x[2]) == 2 and x[2][1][0] == "const" and isinstance(x[2][1][1], int):
                            if ix[1] < x[2][1][1] and "next(" in expr_str(ln, 600):
                                return "guarded: element of chunks_exact(%d), index %d" % (x[2][1][1], ix[1])
        if site.kind == "index" and str(site.extra.get("callee", "")).endswith(("::index", "::index_mut")):
            # array[a..b] with the array's length N known from its type: needs a <= b (b - a is a sum of lengths and non-negative
            # constants) and b <= N (a dominating comparison on b, or its interval)
            raw_args = fn.term(site.bb).get("args", [])
            aty = " ".join(site.extra.get("arg_tys") or [])
            mN = re.search(r"\[\w+; (\d+)\]", aty)
            if mN and len(raw_args) == 2:
                rng = fn.expr(raw_args[1], 16)
                if rng[0] == "agg" and rng[1][0] == "adt" and str(rng[1][1]).endswith("ops::range::Range") and len(rng[2]) == 2:
                    N = int(mN.group(1))
                    a_e, b_e = rng[2]
                    nonneg = self._nonneg_difference(fn, b_e, a_e, cons)
                    b_named = fn.expr(raw_args[1], 4, stop={"named"})
                    cands = [b_e] + ([b_named[2][1]] if b_named[0] == "agg" and len(b_named[2]) == 2 else [])
                    upper = None
                    for cand in cands:
                        iv = self.ival(fn, cand, cons)
                        if iv:
                            upper = iv[1] if upper is None else min(upper, iv[1])
                    if nonneg and upper is not None and upper <= N:
                        return "guarded: range start <= end (difference is a sum of lengths) and end <= %d" % N
        if site.kind == "index" and str(site.extra.get("callee", "")).endswith(("copy_from_slice", "clone_from_slice")):
            # destination and source have the same length as linear forms over slice lengths
            raw_args = fn.term(site.bb).get("args", [])
            if len(raw_args) == 2:
                from .linear import lin as _lin
                def lenform(e):
                    e = kit.strip_refs(_deref_target(e))
                    if e[0] == "call" and "Index" in str(e[1]) and re.search(r"::index(_mut)?$", str(e[1])) and len(e[2]) == 2:
                        r_ = e[2][1]
                        if r_[0] == "agg" and r_[1][0] == "adt" and str(r_[1][1]).endswith("ops::range::Range") and len(r_[2]) == 2:
                            a_, b_ = _lin(r_[2][0], name=_lenname), _lin(r_[2][1], name=_lenname)
                            d_ = dict(b_[1])
                            for k_, v_ in a_[1].items():
                                d_[k_] = (d_.get(k_, 0) - v_) % 65536
                            return ((b_[0] - a_[0]) % 65536, {k_: v_ for k_, v_ in d_.items() if v_})
                        if r_[0] == "agg" and str(r_[1][1]).endswith("ops::range::RangeFrom") and len(r_[2]) == 1:
                            base = lenform(e[2][0])
                            k_ = _lin(r_[2][0])
                            if base and not k_[1]:
                                return ((base[0] - k_[0]) % 65536, base[1])
                        return None
                    return (0, {_lenname(("call", "core::slice::<impl [T]>::len", (e,))) or ("len(%s)" % expr_str(e, 60)): 1})
                d1, d2 = lenform(fn.expr(raw_args[0], 16)), lenform(fn.expr(raw_args[1], 16))
                if d1 is not None and d1 == d2:
                    return "guarded: destination and source lengths are the same linear form over slice lengths"
        if site.kind == "index" and re.search(r"Vec<T, A> as core::ops::index::Index(Mut)?<I>>::index(_mut)?$|Vec::<T, A>::(remove|swap_remove)$|<impl core::ops::index::Index(Mut)?<I> for \[T\]>::index(_mut)?$", str(site.extra.get("callee", ""))):
            # v[i] / v.remove(i) dominated by the true edge of `i < v.len()`, with neither i nor v written between the test and the use
            r_ = self._index_below_len(fn, site) or self._range_loop_index(fn, site)
            if r_:
                return r_
        if site.kind == "index" and len(site.operands) >= 2:
            # v[i] where i is the Some-payload of v.iter().position(..): position only returns indices of existing elements
            base = kit.strip_refs(_deref_target(site.operands[0]))
            raw_args = fn.term(site.bb).get("args", [])
            full = fn.expr(raw_args[1], 14) if len(raw_args) > 1 else site.operands[1]
            for x in expr_walk(full):
                if x[0] == "call" and x[1] and re.search(r"Iterator>?::position$", str(x[1])):
                    src = expr_str(x[2][0], 200)
                    outer = kit.strip_refs(base[1]) if base[0] == "field" and str(base[2]) == "0" else None      # newtype around the Vec
                    while outer is not None and outer[0] in ("deref", "ref"):
                        outer = outer[1]
                    if (expr_str(base, 100) in src or (outer is not None and re.search(r"\biter\(&\*?%s\)" % re.escape(expr_str(outer, 60)), src))) and not re.search(r"(skip|take|filter|step_by|rev|chain)\(", src):
                        return "guarded: the index is the result of position() over the indexed collection itself"
        if site.kind == "unwrap":
            # v.get(i).expect(..) dominated by the false edge of `i >= v.len()` (or the true edge of `i < v.len()`)
            g = kit.strip_refs(site.operands[0])
            if g[0] == "call" and g[1] and re.search(r"(<impl \[T\]>|Vec::<T, A>)::get$", g[1]) and len(g[2]) == 2:
                vec, idx = g[2]
                for c, v in cons:
                    if c[0] == "bin" and c[1] in ("Ge", "Lt") and _same(c[2], idx):
                        ln = _canon(c[3])
                        target = ("len", kit.strip_refs(_deref_target(vec)))
                        inbounds = (c[1] == "Ge" and v == 0) or (c[1] == "Lt" and v != 0)
                        if inbounds and ln[0] == "len" and (ln == target or expr_str(ln[1]) == expr_str(target[1])):
                            return "guarded: index dominated by `%s` = %s" % (expr_str(c, 80), v)
            # x.unwrap() dominated by a test that x is Some/Ok
            x = kit.strip_refs(site.operands[0])
            for c, v in cons:
                if c[0] == "discr" and kit.strip_refs(c[1]) == x and v == 1 and c[2] == "core::option::Option":
                    return "guarded: dominated by discriminant(%s) == Some" % expr_str(x, 60)
                if c[0] == "call" and c[1] and c[1].endswith("::is_some") and kit.strip_refs(c[2][0]) == x and v in (1, ("not", [0])):
                    return "guarded: dominated by is_some()"
        return None

    def _nonneg_difference(self, fn, b_e, a_e, cons):
        """is b - a >= 0 ?  b - a as a linear form whose symbols are slice lengths with positive coefficients and whose constant,
        if negative, is covered by the lengths' lower bounds (`!x.is_empty()` gives len >= 1)"""
        from .linear import lin as _lin
        lb, la = _lin(b_e, name=_lenname), _lin(a_e, name=_lenname)
        d = dict(lb[1])
        for k_, v_ in la[1].items():
            d[k_] = (d.get(k_, 0) - v_) % 65536
        d = {k_: v_ for k_, v_ in d.items() if v_}
        c0 = (lb[0] - la[0]) % 65536
        if c0 >= 32768:
            c0 -= 65536
        low = c0
        for k_, v_ in d.items():
            if v_ >= 32768 or not k_.startswith("len("):
                return False
            e_ = _LEN_EXPRS.get(k_)
            iv = self.ival(fn, e_, cons) if e_ is not None else None
            low += v_ * (iv[0] if iv else 0)
        return low >= 0

    def t_peeked(self, site):
        """toks.next().unwrap() dominated by a peek() that matched Some on the same iterator"""
        if site.kind != "unwrap":
            return None
        e = site.operands[0]
        if not (e[0] == "call" and e[1] and e[1].endswith("Iterator>::next") and "Peekable" in e[1]):
            return None
        it = kit.strip_refs(e[2][0])
        fn = site.fn
        for c, v in self._dom_constraints(fn, site.bb, stable=False):
            if c[0] == "discr" and v == 1:
                inner = c[1]
                if inner[0] == "call" and inner[1] and re.search(r"Peekable(::)?<I>::peek$", inner[1]) and kit.strip_refs(inner[2][0]) == it:
                    # exactly one consumption (this next()) between the peek and the unwrap
                    pk = [b for b, t, c in fn.calls() if c == inner[1] and fn.dominates(b, site.bb)]
                    if not pk:
                        continue
                    between = (fn.reachable(pk[-1], avoid={site.bb}) & _reaching(fn, site.bb)) - {pk[-1]}
                    consumers = [b for b in between if fn.term(b)["k"] == "call" and callee_of(fn.term(b)) and "Peekable" in callee_of(fn.term(b))
                                 and not re.search(r"::peek$", callee_of(fn.term(b)))]
                    if len(consumers) == 1:
                        return "peeked: dominated by peek() matched Some on the same iterator, one next() in between"
        return None


def _reaching(fn, target, avoid=()):
    pm = fn.pred_map()
    seen = set()
    work = [target]
    while work:
        x = work.pop()
        if x in seen or x in avoid:
            continue
        seen.add(x)
        work.extend(pm[x])
    return seen


def _short_ty(t):
    t = re.sub(r"core::|alloc::|std::|string::|vec::", "", t or "")
    return t[:50]


def _meet(a, b):
    if a is None:
        return b
    if b is None:
        return a
    return (max(a[0], b[0]), min(a[1], b[1]))


def _deref_target(e):
    """look through Deref::deref(&v) wrappers"""
    e = kit.strip_refs(e)
    while e[0] == "call" and e[1] and e[1].endswith("Deref>::deref") and e[2]:
        e = kit.strip_refs(e[2][0])
    return e


_GETTERS = {}


def _getter_field(prog, name):
    """field name if `name` is a trivial read accessor `fn f(&self) -> T { self.field }`, else None (cached)"""
    key = (id(prog), name)
    if key not in _GETTERS:
        out = None
        f = prog.fns.get(name)
        if f is not None and f.bkind == "fn" and f.arg_count == 1 and len(f.live_blocks()) <= 2 and not list(f.calls()):
            e = f.local_expr(0, 6)
            while e[0] in ("ref", "deref"):
                e = e[1]
            if e[0] == "field" and isinstance(e[2], str):
                base = e[1]
                while base[0] in ("ref", "deref"):
                    base = base[1]
                if base[0] == "arg" and base[1] == 1:
                    out = e[2]
        _GETTERS[key] = out
    return _GETTERS[key]


_PROG = [None]


def _ungetter(e):
    """state.pc() and state.pc are the same value: rewrite trivial accessor calls into the field they return"""
    prog = _PROG[0]
    if prog is None or not isinstance(e, tuple) or not e:
        return e
    if e[0] == "call" and isinstance(e[1], str) and len(e[2]) == 1:
        fld = _getter_field(prog, e[1])
        if fld is not None:
            return ("field", kit.strip_refs(_ungetter(e[2][0])), fld)
    return tuple(_ungetter(x) if isinstance(x, tuple) else x for x in e)


_LEN_EXPRS = {}


def _lenname(e):
    """symbol for slice lengths in linear forms: len(x) and PtrMetadata(x) of the same x get the same name"""
    ce = _canon(e)
    if isinstance(ce, tuple) and ce and ce[0] == "len":
        nm = "len(%s)" % expr_str(ce[1], 120)
        _LEN_EXPRS[nm] = ("call", "core::slice::<impl [T]>::len", (ce[1],))
        return nm
    return None


def _canon(e):
    """PtrMetadata(x) and x.len() denote the same quantity; a trivial accessor call and the field it reads as well"""
    e = kit.strip_refs(_ungetter(e))
    if e[0] == "un" and e[1] == "PtrMetadata":
        return ("len", kit.strip_refs(e[2]))
    if e[0] == "call" and e[1] and re.search(r"(<impl \[T\]>|Vec::<T, A>|<impl str>|String)::len$", e[1]) and len(e[2]) == 1:
        return ("len", kit.strip_refs(e[2][0]))
    return e


def _same(a, b):
    return _canon(a) == _canon(b)


_PART = re.compile(r"core::str::<impl str>::(trim|trim_start|trim_end|trim_start_matches|trim_end_matches|trim_matches|strip_prefix|strip_suffix)$")


def _part_len(fn, a, b):
    """a = len(X) and b = len(Y) with Y a trimmed / stripped part of X (so len(Y) <= len(X))"""
    def len_arg(x):
        while x[0] in ("ref", "deref", "cast"):
            x = x[3] if x[0] == "cast" else x[1]
        if x[0] == "call" and str(x[1]).endswith("::len") and len(x[2]) == 1:
            return kit.strip_refs(x[2][0])
        return None
    X, Y = len_arg(a), len_arg(b)
    if X is None or Y is None:
        return False
    for _ in range(3):
        if Y[0] == "local":
            full = fn.local_expr(Y[1], 6, stop={"named"})
            if full == Y:
                sd = fn.single_def(Y[1])
                if sd and sd[0] == "call":
                    full = ("call", callee_of(sd[3]), tuple(fn.expr(a_, 4, stop={"named"}) for a_ in sd[3]["args"]))
            Y = kit.strip_refs(full)
        if Y[0] == "downcast" or (Y[0] == "field" and Y[1][0] == "downcast"):
            Y = kit.strip_refs(Y[1] if Y[0] == "downcast" else Y[1][1])      # payload of strip_prefix's Some
            continue
        if Y[0] == "call" and _PART.search(str(Y[1])) and Y[2]:
            src = kit.strip_refs(Y[2][0])
            if expr_str(src, 200) == expr_str(X, 200):
                return True
            Y = src
            continue
        break
    return False


def _constraint_interval(c, v, e):
    """interval of e implied by constraint (c == v)"""
    ce = _canon(e)
    if ce[0] == "len" and c[0] == "call" and c[1] and str(c[1]).endswith("::is_empty") and v == 0 and len(c[2]) == 1:
        if kit.strip_refs(_deref_target(c[2][0])) == ce[1] or expr_str(kit.strip_refs(_deref_target(c[2][0]))) == expr_str(ce[1]):
            return (1, 10**30)          # `!x.is_empty()`
    if c[0] == "bin" and c[1] in ("Lt", "Le", "Gt", "Ge", "Eq", "Ne") and v in (0, 1, ("not", [0])):
        truth = v != 0
        op = c[1]
        a, b = c[2], c[3]
        if not truth:
            op = {"Lt": "Ge", "Le": "Gt", "Gt": "Le", "Ge": "Lt", "Eq": "Ne", "Ne": "Eq"}[op]
        if _same(a, e) and b[0] == "const":
            k = b[1]
            return {"Lt": (-10**30, k - 1), "Le": (-10**30, k), "Gt": (k + 1, 10**30), "Ge": (k, 10**30), "Eq": (k, k)}.get(op)
        if _same(b, e) and a[0] == "const":
            k = a[1]
            return {"Lt": (k + 1, 10**30), "Le": (k, 10**30), "Gt": (-10**30, k - 1), "Ge": (-10**30, k), "Eq": (k, k)}.get(op)
    # switch directly on the value (char / integer ranges are lowered to comparisons; plain values to targets)
    if _same(c, e):
        if isinstance(v, int):
            return (v, v)
        if isinstance(v, tuple) and v[0] == "in":
            return (min(v[1]), max(v[1]))
    return None


def _constraint_excluded(c, v, e):
    """value k such that the constraint says e != k"""
    if _same(c, e) and isinstance(v, tuple) and v[0] == "not" and len(v[1]) == 1:
        return v[1][0]          # `match x { 0 => .., _ => here }`
    if c[0] == "bin" and c[1] in ("Eq", "Ne") and isinstance(v, int):
        truth = v != 0
        ne = (c[1] == "Ne") == truth
        if ne:
            if _same(c[2], e) and c[3][0] == "const":
                return c[3][1]
            if _same(c[3], e) and c[2][0] == "const":
                return c[2][1]
    return None


def _implies_ge(c, v, a, b):
    """does (c == v) imply a >= b ?"""
    if not (c[0] == "bin" and c[1] in ("Lt", "Le", "Gt", "Ge")):
        return False
    truth = (v != 0) if isinstance(v, int) else (v == ("not", [0]))
    op = c[1]
    x, y = c[2], c[3]
    if not truth:
        op = {"Lt": "Ge", "Le": "Gt", "Gt": "Le", "Ge": "Lt"}[op]
    # a >= b follows from: a >= b, a > b, b <= a, b < a
    if _same(x, a) and _same(y, b) and op in ("Ge", "Gt"):
        return True
    if _same(x, b) and _same(y, a) and op in ("Le", "Lt"):
        return True
    return False


def load_ledger():
    if not os.path.exists(LEDGER):
        return {}
    d = json.load(open(LEDGER))
    return {e["key"]: e for e in d.get("entries", [])}


def run_ledger(ctx, rule_id, title, entries, stop=(), floor=1, include_exits=False, only=None, profile_note=None, conditional=None):
    """standard driver: enumerate, discharge, report"""
    if ctx.profile != "dev":
        floor = max(1, floor // 4)      # overflow and debug assertions are compiled out of release MIR
    ctx.rule(rule_id, title, floor=floor)
    L = Ledger(ctx, entries, stop=stop, include_exits=include_exits)
    for n in L.reach:
        ctx.analysed_fns.add(n)
    stats = {}
    for s in L.sites:
        if only and not only(s):
            continue
        ctx.instance(1)
        ok = L.discharge(s)
        if not ok and conditional:
            # a site another rule's argument covers (the rule is named; its verdict is part of the same property's check or of a sibling's)
            for pred, on_rule, reason in conditional:
                if pred(s):
                    ok, s.tactic, s.why = True, "conditional:" + on_rule, reason
                    break
        assumed = bool(ok and s.tactic and s.tactic.startswith("ledger:assum"))
        ctx.oblig(ok, {"site": s.key, "at": s.where(), "tactic": s.tactic, "why": s.why} if ok and len(ctx.cur.samples) < 6 else None,
                  s.tactic, assumed=assumed)
        stats[s.tactic or "UNDISCHARGED"] = stats.get(s.tactic or "UNDISCHARGED", 0) + 1
        if not ok:
            p = ctx.cg.path(L.entries[0], lambda x, _n=s.fn.name: x == _n) if s.fn.name not in L.entries else [s.fn.name]
            for e0 in L.entries[1:]:
                if p:
                    break
                p = ctx.cg.path(e0, lambda x, _n=s.fn.name: x == _n)
            ctx.violation("panic|%s" % s.key, s.where(),
                          "undischarged panic obligation in `%s`: %s [%s]%s — reachable via %s"
                          % (short(s.fn.name), s.desc, s.kind, (" (macro %s)" % outer_macro(s.macs)) if s.macs else "",
                             " -> ".join(short(x) for x in (p or ["?"]))[:400]))
    ctx.note("functions in scope: %d; sites by tactic: %s" % (len(L.reach), stats))
    ctx.finish_rule()
    return L
