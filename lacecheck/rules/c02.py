"""C02 — every instruction word executes as the ISA prescribes."""
import json
import re
import os
from ..facts import callee_of, short, sp_file_line, expr_str, expr_walk, op_local, place_is_local
from .. import kit, bits, formula, tables
from ..effects import Effects
from ..panics import run_ledger, Ledger
from ..extract import VERIF

EXPLANATION = (
    "R1/R2 (BITS): the 16-entry dispatch table is read from the const's MIR; for the handler in slot i the set of "
    "instruction-word fields it extracts - (low bit, width, sign-extended?) with the sink each reaches (register read, "
    "register write, PC-relative add, base+offset add, ALU operand, mode test, condition mask, vector switch) - must equal "
    "the ISA's table for opcode i (spec/isa.json, written from the ISA and the README). R3 (EFF): each handler's write-set "
    "on the machine state (closed over callees, accessor idiom recognised) equals the ISA's. R4 (PANIC): no checked "
    "arithmetic on machine words survives in code reachable from execute (closed ledger; stdout/stdin faults are stated "
    "assumptions). R5 (ORD): inside a handler no register is read by an instruction-field index after a register write. "
    "R6 (INT): every call of the unchecked register accessors passes an index proven < 8; memory is 2^16 words so any u16 "
    "index is in bounds. R7: unknown trap vectors reach exit(0xEE) without a state write; opcode 0xD is gated (C18.R3). "
    "R8: condition codes N/Z/P come from the signed comparison with zero and share their bit values with the encoder's BR mask."
    ' R1 reads the opcode dispatch as a 16-entry table or as a 16-arm match. R8 is decided on all 65,536 result words, and additionally requires that below execute only set_flags writes the condition code and that every CC-setting handler hands set_flags the word it stores in DR.'
    " R5 judges the 0xD handler with its two stack helpers written in; a register named by an instruction field may alias one named by a constant (reads of R7 after a store to a field-named register are reported, two constant-named accesses are the handler's own bookkeeping). R5 also orders stores: the register an instruction field names holds the result and is stored last, so a store to a constant-named register (stack pointer, link register) after it is reported (POP R7 must leave the popped word in R7)."
)
NOT_DECIDED = ("the numerical result of each instruction on each state (the sign-extension helper's arithmetic is trusted through "
               "the repository's own width-exhaustive unit test; R2 checks its call-site widths); RTI is outside the claim")

EXEC = "lace::runtime::RunState::execute"
RS = "lace::runtime::RunState"


def handlers(ctx):
    d = kit.opcode_dispatch(ctx.prog, ctx.fn(EXEC))
    ctx.need(d is not None and len(d["handlers"]) == 16, "the 16-way opcode dispatch of execute (a table of 16 handlers, or a match with one handler call per opcode)")
    return d["handlers"]


def run(ctx):
    prog = ctx.prog
    spec = json.load(open(os.path.join(VERIF, "spec", "isa.json")))
    eff = Effects(prog)
    hs = handlers(ctx)

    # ------------------------------------------------------------------ R1: dispatch
    ctx.rule("C02.R1", "execute indexes the 16-entry table with bits 15:12", floor=1)
    ex = ctx.fn(EXEC)
    disp = kit.opcode_dispatch(prog, ex)
    idx = disp["index"]
    ctx.need(idx is not None, "the expression execute dispatches on")
    f = bits.instr_field(idx, lambda e: e[0] == "arg" and e[1] == 2)
    ctx.instance(1, {"index": expr_str(idx), "form": disp["form"]})
    ok = f == (12, 4, False)
    ctx.oblig(ok, {"opcode field": f}, "bits 15:12")
    if not ok:
        ctx.violation("opcode-field", ex.file_line(), "execute dispatches on `%s` = field %s, not on bits 15:12" % (expr_str(idx), f))
    # every handler call passes (self, instr) unchanged
    for a in disp["args"]:
        ok = a == ["&*self", "instr"] or (len(a) == 2 and "self" in a[0] and a[1] == "instr")
        ctx.oblig(ok, {"handler arguments": a}, "(self, instr)")
        if not ok:
            ctx.violation("handler-args", ex.file_line(), "the handler is called with %s instead of (self, instr)" % a)
    ctx.finish_rule()

    # ------------------------------------------------------------------ R2: decode signatures
    ctx.rule("C02.R2", "decode signature of the handler in slot i = ISA table for opcode i", floor=15)
    nrows = 0
    for i, h in enumerate(hs):
        sp = spec["decode"][str(i)]
        if sp.get("unimplemented"):
            continue
        f = ctx.fn(h)
        # the stack pointer (R7) is read and written by PUSH/POP/CALL/RETS, in the handler itself or in its two helpers: judged as one piece
        helpers_ = {c_ for b_, t_, c_ in f.calls() if c_ and re.search(r"RunState::(push_val|pop_val)$", c_)}
        if helpers_:
            f = kit.inlined_view(prog, f, helpers_)
        got = bits.decode_uses(ctx, f)
        want = {tuple(u) for u in sp["uses"]}
        if (9, 3, False, "cc-mask") in want and (9, 3, False, "cc-mask") not in got:
            # the mask is not and-ed with the flag in one expression (a match on the flag with one bit test per arm, say): decide the
            # branch condition itself, for every flag state, every mask and the extreme offsets
            if _br_taken_iff_mask(prog, f):
                got = {u for u in got if not (u[3] in ("test", "switch") and isinstance(u[0], int) and 9 <= u[0] and u[0] + u[1] <= 12)}
                got.add((9, 3, False, "cc-mask"))
        ctx.instance(1, {"opcode": hex(i), "handler": short(h), "uses": sorted(map(list, got), key=str)} if i in (1, 6) else None)
        nrows += len(got)
        # which bits steer the decoding matters, not whether they are tested one at a time or matched as one field
        def norm(us):
            steer, rest = set(), set()
            for u in us:
                if u[3] in ("test", "switch") and isinstance(u[0], int):
                    steer |= set(range(u[0], u[0] + u[1]))
                else:
                    rest.add(tuple(u))
            if steer:
                rest.add(("steering bits", tuple(sorted(steer))))
            return rest
        ok = norm(got) == norm(want)
        ctx.oblig(ok)
        if not ok:
            ctx.violation("decode|op=%X|%s" % (i, sp["name"]), f.file_line(),
                          "handler in slot 0x%X (%s, `%s`) decodes %s, the ISA says %s: missing %s, unexpected %s"
                          % (i, sp["name"], short(h), fmt(got), fmt(want), fmt(want - got), fmt(got - want)))
    ctx.oblig(nrows >= 30, {"signature rows": nrows}, "floor 30")
    ctx.finish_rule()

    # ------------------------------------------------------------------ R3: write sets
    ctx.rule("C02.R3", "write-set of each handler = ISA", floor=15)
    for i, h in enumerate(hs):
        sp = spec["decode"][str(i)]
        if sp.get("unimplemented"):
            continue
        got = eff.writes(h, 1)
        want = set(sp["writes"])
        ctx.instance(1)
        ok = got == want
        ctx.oblig(ok, {"opcode": hex(i), "writes": sorted(got)} if i in (0, 3) else None, "effect analysis")
        if not ok:
            ctx.violation("writes|op=%X|%s" % (i, sp["name"]), prog.fns[h].file_line(),
                          "handler in slot 0x%X (%s) may write %s, the ISA allows exactly %s" % (i, sp["name"], sorted(got), sorted(want)))
    # nothing but the specified locations: the only RunState fields written anywhere below execute
    allw = eff.writes(EXEC, 1)
    ok = allw <= {"reg", "mem", "pc", "flag"}
    ctx.oblig(ok, {"fields written below execute": sorted(allw)}, "subset of reg/mem/pc/flag")
    if not ok:
        ctx.violation("extra-state", ex.file_line(), "executing an instruction can write RunState fields %s" % sorted(allw - {"reg", "mem", "pc", "flag"}))
    ctx.finish_rule()

    # ------------------------------------------------------------------ R4: wrapping arithmetic (panic ledger)
    L = run_ledger(ctx, "C02.R4", "no checked arithmetic on machine words below execute (closed panic ledger)", [EXEC], floor=30,
                   stop=["lace::output::Output::print_registers", "lace::output::Output::print_decimal", "lace::output::Output::print",
                         "lace::output::Output::start_new_line", "lace::term::read_byte"],
                   only=lambda s: s.fn.name.startswith("lace::runtime::") or s.fn.name.startswith("lace::features::"))

    # ------------------------------------------------------------------ R5: sources before destinations
    ctx.rule("C02.R5", "register sources are read before any register destination is written", floor=10)
    for i, h in enumerate(hs):
        f = prog.fns[h]
        # the two stack helpers are judged as part of the handler (their reads and writes of R7 take part in the order)
        helpers5 = {c_ for b_, t_, c_ in f.calls() if c_ and re.search(r"RunState::(push_val|pop_val)$", c_)}
        if helpers5:
            f = kit.inlined_view(prog, f, helpers5)
        written_refs = {s["p"]["l"] for b, i2, s in f.assigns() if s["p"].get("pr") == ["*"]}
        writes, reads, stores5 = [], [], []
        for b, t, c in f.calls():
            if c is None:
                continue
            if c.endswith("RunState::reg_mut") and t["dest"]["l"] in written_refs:
                # the write happens where the reference is stored through
                for b2, i2, s in f.assigns():
                    if s["p"].get("pr") == ["*"] and s["p"]["l"] == t["dest"]["l"]:
                        e = f.expr(t["args"][1], 8)
                        writes.append((b2, expr_str(e), t, e[0] == "const"))
                        stores5.append((b2, i2, expr_str(e), t, e[0] == "const"))
            elif c.endswith("RunState::push_val") or c.endswith("RunState::pop_val"):
                writes.append((b, "R7 (stack pointer)", t, True))
            elif c.endswith("RunState::reg") or (c.endswith("RunState::reg_mut") and t["dest"]["l"] not in written_refs):
                e = f.expr(t["args"][1], 8)
                reads.append((b, expr_str(e), t, e[0] == "const"))
        ctx.instance(1)
        bad = []
        for wb, wdesc, wt, wconst in writes:
            # a store is a statement, a register read is the call that ends a block: a read ending the block of the store comes after it
            after = f.reachable(wb) if wt is not None and callee_of(wt) and callee_of(wt).endswith("RunState::reg_mut") else f.reachable(wb) - {wb}
            for rb, rdesc, rt, rconst in reads:
                # a register named by an instruction field can be any register, also the one a constant names (POP R7, JSRR R7); two
                # constants are the handler's own bookkeeping of one register (R7 = R7 - 1, then mem[R7])
                if rb in after and not (wconst and rconst):
                    bad.append((wdesc, rdesc, rt))
        # the register an instruction field names is the instruction's result and is written last: a later store to a register the handler
        # names by a constant (the stack pointer, the link register) would overwrite the result when the field names that register (POP R7)
        bad_ww = []
        for wb, wi, wdesc, wt, wconst in stores5:
            if wconst:
                continue
            for b2, i2, d2, t2, c2 in stores5:
                if c2 and ((b2 == wb and i2 > wi) or (b2 != wb and b2 in f.reachable(wb) - {wb})):
                    bad_ww.append((wdesc, d2, t2))
        ctx.oblig(not bad_ww)
        for wdesc, d2, t2 in bad_ww:
            ctx.violation("write-after-result|op=%X|%s" % (i, d2), sp_file_line(t2.get("sp")),
                          "handler in slot 0x%X (`%s`) writes register `%s` after it has written its result into register `%s`, which an "
                          "instruction field names: when the field names that same register (e.g. POP R7) the result is overwritten" % (i, short(h), d2, wdesc))
        ctx.oblig(not bad)
        for wdesc, rdesc, rt in bad:
            ctx.violation("read-after-write|op=%X|%s" % (i, rdesc), sp_file_line(rt.get("sp")),
                          "handler in slot 0x%X (`%s`) reads register `%s` after it has written register `%s`: when both name the same "
                          "register (e.g. JSRR R7, LDR Rx,Rx) the source value is already clobbered" % (i, short(h), rdesc, wdesc))
    ctx.finish_rule()

    # ------------------------------------------------------------------ R6: unchecked accessors
    ctx.rule("C02.R6", "unchecked accessors only get in-range indices", floor=45)
    LL = Ledger(ctx, [])
    nreg = nmem = 0
    for n, f in sorted(prog.fns.items()):
        if f.bkind != "fn":
            continue
        for b, t, c in f.calls():
            if c in (RS + "::reg", RS + "::reg_mut"):
                nreg += 1
                ctx.instance(1)
                e = f.expr(t["args"][1], 10, stop={"named"})
                e2 = f.expr(t["args"][1], 12)
                cons = LL._dom_constraints(f, b)
                iv = LL.ival(f, e, cons)
                iv2 = LL.ival(f, e2, cons)
                from ..panics import _meet
                iv = _meet(iv, iv2)
                if iv is None or iv[1] >= 8:
                    iv = _meet(iv, range_loop_bound(f, t["args"][1]))
                ok = iv is not None and 0 <= iv[0] and iv[1] <= 7
                ctx.oblig(ok, {"index": expr_str(e2, 60), "interval": list(iv) if iv else None, "in": short(n)} if nreg in (1, 20) else None, "interval < 8")
                if not ok:
                    ctx.violation("reg-index|fn=%s|%s" % (short(n), expr_str(e2, 50)), sp_file_line(t.get("sp")),
                                  "`%s` calls the unchecked register accessor with `%s` (interval %s): an index >= 8 reads or writes outside the "
                                  "8-element register file (undefined behaviour in release builds)" % (short(n), expr_str(e2, 60), iv))
            elif c in (RS + "::mem", RS + "::mem_mut"):
                nmem += 1
                ctx.instance(1)
                ctx.oblig(True)
    ctx.oblig(nreg >= 30 and nmem >= 15, {"register accessor calls": nreg, "memory accessor calls": nmem}, "floors 30 / 15")
    if not (nreg >= 30 and nmem >= 15):
        ctx.violation("accessor-floor", "-", "only %d register / %d memory accessor call sites found" % (nreg, nmem))
    # the accessors' arrays: [u16; 8] and [u16; 65536]
    rs = prog.adt(RS)
    tys = {f["name"]: f["ty"] for f in rs["variants"][0]["fields"]}
    ok = tys.get("reg") == "[u16; 8]" and "[u16; MEMORY_MAX]" in tys.get("mem", "") or "65536" in tys.get("mem", "")
    mm = [const for n, fn_ in prog.fns.items() if n.endswith("runtime::MEMORY_MAX") for blk in fn_.blocks for s in blk["stmts"]
          if s["k"] == "assign" and s["r"]["k"] == "use" for const in [s["r"]["a"].get("int")]]
    ok = ok and (mm == [65536] or "65536" in tys.get("mem", ""))
    ctx.oblig(ok, {"reg": tys.get("reg"), "mem": tys.get("mem"), "MEMORY_MAX": mm}, "8 registers, 2^16 words")
    if not ok:
        ctx.violation("state-shape", rs.get("span", "-"), "register file / memory are not [u16; 8] / [u16; 65536] (%s, %s, MEMORY_MAX=%s): u16 indices are no longer in bounds" % (tys.get("reg"), tys.get("mem"), mm))
    # accessor bodies index with the parameter itself
    for acc in ("reg", "reg_mut", "mem", "mem_mut"):
        f = ctx.fn(RS + "::" + acc)
        gu = [t for b, t, c in f.calls() if c and "get_unchecked" in c]
        ok = len(gu) == 1 and expr_str(f.expr(gu[0]["args"][1], 6)) in ("(reg as usize)", "(addr as usize)")
        if not gu:
            # checked indexing form: `self.mem[usize::from(addr)]` / `self.reg[reg as usize]` - a BoundsCheck whose index is the parameter, widened
            idx = [f.expr(t["ops"][1], 8) for b in sorted(f.live_blocks()) for t in [f.term(b)] if t["k"] == "assert" and t.get("ak") == "BoundsCheck"]
            def is_param(x):
                while x[0] == "cast":
                    x = x[3]
                return x[0] == "arg" and x[1] == 2
            ok = len(idx) == 1 and is_param(idx[0])
        ctx.oblig(ok, None)
        if not ok:
            ctx.violation("accessor-body|%s" % acc, f.file_line(), "accessor `%s` does not index with its own parameter" % acc)
    ctx.finish_rule()

    # ------------------------------------------------------------------ R7: unsupported encodings
    ctx.rule("C02.R7", "unknown trap vectors stop the VM with exit(0xEE) before any state change", floor=1)
    tr = ctx.fn(hs[0xF])
    sw = None
    for b in sorted(tr.live_blocks()):
        t = tr.term(b)
        if t["k"] == "switch" and bits.instr_field(tr.expr(t["a"], 8), lambda e: e[0] == "arg" and e[1] == 2) == (0, 8, False):
            sw = (b, t)
    ctx.need(sw, "switch on the trap vector")
    b, t = sw
    vecs = sorted(v for v, x in t["targets"])
    want = sorted(spec["trap_vectors"].values())
    ctx.instance(1, {"trap vectors": [hex(v) for v in vecs]})
    ok = vecs == want
    ctx.oblig(ok)
    if not ok:
        ctx.violation("trap-vectors", sp_file_line(t.get("sp")), "the VM implements trap vectors %s, the ISA/README list %s" % ([hex(v) for v in vecs], [hex(v) for v in want]))
    # where an unknown vector goes: the walk from the entry that follows, at every branch decided by the instruction word alone, the edge
    # an unknown vector takes (the default arm of the switch, or a range / comparison test in front of it), and every edge elsewhere
    def unknown_vector_region():
        unknown = [v for v in range(256) if v not in vecs]
        seen, todo = set(), [0]
        while todo:
            bb = todo.pop()
            if bb in seen:
                continue
            seen.add(bb)
            tt = tr.term(bb)
            nxt = None
            if tt["k"] == "switch":
                c = tr.expr(tt["a"], 10)
                tg = {v: x for v, x in tt["targets"]}
                outs = set()
                try:
                    for v in unknown:
                        val = formula.evaluate(c, {"args": {2: v, "instr": v}, "prog": prog})
                        val = int(val) if isinstance(val, bool) else val
                        outs.add(tg.get(val, tt["otherwise"]))
                    nxt = sorted(outs)
                except (formula.Unknown, formula.Overflow):
                    nxt = None
            if nxt is None:
                nxt = [x for x in tr.succ_map()[bb] if not tr.blocks[x].get("cleanup")]
            todo += nxt
        return seen
    dflt = unknown_vector_region() if sw[0] in tr.reachable(0) else tr.reachable(t["otherwise"])
    # what lies in front of the vector test is shared by every trap and is accounted for under R3/R4; the clause is about what only an
    # unknown vector reaches, plus anything it passes on the way that writes the machine
    exits = [(bb, tt) for bb, tt, c in tr.calls() if bb in dflt and c == "std::process::exit"]
    ws = eff.site_writes(tr, 1, dflt)
    rets = [bb for bb in dflt if tr.term(bb)["k"] == "return"]
    ok = bool(exits) and exits[0][1]["args"][0].get("int") == 0xEE and not ws and not rets
    ctx.oblig(ok, {"unknown vector": "exit(0xEE), no write, no return"}, "default arm scan")
    if not ok:
        ctx.violation("trap-default", sp_file_line(tr.term(t["otherwise"]).get("sp")),
                      "an unknown trap vector does not end in exit(0xEE) without touching the machine (writes: %s, returns: %s)" % ([w[2] for w in ws], bool(rets)))
    # each known vector goes to a distinct arm
    # ... or, where two share one (`0x20 | 0x23 => { read; if vect == 0x23 { echo } }`), the arm tests the vector again and tells them apart
    is_vect = lambda e: bits.instr_field(e, lambda a: a[0] == "arg" and a[1] == 2) == (0, 8, False)
    def told_apart(arm, v1, v2):
        for bb in sorted(kit.dominated_region(tr, arm)):
            tt = tr.term(bb)
            if tt["k"] != "switch":
                continue
            c = tr.expr(tt["a"], 8)
            if is_vect(c):
                tg = {v: x for v, x in tt["targets"]}
                if tg.get(v1, tt["otherwise"]) != tg.get(v2, tt["otherwise"]):
                    return True
            if c[0] == "bin" and c[1] in ("Eq", "Ne"):
                for a_, b_ in ((c[2], c[3]), (c[3], c[2])):
                    if is_vect(a_) and b_[0] == "const" and (v1 == b_[1]) != (v2 == b_[1]):
                        return True
        return False
    by_arm = {}
    for v, x in t["targets"]:
        by_arm.setdefault(x, []).append(v)
    shared = [(x, vs) for x, vs in sorted(by_arm.items()) if len(vs) > 1 and not all(told_apart(x, a, b_) for i_, a in enumerate(vs) for b_ in vs[i_ + 1:])]
    ok = not shared
    ctx.oblig(ok, None)
    if not ok:
        ctx.violation("trap-shared-arm", sp_file_line(t.get("sp")), "trap vectors %s share one handler arm that does not tell them apart" % [hex(v) for v in shared[0][1]])
    # HALT arm: pc := 0xFFFF
    halt_t = {v: x for v, x in t["targets"]}[0x25]
    reg = kit.dominated_region(tr, halt_t)
    okh = any(s["k"] == "assign" and [e.get("n") for e in s["p"].get("pr", []) if isinstance(e, dict)] == ["pc"] and s["r"]["k"] == "use"
              and s["r"]["a"].get("int") == 0xFFFF for bb in reg for s in tr.stmts(bb))
    ctx.oblig(okh, {"HALT": "pc := 0xFFFF"}, "assignment in the x25 arm")
    if not okh:
        ctx.violation("halt-pc", sp_file_line(tr.term(halt_t).get("sp")), "the HALT trap does not set the PC to the halt sentinel 0xFFFF")
    ctx.finish_rule()

    # ------------------------------------------------------------------ R8: condition codes
    ctx.rule("C02.R8", "condition codes: signed comparison with zero; N/Z/P bit values shared with the BR mask", floor=3)
    sf = ctx.fn(RS + "::set_flags")
    tree = formula.decision(sf, result_place=lambda p: [e.get("n") for e in p.get("pr", []) if isinstance(e, dict) and "f" in e][-1:] == ["flag"])
    tree = formula.map_tree(tree, lambda c: kit.resolve_promoteds(prog, c))
    bad = None
    ncell = 0
    # decided on all 65,536 values of the result word (cheap, and free of any premise about which constants the code compares with)
    conds = formula.tree_conditions(tree)
    cmp_only = all(_cmp_only(c) for c in conds)
    for val in range(0x10000):
        ncell += 1
        try:
            lab = formula.eval_decision(tree, {"args": {"val": val, 2: val}})
        except (formula.Unknown, formula.Overflow) as exn:
            bad = (val, "undecidable: %s" % exn)
            break
        got = formula.label_variant(kit.resolve_promoteds(prog, lab)) if lab else None
        sv = val - 65536 if val >= 32768 else val
        want = "N" if sv < 0 else ("Z" if sv == 0 else "P")
        if got != want:
            bad = (val, "%s, the ISA says %s" % (got, want))
            break
    ctx.instance(1, {"set_flags conditions": [expr_str(c, 80) for c in conds], "cells": ncell, "domain": "all 65,536 values", "comparisons only": cmp_only})
    ctx.instance(1)
    ctx.oblig(bad is None, {"N/Z/P": "sign of the value as i16"}, "decision structure on boundary cells")
    if bad:
        ctx.violation("flags-table", sf.file_line(), "set_flags(0x%04X) sets %s" % bad)
    # RunFlag discriminants = encoder letters
    rf = {v["name"]: v.get("discr", v["idx"]) for v in prog.adt("lace::runtime::RunFlag")["variants"]}
    ok = rf == {"N": 4, "Z": 2, "P": 1, "Uninit": 0}
    ctx.instance(1, {"RunFlag": rf})
    ctx.oblig(ok)
    if not ok:
        ctx.violation("runflag-values", prog.adt("lace::runtime::RunFlag").get("span", "-"), "RunFlag discriminants are %s; BR masks them with the instruction's nzp bits (n=4 z=2 p=1, none=0)" % rf)
    fb = ctx.fn("lace::symbol::Flag::bits")
    ftab = {k: (v[1] if v and v[0] == "const" else None) for k, v in tables.enum_const_table(prog, fb, "lace::symbol::Flag").items()}
    wantf = {"N": 4, "Z": 2, "P": 1, "Nz": 6, "Zp": 3, "Np": 5, "Nzp": 7}
    ok = ftab == wantf
    ctx.oblig(ok, {"Flag::bits": ftab}, "OR of the letters' bits")
    if not ok:
        ctx.violation("flag-bits", fb.file_line(), "Flag::bits is %s (expected %s)" % (ftab, wantf))
    # BR: taken iff (cc & nzp) != 0 - the handler's decision structure is evaluated on every (cc, nzp) pair; "taken" = the PC is written
    br = ctx.fn(hs[0])
    btree = formula.decision(br, result_place=lambda p: [e.get("n") for e in p.get("pr", []) if isinstance(e, dict) and "f" in e][-1:] == ["pc"])
    conds = formula.tree_conditions(btree)
    badbr = None
    for cc in (0, 1, 2, 4):
        for nzp in range(8):
            instr = (nzp << 9) | 0x005
            def sub(e, _cc=cc, _i=instr):
                if e[0] == "arg" and e[1] == 2:
                    return _i
                if e[0] == "discr" or (e[0] in ("field",) and e[2] == "flag"):
                    return _cc
                return None
            try:
                lab = formula.eval_decision(btree, {"subst": sub, "prog": prog})
            except (formula.Unknown, formula.Overflow) as exn:
                badbr = (cc, nzp, "undecidable: %s" % exn)
                break
            taken = lab is not None
            if taken != ((cc & nzp) != 0):
                badbr = (cc, nzp, "taken" if taken else "not taken")
                break
        if badbr:
            break
    # the N/Z/P table above is set_flags'; it only describes the machine if set_flags is the one place that writes the condition code,
    # and if every CC-setting instruction hands it the very word it stores in DR
    SF = RS + "::set_flags"
    flag_writers = set()
    below_exec = ctx.cg.reachable([EXEC]) | {EXEC}
    for n_, f_ in prog.fns.items():
        if f_.bkind != "fn" or n_ not in below_exec:
            continue          # executing an instruction is what C02 is about; `reset` restoring a saved flag is C12's business
        for b_, i_, s_ in f_.assigns():
            fl_ = [e_.get("n") for e_ in s_["p"].get("pr", []) if isinstance(e_, dict) and "f" in e_]
            adts_ = [e_.get("adt") for e_ in s_["p"].get("pr", []) if isinstance(e_, dict) and "f" in e_]
            if fl_ and fl_[-1] == "flag" and (adts_[-1] in (None, RS) or RS in [a_ for a_ in adts_ if a_]):
                flag_writers.add(n_)
    ctx.instance(1)
    okw = flag_writers <= {SF}
    ctx.oblig(okw, {"functions assigning RunState.flag": sorted(short(x) for x in flag_writers)}, "set_flags only")
    if not okw:
        extra = sorted(flag_writers - {SF})
        ctx.violation("flag-writer|%s" % short(extra[0]), prog.fns[extra[0]].file_line(),
                      "`%s` writes the condition code itself instead of going through set_flags: its N/Z/P decision is not the one decided above "
                      "(e.g. taken from a widened intermediate result instead of the 16-bit word)" % short(extra[0]))
    for i, h in enumerate(hs):
        sp_ = spec["decode"][str(i)]
        if sp_.get("unimplemented") or "flag" not in sp_.get("writes", []) or "reg" not in sp_.get("writes", []):
            continue
        f_ = prog.fns[h]
        sfc = [(b_, t_) for b_, t_, c_ in f_.calls() if c_ == SF]
        regw = [(b_, s_) for b_, i_, s_ in f_.assigns() if s_["p"].get("pr") and s_["p"]["pr"][0] == "*" and len(s_["p"]["pr"]) == 1
                and any(c_ and c_.endswith("RunState::reg_mut") for c_ in kit.expr_calls(f_.expr({"k": "copy", "p": {"l": s_["p"]["l"]}}, 6)))]
        ctx.instance(1)
        okh = bool(sfc) and bool(regw)
        detail = "?"
        if okh:
            vals = {expr_str(f_.expr(t_["args"][1], 10, stop={"named"}), 120) for b_, t_ in sfc}
            stored = {expr_str(f_.rvalue_expr(s_["r"], 10, stop={"named"}), 120) for b_, s_ in regw}
            okh = vals == stored and len(vals) == 1
            detail = "set_flags(%s), DR := %s" % (sorted(vals), sorted(stored))
        ctx.oblig(okh, {"opcode": sp_["name"], "flags from": detail}, "set_flags is called with the word stored in DR")
        if not okh:
            ctx.violation("flags-value|%s" % sp_["name"], f_.file_line(),
                          "%s does not set the condition code from the word it stores in its destination register (%s)" % (sp_["name"], detail))
    ok = badbr is None
    ctx.oblig(ok, {"BR condition": [expr_str(c) for c in conds], "cells": 32}, "taken iff (cc & nzp) != 0 on all 4 x 8 (cc, nzp) pairs")
    if not ok:
        ctx.violation("br-condition", br.file_line(), "BR with condition code %s and nzp=%s is %s; the ISA takes the branch iff (cc & nzp) != 0 (conditions: %s)"
                      % (format(badbr[0], "03b"), format(badbr[1], "03b"), badbr[2], [expr_str(c) for c in conds]))
    ctx.finish_rule()


def fmt(us):
    return sorted(["%s[%s%s]%s" % (u[3], ("R%d" % u[1]) if u[0] == "const" else ("%d:%d" % (u[0] + u[1] - 1, u[0])), "" if not u[2] else " sext", "") for u in us])


def range_loop_bound(fn, op):
    """interval of a `for i in a..b` loop variable: the payload of Range<T>::next on a range with constant bounds"""
    e = fn.expr(op, 12)
    for x in expr_walk(e):
        if x[0] == "call" and x[1] and x[1].endswith("::next") and "ange" in x[1]:
            for y in expr_walk(x):
                if y[0] == "agg" and y[1][0] == "adt" and str(y[1][1]).endswith("ops::range::Range") and len(y[2]) == 2:
                    if y[2][0][0] == "const" and y[2][1][0] == "const":
                        return (y[2][0][1], y[2][1][1] - 1)
    return None


def _br_taken_iff_mask(prog, f):
    """does the handler write the PC exactly when the instruction's n/z/p bit of the current condition code is set? Decided by evaluating
    its decision structure for the four flag states x eight masks x three offsets x both values of the bits above the mask"""
    RF = "lace::runtime::RunFlag"
    if not prog.adt(RF):
        return False
    try:
        tree = formula.decision(f, result_place=lambda p: [e.get("n") for e in p.get("pr", []) if isinstance(e, dict) and "f" in e][-1:] == ["pc"])
    except formula.NotATree:
        return False
    bit = {"N": 4, "Z": 2, "P": 1}
    for v in prog.adt(RF)["variants"]:
        d = v.get("discr", v["idx"])
        def subst(e, d=d):
            if e[0] == "discr" and e[2] == RF:
                return d
            return None
        for m in range(8):
            for off in (0, 1, 0x1FF):
                for hi_ in (0, 0xF000):
                    w = hi_ | (m << 9) | off
                    try:
                        lab = formula.eval_decision(tree, {"args": {2: w, "instr": w}, "subst": subst, "prog": prog})
                    except (formula.Unknown, formula.Overflow):
                        return False
                    taken = lab is not None and lab != ("unreachable",)
                    if taken != bool(bit.get(v["name"], 0) & m):
                        return False
    return True


def _cmp_only(c):
    """condition is a comparison (or the discriminant of a cmp call) between the (cast) value and constants"""
    def leaf_ok(e):
        while e[0] in ("cast", "ref", "deref"):
            e = e[3] if e[0] == "cast" else e[1]
        return e[0] in ("arg", "const", "local")
    if c[0] == "bin" and c[1] in ("Lt", "Le", "Gt", "Ge", "Eq", "Ne"):
        return leaf_ok(c[2]) and leaf_ok(c[3])
    if c[0] == "discr" and c[1][0] == "call" and c[1][1] and c[1][1].endswith("::cmp"):
        return all(leaf_ok(a) for a in c[1][2])
    if c[0] == "un" and c[1] == "Not":
        return _cmp_only(c[2])
    return False
