"""C14 — the command language is total, unambiguous and transport-independent."""
import os
import re
from ..facts import callee_of, short, sp_file_line, expr_str, expr_walk, op_local, const_int
from .. import kit, formula, tables
from ..panics import run_ledger
from ..extract import REPO

EXPLANATION = (
    "R1 (PANIC): closed panic ledger over the per-line command parser (entered through Command::read_from) and the two "
    "scripted readers (argument, stdin). R2 (EFF/WHO): nothing reachable from the per-line parser ends the process, prints, "
    "or writes machine/debugger state - errors travel as values. R3 (TAB, from the HIR of the const name tables): no "
    "case-folded accepted spelling belongs to two commands, within the top level (plus the step/break words) and within "
    "each sub-command table. R4: every name and alias documented in src/debugger/help.txt resolves through the extracted "
    "tables to the command whose Display string is the documented name, every command but `echo` is documented, and the "
    "argument plan of each command (kinds, order, optionality - extracted from parse_arguments) equals the documented "
    "signature. R5: the argument reader and the stdin reader split on the same delimiter set {newline, ';'} and the combined "
    "reader consults the stream only when the argument is absent or exhausted. R6: value arguments accept [-32768, 65535], "
    "addresses [0, 65535], offsets [-32768, 32767] (shape of the three conversions and which one each argument kind uses). "
    "R7 (TAB, siblings): the pre-classifier of arguments and the integer parser agree on the sign characters accepted after a radix prefix, "
    "on the radix letters, on the digit function and on the first characters that force an integer (character predicates are evaluated as "
    "extracted decision structures over a finite character domain). R8 (TAB): the stdin reader's byte classifier, evaluated as a decision "
    "structure on every byte that occurs in valid UTF-8, equals the UTF-8 lead-byte table, so the two transports deliver the same characters."
    " R5 also: the stdin reader answers None only with nothing collected and only behind the end-of-input edge; token separators are read without assertion code and character-class predicates are reported. R9: a label's offset is parsed with 'sign required' and parse_integer honours it. R10: the argument reader's byte cursor is advanced by byte quantities only. R11: the integer parser uses no wrapping/saturating/overflowing arithmetic. R12: TryParse implementations strip their sigil once (no trim_*_matches). R13: the integer parser and its pre-classifier single out no characters beyond sign, #, radix letters and 0. R5 also: Stream::read and CommandReader::read hand the answer of the transport on unchanged (no Option-shaping call, no None of their own except behind the None of the transport)."
    " R14: behind the no-digit outcome of Radix::parse_digit in the integer parser no branch consults the offending character again (integer or label is decided by sign and prefix alone). R9 also accepts the sign request spelled as a test in front of the call (reached only for an empty text or one that starts with + or -)."
    " R15: the naive type test in front of a typed argument admits exactly the token kinds the parser behind it produces (integer reader: Integer; memory-location reader: one kind per MemoryLocation variant)."
)

NOT_DECIDED = "the value denoted by every spelling of an integer or label (a grammar-level, value-quantified matter); invalid UTF-8 on stdin (outside the quantifier: strings)"

TRY_FROM = "lace::debugger::command::Command::<'a>::try_from"
READ_FROM = "lace::debugger::command::Command::<'a>::read_from"
ARG_READ = "lace::<debugger::command::reader::argument::Argument as debugger::command::reader::Read>::read"
STDIN_READ = "lace::<debugger::command::reader::stdin::Stdin as debugger::command::reader::Read>::read"
CR_READ = "lace::<debugger::command::reader::CommandReader as debugger::command::reader::Read>::read"
NAMES = "lace::debugger::command::parse::name::"
CN = "lace::debugger::command::CommandName"


def entry_names(tab):
    out = []
    for e in tab:
        f = e["fields"]
        out.append((f["name"]["path"].rsplit("::", 1)[1], list(f["candidates"]), list(f["misspellings"])))
    return out


def parse_help(text):
    """rows (name words, alias, [(ARGNAME, optional)], {ARGNAME: kinds}) from the help text's markup"""
    plain = re.sub(r"\{[0-9;]*\}", "", text)
    rows = []
    cur = None
    for line in plain.splitlines():
        m = re.match(r"^    ([a-z][a-z ]*[a-z])\(([a-z]+)\)\s*(.*)$", line)
        if m:
            args = []
            for a in m.group(3).split():
                opt = a.endswith("?")
                args.append((a.rstrip("?"), opt))
            cur = {"name": m.group(1), "alias": m.group(2), "args": args, "kinds": {}}
            rows.append(cur)
            continue
        m = re.match(r"^\s+-\s+([A-Z]+):\s*(.*)$", line)
        if m and cur is not None:
            kinds = re.sub(r"\(default:.*?\)", "", m.group(2)).strip()
            cur["kinds"][m.group(1)] = [k.strip() for k in kinds.split("|")]
    return rows


def run(ctx):
    prog = ctx.prog
    for n in (TRY_FROM, READ_FROM, ARG_READ, STDIN_READ, CR_READ):
        ctx.fn(n)

    # ------------------------------------------------------------------ R1
    run_ledger(ctx, "C14.R1", "closed panic ledger of the command parser and the scripted readers",
               [READ_FROM, ARG_READ, STDIN_READ], stop=[CR_READ], floor=30)

    # the ledger discharges the parser's "there is a first token" expectation by the emptiness test in read_from; that only holds if the
    # test looks at the very string handed to the parser, after trimming
    ctx.rule("C14.R1b", "the line handed to the parser is the trimmed line that was tested for emptiness", floor=1)
    rf_ = ctx.fn(READ_FROM)
    def core_(e):
        while isinstance(e, tuple) and e and e[0] in ("ref", "deref", "cast"):
            e = e[1] if e[0] in ("ref", "deref") else e[3]
        return e
    empt = [core_(rf_.expr(t["args"][0], 10)) for b, t, c in rf_.calls() if c and c.endswith("str>::is_empty")]
    tf_ = [core_(rf_.expr(t["args"][0], 10)) for b, t, c in rf_.calls() if c == TRY_FROM]
    ctx.need(len(empt) == 1 and len(tf_) == 1, "one is_empty test and one try_from call in read_from")
    ctx.instance(1)
    trimmed = empt[0][0] == "call" and str(empt[0][1]).endswith("str>::trim")
    ok = trimmed and empt[0] == tf_[0]
    ctx.oblig(ok, {"tested for emptiness": expr_str(empt[0], 80), "parsed": expr_str(tf_[0], 80)}, "same trimmed value")
    if not ok:
        ctx.violation("empty-test-value", rf_.file_line(), "read_from tests `%s` for emptiness but parses `%s`: a line of blanks passes the test, is trimmed to nothing, and the "
                      "parser's `expect(\"missing command name\")` panics" % (expr_str(empt[0], 80), expr_str(tf_[0], 80)))
    ctx.finish_rule()

    # ------------------------------------------------------------------ R2
    ctx.rule("C14.R2", "parsing a line has no effect: no exit, no output, no state write", floor=1)
    reach = ctx.cg.reachable([TRY_FROM])
    ctx.instance(1, {"functions reachable from the per-line parser": len(reach)})
    for bad, what in (("std::process::exit", "ends the process"), ("std::process::abort", "aborts the process"),
                      ("std::io::stdio::_print", "prints to stdout"), ("std::io::stdio::_eprint", "prints to stderr")):
        for n in sorted(reach):
            f = prog.fns.get(n)
            if f is None or f.bkind != "fn":
                continue
            for b, t, c in f.calls():
                if c != bad:
                    continue
                lits = [g[1] for g in kit.str_eq_guards(prog, f) if f.dominates(g[2], b)]
                ctx.oblig(False)
                ctx.violation("effect|%s|%s%s" % (bad.rsplit("::", 1)[1], short(n), ("|if==%s" % "+".join(sorted(set(lits)))) if lits else ""),
                              sp_file_line(t.get("sp")),
                              "`%s` %s while a command line is being parsed%s: a line must either parse to a command or be rejected with an "
                              "error and have no effect" % (short(n), what, (" (when the command word is %s)" % sorted(set(lits))) if lits else ""))
    # no &mut RunState / &mut Debugger reaches the parser
    for n in sorted(reach):
        f = prog.fns.get(n)
        if f is None or f.bkind != "fn":
            continue
        tys = " ".join(f.d.get("inputs", []))
        bad = "RunState" in tys or "debugger::Debugger" in tys
        ctx.oblig(not bad)
        if bad:
            ctx.violation("state-param|%s" % short(n), f.file_line(), "`%s`, reachable from the line parser, takes machine/debugger state (%s)" % (short(n), tys))
    ctx.finish_rule()

    # ------------------------------------------------------------------ R3
    ctx.rule("C14.R3", "no accepted spelling belongs to two commands", floor=24)
    hir = prog.consts_hir
    for k in ("COMMANDS", "SUBCOMMANDS_STEP", "SUBCOMMANDS_BREAK", "COMMAND_STEP", "COMMAND_BREAK"):
        ctx.need(NAMES + k in hir, "const table %s" % k)
    top = entry_names(hir[NAMES + "COMMANDS"])
    step_words, break_words = hir[NAMES + "COMMAND_STEP"], hir[NAMES + "COMMAND_BREAK"]
    sub_step, sub_break = entry_names(hir[NAMES + "SUBCOMMANDS_STEP"]), entry_names(hir[NAMES + "SUBCOMMANDS_BREAK"])
    nstr = 0

    def check_unique(scope, groups):
        nonlocal nstr
        seen = {}
        for owner, words in groups:
            for w in words:
                nstr += 1
                key = w.lower()
                if key in seen and seen[key] != owner:
                    ctx.oblig(False)
                    ctx.violation("ambiguous|%s|%s" % (scope, key), "src/debugger/command/parse/name.rs",
                                  "in %s the spelling `%s` is accepted for both `%s` and `%s` (the first match silently wins)" % (scope, w, seen[key], owner))
                else:
                    ctx.oblig(True)
                    seen[key] = owner
    check_unique("the top-level table", [(n, c) for n, c, m in top] + [("step…", step_words), ("break…", break_words)])
    check_unique("the step sub-commands", [(n, c) for n, c, m in sub_step])
    check_unique("the break sub-commands", [(n, c) for n, c, m in sub_break])
    ctx.instance(len(top) + len(sub_step) + len(sub_break), {"entries": len(top) + len(sub_step) + len(sub_break), "accepted spellings": nstr})
    # a misspelling that is also an accepted spelling of another command can never trigger its suggestion; harmless, not checked
    # how a typed name is compared with the table: ASCII case-insensitive equality, and nothing else. Unicode case mapping
    # (to_lowercase) both loses table entries that contain capitals (`^C`) and admits look-alikes (KELVIN SIGN -> k).
    reach_p = ctx.cg.reachable([READ_FROM])
    casers = sorted(n for n in reach_p if re.search(r"(str|char|String)>?::(to_lowercase|to_uppercase)$|char::methods::<impl char>::to_(lower|upper)case$", n))
    cmpf = [n for n in reach_p if n in prog.fns and "core::str::<impl str>::eq_ignore_ascii_case" in ctx.cg.callees(n)]
    ctx.instance(1)
    ok = not casers and len(cmpf) >= 1
    ctx.oblig(ok, {"name comparison": [short(n) for n in cmpf], "unicode case mapping on the parser path": casers}, "eq_ignore_ascii_case only")
    if not ok:
        ctx.violation("name-compare", prog.fns[cmpf[0]].file_line() if cmpf else "-",
                      "command names are not compared with str::eq_ignore_ascii_case alone (case-mapping callees on the parser path: %s; comparing functions: %s): "
                      "documented aliases containing capitals stop matching and non-ASCII look-alikes start matching" % (casers or "none", [short(n) for n in cmpf] or "none"))
    for n in cmpf:
        f_ = prog.fns[n]
        other = [short(c) for b, t, c in f_.calls() if c and (c.endswith("PartialEq for str>::eq") or c.endswith("[T]>::contains") or "PartialEq<" in c and "str" in c)]
        ctx.oblig(not other, None)
        if other:
            ctx.violation("name-compare-exact|%s" % short(n), f_.file_line(), "`%s` also compares names case-sensitively (%s)" % (short(n), other))
    ctx.finish_rule()

    # ------------------------------------------------------------------ R4
    ctx.rule("C14.R4", "name tables and argument plans equal the documentation (help.txt)", floor=17)
    help_path = os.path.join(REPO, "src", "debugger", "help.txt")
    ctx.need(os.path.exists(help_path), "src/debugger/help.txt")
    rows = parse_help(open(help_path, encoding="utf-8").read())
    ctx.need(len(rows) >= 17, "documented commands in help.txt (found %d)" % len(rows))
    # Display strings of CommandName
    disp = ctx.fn("lace::<debugger::command::CommandName as core::fmt::Display>::fmt")
    sws = list(kit.discr_switches(disp, CN))
    ctx.need(sws, "match on CommandName in its Display impl")
    vnames = {v["idx"]: v["name"] for v in prog.adt(CN)["variants"]}
    display = {}
    for vi, tb in sws[0][2].items():
        for b in sorted(disp.reachable(tb, avoid={sws[0][0]})):
            t = disp.term(b)
            if t["k"] == "call" and (callee_of(t) or "").endswith("Arguments::<'a>::from_str"):
                s = t["args"][0].get("str")
                if s is not None and vnames[vi] not in display:
                    display[vnames[vi]] = s
    ctx.need(len(display) == len(vnames), "a Display string for each of the %d command names (found %d)" % (len(vnames), len(display)))
    # lookup order is step words, break words, then the top-level table: read off get_command_name's calls
    gcn = ctx.fn(NAMES + "<impl debugger::command::parse::Arguments<'_>>::get_command_name")
    order = []
    for b, t, c in gcn.calls():
        if c and c.endswith("name_matches_with_subcommand"):
            ws = [a.get("uneval", "").rsplit("::", 1)[-1] for a in t["args"] if a.get("k") == "const" and "uneval" in a]
            dflt = expr_str(gcn.expr(t["args"][-1], 4))
            order.append(("sub", ws, "StepOver" if "StepOver" in dflt else None, b))
        elif c and c.endswith("find_name_match"):
            ws = [a.get("uneval", "").rsplit("::", 1)[-1] for a in t["args"] if a.get("k") == "const" and "uneval" in a]
            order.append(("top", ws, None, b))
    ok = [o[1] for o in order] == [["COMMAND_STEP", "SUBCOMMANDS_STEP"], ["COMMAND_BREAK", "SUBCOMMANDS_BREAK"], ["COMMANDS"]] and order[0][2] == "StepOver" \
        and gcn.dominates(order[0][3], order[1][3]) and gcn.dominates(order[1][3], order[2][3])
    ctx.oblig(ok, {"lookup order": [o[1] for o in order], "default of bare `step`": order[0][2] if order else None}, "step words, break words, top-level table")
    if not ok:
        ctx.violation("lookup-order", gcn.file_line(), "get_command_name consults its tables as %s (expected step, break, top-level; bare `step` = StepOver)" % [o[1] for o in order])

    def resolve(words):
        w0 = words[0].lower()
        if w0 in [x.lower() for x in step_words]:
            if len(words) == 1:
                return "StepOver", 1
            for n, c, m in sub_step:
                if words[1].lower() in [x.lower() for x in c]:
                    return n, 2
            return None, 2
        if w0 in [x.lower() for x in break_words]:
            if len(words) == 1:
                return None, 1
            for n, c, m in sub_break:
                if words[1].lower() in [x.lower() for x in c]:
                    return n, 2
            return None, 2
        for n, c, m in top:
            if w0 in [x.lower() for x in c]:
                return n, 1
        return None, 1

    documented = set()
    for r in rows:
        ctx.instance(1)
        for spelling in (r["name"], r["alias"]):
            got, used = resolve(spelling.split())
            ok = got is not None and display.get(got) == r["name"] and used == len(spelling.split())
            ctx.oblig(ok, {"documented": spelling, "resolves to": got, "Display": display.get(got)} if spelling == r["name"] else None, "tables")
            if not ok:
                ctx.violation("doc-name|%s" % spelling, "src/debugger/help.txt",
                              "help.txt documents `%s` for the command `%s`, but the name tables resolve it to %s (Display `%s`)"
                              % (spelling, r["name"], got, display.get(got)))
            if got:
                documented.add(got)
    undocumented = sorted(set(vnames.values()) - documented - {"Echo"})
    ctx.oblig(not undocumented, {"undocumented commands": undocumented}, "only `echo` is undocumented")
    if undocumented:
        ctx.violation("undocumented|%s" % "+".join(undocumented), "src/debugger/help.txt", "commands %s are not documented in help.txt" % undocumented)
    # argument plans
    pa = ctx.fn("lace::debugger::command::Command::<'a>::parse_arguments")
    sws = list(kit.discr_switches(pa, CN))
    ctx.need(sws, "match on CommandName in parse_arguments")
    PLAN = {
        "next_positive_integer_or_default": ("Integer", True),
        "next_integer": ("Integer", False),
        "next_location": ("Register|Address+", False),
        "next_location_or_default": ("Register|Address+", True),
        "next_memory_location": ("Address+", False),
        "next_memory_location_or_default": ("Address+", True),
        "get_rest": ("Rest", False),
    }
    # the match that builds the command (parse_arguments may also match on the name elsewhere, e.g. for an arity table): the one whose arms
    # call the argument readers
    best = None
    for sb, place, targets, oth in sws:
        plans_ = {}
        for vi, tb in targets.items():
            region = kit.dominated_region(pa, tb)
            calls = []
            for b in sorted(region, key=lambda x: (len(pa.dominators()[x]), x)):
                t = pa.term(b)
                if t["k"] == "call":
                    m = (callee_of(t) or "").rsplit("::", 1)[-1]
                    if m in PLAN:
                        calls.append(PLAN[m])
            plans_[vnames[vi]] = calls
        n_ = sum(len(v) for v in plans_.values())
        if best is None or n_ > best[0]:
            best = (n_, plans_)
    plans = best[1]
    for r in rows:
        got, _ = resolve(r["name"].split())
        if got is None:
            continue
        want = []
        for an, opt in r["args"]:
            kinds = r["kinds"].get(an, [])
            if an == "INSTRUCTION":
                want.append(("Rest", opt))
            elif kinds == ["Integer"]:
                want.append(("Integer", opt))
            elif kinds == ["Register", "Address+"]:
                want.append(("Register|Address+", opt))
            elif kinds == ["Address+"]:
                want.append(("Address+", opt))
            else:
                want.append(("?%s" % kinds, opt))
        have = plans.get(got, [])
        ok = have == want
        ctx.oblig(ok, None)
        if not ok:
            ctx.violation("doc-args|%s" % r["name"], "src/debugger/help.txt",
                          "help.txt documents `%s %s` (%s) but the parser reads %s" % (
                              r["name"], " ".join(a + ("?" if o else "") for a, o in r["args"]),
                              [k + ("?" if o else "") for k, o in want], [k + ("?" if o else "") for k, o in have]))
    ctx.finish_rule()

    # ------------------------------------------------------------------ R5
    ctx.rule("C14.R5", "argument and stdin transports split on the same delimiters; argument first, then stream", floor=3)
    CHAR_CLASS = re.compile(r"char::methods::<impl char>::(is_whitespace|is_ascii_whitespace|is_control|is_ascii_control|is_alphanumeric|is_alphabetic|is_ascii_punctuation|is_ascii_graphic|is_numeric)$")

    def char_consts(fname_prefix, classes=None):
        """character constants the function compares its input with (assertions aside); `classes`, if given, collects the character-class
        predicates it calls - a separator decided by a class is not decided by the listed characters"""
        def asserted(x):
            return any("assert" in m_ for m_ in (x.get("mac") or []))
        out = set()
        # the reader itself, its closures, and character predicates it hands to str::find / split / take_while as fn items
        scope = {n for n in prog.fns if n == fname_prefix or n.startswith(fname_prefix + "::{closure")}
        for n in list(scope):
            for b, t, c in prog.fns[n].calls():
                for cl in t["f"].get("closures", []):
                    nm = cl[3:] if cl.startswith("fn:") else cl
                    if nm in prog.fns and prog.fns[nm].d.get("inputs") in (["char"], ["&char"]) and prog.fns[nm].d.get("output") == "bool":
                        scope.add(nm)
        for n, f in prog.fns.items():
            if n in scope:
                if classes is not None:
                    classes |= {short(c).rsplit("::", 1)[-1] for b, t, c in f.calls() if c and CHAR_CLASS.search(c) and not asserted(t)}
                for b, i, s in f.assigns():
                    r = s["r"]
                    if asserted(s):
                        continue
                    if r["k"] == "agg" and r.get("ak") == "array" and r["ops"] and all(o.get("k") == "const" and str(o.get("ty")) == "char" for o in r["ops"]):
                        # `rest.find(['\n', ';'])`: an array of chars used as a pattern matches any of them
                        out |= {const_int(o) for o in r["ops"]}
                    if r["k"] == "bin" and r["op"] in ("Eq", "Ne") and r.get("ty") == "char":
                        for o in (r["a"], r["b"]):
                            if const_int(o) is not None:
                                out.add(const_int(o))
                for b in f.live_blocks():
                    t = f.term(b)
                    if t["k"] == "switch" and t.get("ty") == "char" and not asserted(t):
                        out |= {v for v, x in t["targets"]}
                    if t["k"] == "call" and not asserted(t):
                        # a pattern kept in a named constant (`const DELIMITERS: [char; 2]`), handed to find / split / contains
                        for a_ in t.get("args", []):
                            for x in expr_walk(f.expr(a_, 4)):
                                if x[0] == "uneval" and (len(x) < 3 or x[2] is None) and x[1] in prog.fns and "char" in str(prog.fns[x[1]].d.get("const_ty", "")):
                                    v_ = kit.strip_refs(kit.resolve_promoteds(prog, x))
                                    if v_ and v_[0] == "agg" and v_[1][0] == "array":
                                        out |= {y[1] for y in v_[2] if y[0] == "const" and isinstance(y[1], int)}
                                    elif v_ and v_[0] == "const" and isinstance(v_[1], int):
                                        out.add(v_[1])
        return out
    da, ds = char_consts(ARG_READ), char_consts(STDIN_READ)
    ctx.instance(2, {"argument reader delimiters": sorted(map(chr, da)), "stdin reader delimiters": sorted(map(chr, ds))})
    ok = da == ds == {10, 59}
    ctx.oblig(ok, None)
    if not ok:
        ctx.violation("delimiters", "src/debugger/command/reader", "the argument reader splits on %s, the stdin reader on %s (both must be newline and ';'): "
                      "a script means different things depending on how it arrives" % (sorted(map(chr, da)), sorted(map(chr, ds))))
    ntc = set()
    nt = char_consts("lace::debugger::command::parse::Arguments::<'a>::next_token_str", ntc)
    if ntc:
        ctx.oblig(False, {"token separators": "decided by %s" % sorted(ntc)}, "space, ';', newline only")
        ctx.violation("token-separator-class", "src/debugger/command/parse/mod.rs", "tokens are split with the character class test(s) %s: a tab or another such character now "
                      "ends a token (and whatever follows it is dropped), although only space, ';' and newline separate tokens" % sorted(ntc))
    ok = nt == {32, 59, 10}
    ctx.oblig(ok, {"token separators": sorted(map(repr, map(chr, nt)))}, "space, ';', newline")
    if not ok:
        ctx.violation("token-separators", "src/debugger/command/parse/mod.rs", "tokens are separated on %s (expected space, ';', newline)" % sorted(map(repr, map(chr, nt))))
    # the text between delimiters is returned unchanged: Argument::read returns buffer[start..end], Stdin::read pushes every non-delimiter char
    sr = prog.fns[STDIN_READ]
    pushes = [b for b, t, c in sr.calls() if c and c.endswith("String::push")]
    ok = len(pushes) == 1
    ctx.oblig(ok, {"stdin reader": "one push per non-delimiter character"}, "call structure")
    if not ok:
        ctx.violation("stdin-push", sr.file_line(), "the stdin reader does not copy each non-delimiter character exactly once")
    # end of input: both transports hand out the text before EOF as a last command (the argument reader returns buffer[start..len]);
    # the stdin reader may answer "no more commands" only when it has collected nothing
    ctx.instance(1)
    nones = [b for b, i, s_ in sr.assigns() if s_["p"]["l"] == 0 and not s_["p"].get("pr") and s_["r"]["k"] == "agg"
             and str(s_["r"].get("adt", "")).endswith("option::Option") and s_["r"].get("variant") == "None"]
    empt = []
    for b, t, c in sr.calls():
        if c and c.endswith("::is_empty") and t.get("t") is not None:
            tt = sr.term(t["t"])
            if tt["k"] == "switch":
                tg = {v: x for v, x in tt["targets"]}
                empt.append(tt["otherwise"] if 0 in tg else tg.get(1))
    bad_none = [b for b in nones if not any(e is not None and (e == b or sr.dominates(e, b)) for e in empt)]
    # ... and only at end of input: behind the `None` edge of the character source (an empty command - a blank line, `;;` - is not the end)
    eofs = []
    for b, t, c in sr.calls():
        if c and c.endswith("Stdin::read_char") and t.get("t") is not None:
            sw_ = kit.switch_on_discr_of_local(sr, t["t"])
            tt = sr.term(t["t"])
            if sw_ and tt["k"] == "switch":
                tg = {v: x for v, x in tt["targets"]}
                eofs.append(tg.get(0, tt["otherwise"]))
    bad_eof = [b for b in nones if not any(e == b or sr.dominates(e, b) for e in eofs)]
    ok = bool(nones) and not bad_none and bool(eofs) and not bad_eof
    ctx.oblig(ok, {"stdin reader": "`None` only behind buffer.is_empty() and behind the end of input", "None returns": len(nones)}, "dominance")
    if bool(nones) and not bad_none and (bad_eof or not eofs):
        ctx.violation("stdin-empty-command-is-eof", sp_file_line(sr.stmts(bad_eof[0])[0].get("sp")) if bad_eof and sr.stmts(bad_eof[0]) else sr.file_line(),
                      "the stdin reader can answer `None` (end of commands) without having reached the end of input: an empty command (blank line, `;;`) "
                      "ends the session on standard input, and the rest of the script is left for the program's own input traps")
        ok = True
    if not ok:
        ctx.violation("stdin-eof-drops-text", sp_file_line(sr.stmts(bad_none[0])[0].get("sp")) if bad_none and sr.stmts(bad_none[0]) else sr.file_line(),
                      "the stdin reader can answer `None` (end of commands) although it has collected text: a last command that is not followed by a newline or "
                      "';' is dropped on standard input but executed through --command")
    # ... and the wrappers between the transports and the parser (Stream::read, CommandReader::read) hand the transport's answer on as it is:
    # `None` means end of input there, so an answer that is filtered, or replaced by None for some commands (an empty one, say), ends the session
    wrappers = [n for n in prog.fns if prog.fns[n].bkind == "fn" and re.search(r"(Stream|CommandReader) as debugger::command::reader::Read>::read$", n)]
    ctx.need(len(wrappers) == 2, "the two reader wrappers (Stream::read, CommandReader::read): %s" % [short(w) for w in wrappers])
    for w in sorted(wrappers):
        wf = prog.fns[w]
        ctx.instance(1)
        def from_transport(e):
            return any(x[0] == "call" and (str(x[1]).endswith("Read>::read") or x[1] in (ARG_READ, STDIN_READ)) for x in expr_walk(e))
        shaping = [short(c).rsplit("::", 1)[-1] for b, t, c in wf.calls() if c and re.search(r"Option::<T>::(filter|take_if|and_then|xor|zip|filter_map|take|replace|map_or|is_some_and)$", c)
                   and t.get("args") and from_transport(wf.expr(t["args"][0], 10))]
        own_none = [b for b, i_, s_ in wf.assigns() if s_["p"]["l"] == 0 and not s_["p"].get("pr") and s_["r"]["k"] == "agg"
                    and str(s_["r"].get("adt", "")).endswith("option::Option") and s_["r"].get("variant") == "None"]
        # a None of its own is fine behind the None edge of a transport's own answer (`match inner.read() { Some(c) => Some(c), None => None }`)
        def behind_transport_none(bb):
            for b2, t2, c2 in wf.calls():
                if not (c2 and c2.endswith("Read>::read") or c2 in (ARG_READ, STDIN_READ)) or t2.get("t") is None or t2["dest"].get("pr"):
                    continue
                for sb in sorted(wf.live_blocks()):
                    sd_ = kit.switch_on_discr_of_local(wf, sb)
                    tt_ = wf.term(sb)
                    if sd_ and tt_["k"] == "switch" and sd_[0].get("l") == t2["dest"]["l"] and not sd_[0].get("pr"):
                        nt_ = {v: x for v, x in tt_["targets"]}.get(0, tt_["otherwise"] if 1 in {v for v, x in tt_["targets"]} else None)
                        if nt_ is not None and (nt_ == bb or wf.dominates(nt_, bb)):
                            return True
            return False
        own_none = [b for b in own_none if not behind_transport_none(b)]
        okw = not shaping and not own_none
        ctx.oblig(okw, {"wrapper": short(w), "answers": "handed on unchanged"}, "no Option-shaping call, no None of its own")
        if not okw:
            ctx.violation("reader-wrapper-drops|%s" % short(w), wf.file_line(),
                          "`%s` does not hand the transport's answer on as it is (%s): a command it turns into `None` reads as end of input and ends the session on "
                          "that transport only" % (short(w), ("calls Option::%s on it" % ", ".join(shaping)) if shaping else "stores a None of its own"))
    # combined reader: argument first
    cr = prog.fns[CR_READ]
    # the argument is read by a direct call, or by handing Argument::read to `and_then` on the optional argument
    ab = [b for b, t, c in cr.calls() if c == ARG_READ or (c and c.endswith("Option::<T>::and_then") and any(a_.get("k") == "const" and (a_.get("resolved") or a_.get("fn_full")) == ARG_READ for a_ in t["args"]))]
    sb2 = [b for b, t, c in cr.calls() if c and c.endswith("Stream as debugger::command::reader::Read>::read")]
    ctx.instance(1)
    ok = len(ab) == 1 and len(sb2) == 1
    if ok:
        # the stream is read only if the argument is None (argument absent) or its read returned None (exhausted)
        some_ret = kit.ok_target_of_call(cr, ab[0])
        ok = some_ret is not None and sb2[0] not in cr.reachable(some_ret)
    ctx.oblig(ok, {"CommandReader::read": "stream consulted only when the argument is absent or exhausted"}, "reachability from the Some edge")
    if not ok:
        ctx.violation("reader-order", cr.file_line(), "CommandReader::read can consult the stream although the argument still had a command (or never reads the argument)")
    ctx.finish_rule()

    # ------------------------------------------------------------------ R6
    ctx.rule("C14.R6", "integer ranges of value, address and offset arguments", floor=3)
    INT = "lace::debugger::command::parse::integer::Integer::"
    for meth, target in (("as_u16", "u16"), ("as_i16", "i16")):
        f = ctx.fn(INT + meth)
        conv = [c for b, t, c in f.calls() if c and "TryInto<" in c or (c and c.endswith("try_into"))]
        tys = [t["f"].get("targs", []) for b, t, c in f.calls() if c and c.endswith("try_into")]
        # `u16::try_from(value)` is the same checked conversion spelled from the target's side
        tys += [[m_.group(1)] for b, t, c in f.calls() for m_ in [re.search(r"TryFrom<\w+> for (\w+)>::try_from$", c or "")] if m_]
        ok = any(target in tt for tt in tys)
        ctx.instance(1)
        ctx.oblig(ok, {meth: "try_into::<%s>" % target}, "checked conversion")
        if not ok:
            ctx.violation("conv|%s" % meth, f.file_line(), "Integer::%s does not use a checked conversion to %s (%s)" % (meth, target, tys))
    f = ctx.fn(INT + "as_u16_cast")
    tree = formula.decision(f)
    conds = [expr_str(c) for c in formula.tree_conditions(tree)]
    cal = [short(c).rsplit("::", 1)[-1] for b, t, c in f.calls() if c and c.startswith(INT)]
    ok = any("< 0" in c.replace("0x0", "0") for c in conds) and set(cal) == {"as_i16", "as_u16"}
    if not ok and set(cal) == {"as_i16", "as_u16"}:
        # the same decision written the other way round (`if value >= 0 { return as_u16 } ..`): evaluated around every boundary
        def fits(v_, lo_, hi_):
            return ("variant", "Ok", "core::result::Result", (v_,)) if lo_ <= v_ <= hi_ else ("variant", "Err", "core::result::Result", (("variant", "IntegerTooLarge", "E", ()),))
        ok = True
        for v6 in (-(1 << 31), -40000, -32769, -32768, -32767, -2, -1, 0, 1, 2, 32767, 32768, 65535, 65536, 70000, (1 << 31) - 1):
            def sub6(e, _v=v6):
                if e[0] == "call" and str(e[1]).endswith("Deref>::deref") and len(e[2]) == 1 and kit.strip_refs(e[2][0])[:2] == ("arg", 1):
                    return _v
                if e[0] == "field" and str(e[2]) == "0" and kit.strip_refs(e[1])[:2] == ("arg", 1):
                    return _v
                return None
            env6 = {"subst": sub6, "prog": prog, "calls": {"Integer::as_i16": (lambda *a, _v=v6: fits(_v, -32768, 32767)), "Integer::as_u16": (lambda *a, _v=v6: fits(_v, 0, 65535))}}
            try:
                lab6 = formula.eval_decision(tree, env6)
                if isinstance(lab6, tuple) and lab6 and lab6[0] == "call" and str(lab6[1]).endswith("::from_residual"):
                    got6 = ("variant", "Err")
                else:
                    got6 = formula.evaluate(lab6, env6) if lab6 is not None else None
            except (formula.Unknown, formula.Overflow):
                ok = False
                break
            want6 = ("Ok", v6 & 0xFFFF) if -32768 <= v6 <= 65535 else ("Err", None)
            g6 = (got6[1], got6[3][0] if got6[1] == "Ok" and len(got6) > 3 else None) if isinstance(got6, tuple) and len(got6) >= 2 else None
            if g6 != want6:
                ok = False
                break
    ctx.instance(1)
    ctx.oblig(ok, {"as_u16_cast": conds, "uses": cal}, "negative -> as_i16 as u16, else as_u16")
    if not ok:
        ctx.violation("conv|as_u16_cast", f.file_line(), "Integer::as_u16_cast is not `if value < 0 { as_i16 as u16 } else { as_u16 }` (conditions %s, calls %s)" % (conds, cal))
    # which conversion each argument kind uses
    uses = {
        "lace::debugger::command::parse::Arguments::<'a>::next_integer_or": "as_u16_cast",
        "lace::<debugger::command::MemoryLocation<'a> as debugger::command::parse::TryParse<'a>>::try_parse": "as_u16",
        "lace::<debugger::command::parse::PCOffset as debugger::command::parse::TryParse<'a>>::try_parse": "as_i16",
        "lace::debugger::command::parse::label::<impl debugger::command::parse::TryParse<'a> for debugger::command::Label<'a>>::try_parse": "as_i16",
    }
    for fn_name, want in uses.items():
        f = ctx.fn(fn_name)
        cal = {short(c).rsplit("::", 1)[-1] for b, t, c in f.calls() if c and c.startswith(INT) and "as_" in c}
        ok = cal == {want}
        ctx.oblig(ok, {short(fn_name).rsplit("::", 2)[-2][:40]: sorted(cal)}, want)
        if not ok:
            ctx.violation("conv-use|%s" % short(fn_name), f.file_line(), "`%s` converts its integer with %s (expected %s)" % (short(fn_name), sorted(cal), want))
    ctx.finish_rule()

    # ------------------------------------------------------------------ R7
    ctx.rule("C14.R7", "the argument classifier and the integer parser read the same integer alphabet (signs, radix letters, first characters)", floor=4)
    PI = "lace::debugger::command::parse::integer::"
    NAIVE = "lace::debugger::command::parse::naive::NaiveType::is_str_integer"
    RADIX = "debugger::command::parse::integer::Radix"
    DOMAIN = list(range(0, 0x300)) + [0x20AC, 0xFF10, 0x1F600]
    nv, tsg, tpf, pdg = ctx.fn(NAIVE), ctx.fn(PI + "take_sign"), ctx.fn(PI + "take_prefix"), ctx.fn(PI + "Radix::parse_digit")

    def char_switches(f):
        for b in sorted(f.live_blocks()):
            t = f.term(b)
            if t["k"] == "switch" and len(t["targets"]) >= 2 and all(isinstance(v, int) and 9 <= v < 0x110000 for v, x in t["targets"]):
                e = f.expr(t["a"], 6)
                if e[0] != "discr":
                    yield b, t

    def first_agg(f, b, adt_suffix, limit=4):
        """variant of the first aggregate of the given ADT built in b or the straight-line blocks after it"""
        for _ in range(limit):
            for s_ in f.stmts(b):
                if s_["k"] == "assign" and s_["r"]["k"] == "agg" and str(s_["r"].get("adt", "")).endswith(adt_suffix):
                    return s_["r"].get("variant")
            t = f.term(b)
            if t["k"] != "goto":
                return None
            b = t["t"]
        return None

    def pred_set(fname):
        f = ctx.fn(fname)
        tree = formula.decision(f)
        out = set()
        for c in DOMAIN:
            lab = formula.eval_decision(tree, {"args": {2: c, "ch": c}})
            v = formula.evaluate(lab, {"args": {2: c, "ch": c}}) if lab is not None else None
            if v in (1, True):
                out.add(c)
        return out

    def radix_map(f):
        m = {}
        for b, t in char_switches(f):
            for v, x in t["targets"]:
                r = first_agg(f, x, "integer::Radix")
                if r:
                    m[v] = r
        return m

    def show(cs):
        return "".join(chr(c) for c in sorted(cs)) if all(32 < c < 127 for c in cs) else sorted(cs)

    # (a) sign alphabet
    sign_parser = {}
    for b, t in char_switches(tsg):
        for v, x in t["targets"]:
            r = first_agg(tsg, x, "integer::Sign")
            if r:
                sign_parser[v] = r
    ctx.need(sign_parser, "sign characters in take_sign")
    sign_naive = None
    for b, t, c in nv.calls():
        if c and c.endswith("Peekable::<I>::next_if"):
            cl = [x for x in t["f"].get("closures", []) if not x.startswith("fn:")]
            ctx.need(len(cl) == 1, "predicate closure of next_if in the classifier")
            sign_naive = pred_set(cl[0])
        elif c and c.endswith("Peekable::<I>::next_if_eq"):
            e = nv.expr(t["args"][1], 6)
            ks = [x[1] for x in expr_walk(e) if x[0] == "const" and isinstance(x[1], int)]
            for x in expr_walk(e):
                if x[0] == "uneval" and len(x) > 2:      # `&'-'` is a promoted constant: read its body
                    pf = prog.fns.get("%s::promoted[%s]" % (x[1], x[2]))
                    if pf is not None:
                        ks += [const_int(s_["r"]["a"]) for b_, i_, s_ in pf.assigns() if s_["r"]["k"] == "use" and const_int(s_["r"]["a"]) is not None]
            ctx.need(ks, "character compared by next_if_eq in the classifier")
            sign_naive = set(ks[:1])
    ctx.instance(1)
    ok = sign_naive is not None and sign_naive == set(sign_parser)
    ctx.oblig(ok, {"sign after the radix prefix": {"classifier": show(sign_naive or []), "parser": show(sign_parser)}}, "equal sets")
    if not ok:
        ctx.violation("sign-alphabet", nv.file_line(), "after a radix prefix the classifier skips a sign from %s, the integer parser accepts %s: a spelling the parser "
                      "documents (x+4) is classified as a label and rejected where an integer is required" % (show(sign_naive or []), show(sign_parser)))
    # (b) radix letters
    rm_n, rm_p = radix_map(nv), radix_map(tpf)
    ctx.instance(1)
    ok = bool(rm_n) and rm_n == rm_p
    ctx.oblig(ok, {"radix letters": {chr(k): v for k, v in sorted(rm_n.items())}}, "classifier == take_prefix")
    if not ok:
        ctx.violation("radix-letters", nv.file_line(), "the classifier maps prefix letters %s, take_prefix maps %s" % ({chr(k): v for k, v in sorted(rm_n.items())}, {chr(k): v for k, v in sorted(rm_p.items())}))
    # (c) both use the same digit function
    ctx.instance(1)
    def own_callees(n_):
        # the function and the closures written inside it (`chars.all(|ch| radix.parse_digit(ch).is_some())`)
        out_ = set(ctx.cg.callees(n_))
        for m_ in prog.fns:
            if m_.startswith(n_ + "::{closure"):
                out_ |= set(ctx.cg.callees(m_))
        return out_
    ok = pdg.name in own_callees(NAIVE) and pdg.name in own_callees(PI + "parse_integer")
    ctx.oblig(ok, {"digits": "Radix::parse_digit on both sides"}, "shared callee")
    if not ok:
        ctx.violation("digit-function", nv.file_line(), "the classifier and the integer parser do not share Radix::parse_digit")
    # (d) "certainly an integer" first characters = signs + the other non-letter prefix characters + decimal digits
    first = None
    for b, t, c in nv.calls():
        if c and c.endswith("Option::<T>::is_some_and") and first is None:
            cl = [x for x in t["f"].get("closures", []) if not x.startswith("fn:")]
            if cl:
                first = pred_set(cl[0])
    vidx = {v["name"]: v.get("discr", v["idx"]) for v in prog.adt("lace::" + RADIX)["variants"]} if prog.adt("lace::" + RADIX) else {}
    ptree = formula.decision(pdg)
    dec = set()
    for c in DOMAIN:
        def of_self(e):
            x = e[1] if len(e) > 1 and isinstance(e[1], tuple) else ("unknown",)
            while x[0] in ("ref", "deref", "copy"):
                x = x[1]
            return x[0] == "arg" and x[1] == 1
        env = {"args": {2: c, "ch": c}, "subst": (lambda e: vidx.get("Decimal") if e[0] == "discr" and of_self(e) else None)}
        try:
            lab = formula.eval_decision(ptree, env)
        except formula.Unknown:
            lab = None
        var_ = formula.label_variant(lab)
        if var_ is None and lab is not None:
            # the answer is computed by std (`ch.to_digit(radix).map(..)`): evaluate it with the trusted summaries
            try:
                v_ = formula.evaluate(lab, env)
                var_ = v_[1] if isinstance(v_, tuple) and v_[:1] == ("variant",) else None
            except (formula.Unknown, formula.Overflow):
                var_ = None
        if var_ == "Some":
            dec.add(c)
    others = set()
    for b, t in char_switches(tpf):
        others |= {v for v, x in t["targets"] if v not in rm_p}
    want_first = set(sign_parser) | others | dec
    ctx.instance(1)
    ok = first is not None and first == want_first and len(dec) == 10
    ctx.oblig(ok, {"first characters that force 'integer'": show(first or [])}, "signs + '#' + decimal digits")
    if not ok:
        ctx.violation("first-alphabet", nv.file_line(), "the classifier treats %s as the start of an integer; the parser's alphabet is %s" % (show(first or []), show(want_first)))
    ctx.finish_rule()

    # ------------------------------------------------------------------ R8
    ctx.rule("C14.R8", "the stdin reader's byte classifier is the UTF-8 lead-byte table (every character of a script line is reassembled)", floor=2)
    U8 = "lace::debugger::command::reader::stdin::Utf8Position"
    uf, ul = ctx.fn(U8 + "::from"), ctx.fn(U8 + "::len")
    adt = prog.adt(U8)
    ctx.need(adt, "enum Utf8Position")
    names = {v.get("discr", v["idx"]): v["name"] for v in adt["variants"]}
    ltree = formula.decision(ul)
    length = {}
    for idx, nm_ in names.items():
        lab = formula.eval_decision(ltree, {"subst": (lambda e, idx=idx: idx if e[0] == "discr" else None)})
        length[nm_] = formula.evaluate(lab[2][0], {}) if formula.label_variant(lab) == "Some" else None
    ftree = formula.decision(uf)
    bad = []
    nbytes = 0
    for byte in range(256):
        want = 1 if byte < 0x80 else None if byte < 0xC0 else 2 if byte < 0xE0 else 3 if byte < 0xF0 else 4
        if byte in (0xC0, 0xC1) or byte > 0xF4:
            continue      # never occur in valid UTF-8: outside the property's quantifier (strings)
        nbytes += 1
        lab = formula.eval_decision(ftree, {"args": {1: byte, "byte": byte}})
        got = length.get(formula.label_variant(lab), "?")
        if got != want:
            bad.append((byte, formula.label_variant(lab), got, want))
    ctx.instance(nbytes)
    ctx.oblig(not bad, {"bytes classified": nbytes, "lengths": length}, "0xxxxxxx=1, 10xxxxxx=continuation, 110xxxxx=2, 1110xxxx=3, 11110xxx=4")
    if bad:
        b0 = bad[0]
        ctx.violation("utf8-table", uf.file_line(), "byte 0x%02X is classified %s (sequence length %s), UTF-8 says %s; %d byte value(s) differ: a script line containing such a "
                      "character panics or is mangled on stdin but not through --command" % (b0[0], b0[1], b0[2], b0[3] if b0[3] else "continuation", len(bad)))
    # the reassembled bytes are decoded by the standard decoder, and a continuation test guards every following byte
    rc = ctx.fn("lace::debugger::command::reader::stdin::read_char_from_bytes")
    ok = any(c and c.endswith("str::converts::from_utf8") for b, t, c in rc.calls()) and any(c == U8 + "::is_continuation" for b, t, c in rc.calls())
    ctx.instance(1)
    ctx.oblig(ok, {"decoder": "core::str::from_utf8 + is_continuation per following byte"}, "callees")
    if not ok:
        ctx.violation("utf8-decoder", rc.file_line(), "read_char_from_bytes no longer decodes with str::from_utf8 / checks continuation bytes")
    ctx.finish_rule()

    # ------------------------------------------------------------------ R9
    # `label+offset` / `label-offset`: what follows the name must start with the sign, otherwise `hw#1` or `hwx1`-like tails would be a
    # second spelling of `hw+1`. The label parser therefore reaches the integer parser only with "sign required", and the integer
    # parser honours that request.
    ctx.rule("C14.R9", "a label's offset is parsed with a mandatory leading sign", floor=2)
    PINT = PI + "parse_integer"
    pint = ctx.fn(PINT)
    LBL = [n for n in prog.fns if prog.fns[n].bkind == "fn" and n.endswith("::try_parse") and "TryParse" in n and "command::Label<" in n]
    ctx.need(len(LBL) == 1, "the label argument parser (TryParse for Label)")
    lf = prog.fns[LBL[0]]

    def _sign_guard(f, cb, ct):
        """the call hands parse_integer a text that was first tested: it is reached only when the text is empty (parse_integer answers
        "no integer" itself) or starts with + or -; the other outcome of the starts_with test never reaches the call"""
        root = kit.strip_refs(f.expr(ct["args"][0], 6))
        sw_blocks = []
        for b2, t2, c2 in f.calls():
            if not (c2 and c2.endswith("<impl str>::starts_with") and len(t2["args"]) == 2 and kit.strip_refs(f.expr(t2["args"][0], 6)) == root):
                continue
            pat = kit.resolve_promoteds(prog, f.expr(t2["args"][1], 6))
            chars_ = sorted(x[1] for x in expr_walk(pat) if x[0] == "const" and isinstance(x[1], int))
            if chars_ != [43, 45] or t2.get("t") is None:
                continue
            st = f.term(t2["t"])
            if st["k"] != "switch" or op_local(st["a"]) != t2["dest"]["l"]:
                continue
            tg_ = {v: x for v, x in st["targets"]}
            f_edge = tg_.get(0)
            if f_edge is None or cb in f.reachable(f_edge):
                continue
            sw_blocks.append(b2)
        if not sw_blocks:
            return False
        # every other way to the call goes over the "is empty" outcome of a test of the same text
        skip_edges = set()
        for b2, t2, c2 in f.calls():
            if c2 and c2.endswith("<impl str>::is_empty") and kit.strip_refs(f.expr(t2["args"][0], 6)) == root and t2.get("t") is not None:
                st = f.term(t2["t"])
                if st["k"] == "switch" and op_local(st["a"]) == t2["dest"]["l"]:
                    tg_ = {v: x for v, x in st["targets"]}
                    skip_edges.add((t2["t"], st["otherwise"] if 0 in tg_ else tg_.get(1)))
        seen_, todo_ = set(), [0]
        while todo_:
            x = todo_.pop()
            if x in seen_ or x in sw_blocks:
                continue
            seen_.add(x)
            todo_ += [y for y in f.succ_map()[x] if (x, y) not in skip_edges]
        return cb not in seen_

    def sign_args(f, depth=0):
        """values of parse_integer's `require_sign` on every route from f: list of (site, const or None)"""
        out = []
        for b, t, c in f.calls():
            if c == PINT:
                a = f.expr(t["args"][1], 8) if len(t["args"]) > 1 else ("unknown", "?")
                if len(t["args"]) == 1 and _sign_guard(f, b, t):
                    a = ("const", 1)          # the request is spelled as a test in front of the call
                out.append((sp_file_line(t.get("sp")), a[1] if a[0] == "const" else None))
            elif c in prog.fns and c != f.name and depth < 3 and PINT in ctx.cg.reachable([c]):
                sub = sign_args(prog.fns[c], depth + 1)
                out.extend((sp_file_line(t.get("sp")) + " via " + short(c), v) for _, v in sub)
        return out

    routes = sign_args(lf)
    ctx.need(routes, "a call from the label parser that reaches parse_integer")
    for where, v in routes:
        ctx.instance(1)
        ok = v == 1
        ctx.oblig(ok, {"label offset parsed at": where, "require_sign": v}, "constant true")
        if not ok:
            ctx.violation("label-offset-sign", where.split(" via ")[0],
                          "the label parser hands the text after the name to the integer parser with require_sign = %s (at %s): a tail that does not start "
                          "with + or - (`hw#1`, `hw#-1`) is then accepted as an offset, a second spelling the documented grammar does not have"
                          % ("false" if v == 0 else "unknown", where))
    # parse_integer: when the sign is required and none was taken, the only way on is the error exit
    ctx.instance(1)
    sw = [b for b in sorted(pint.live_blocks()) if pint.term(b)["k"] == "switch"
          and any(x[0] == "arg" and x[1] == 2 for x in expr_walk(pint.expr(pint.term(b)["a"], 4)))]
    ok = False
    if sw:
        t = pint.term(sw[0])
        tg = {v: x for v, x in t["targets"]}
        t_false = tg.get(0, t["otherwise"])
        t_true = t["otherwise"] if 0 in tg else tg.get(1)
        errb = kit.error_blocks(pint)
        side = pint.reachable(t_true, avoid={t_false}) if t_true is not None else set()
        reads_sign = any(c and (c.endswith("::is_none") or c.endswith("::is_some")) for b in side for bb, tt, c in [(b, pint.term(b), callee_of(pint.term(b)) if pint.term(b)["k"] == "call" else None)]) \
            or any(pint.term(b)["k"] == "switch" and pint.expr(pint.term(b)["a"], 4)[0] == "discr" for b in side)
        ok = bool(side & errb) and reads_sign and not any(pint.term(b)["k"] == "call" and str(callee_of(pint.term(b))).endswith("take_prefix") for b in side)
    if not sw and pint.arg_count == 1 and routes and all(v == 1 for _, v in routes):
        ok = True          # no request parameter: the test stands in front of the call on the label route (decided above, site by site)
    ctx.oblig(ok, {"parse_integer": "require_sign && no sign -> Err before the prefix is read"}, "error exit on the required-sign side")
    if not ok:
        ctx.violation("require-sign-honoured", pint.file_line(), "parse_integer no longer rejects a missing sign when one is required (before reading the prefix)")
    ctx.finish_rule()

    # ------------------------------------------------------------------ R10
    # the --command splitter keeps a *byte* cursor into the script (it slices the String with it); whatever is added to it must be a
    # byte quantity (len_utf8, find, len, the one-byte delimiter) - a character count cuts commands short as soon as a multi-byte
    # character occurs, and the stdin transport (which collects chars) then disagrees with it
    from ..dim import Dim
    ctx.rule("C14.R10", "the argument reader advances its byte cursor by byte quantities only", floor=1)
    ar = ctx.fn(ARG_READ)
    slicers = set()
    for b, t, c in ar.calls():
        if c and (c.endswith("::index") or c.endswith("str>::get") or c.endswith("String::get") or c.endswith("::get")) and "str" in " ".join(t.get("arg_tys") or []).lower():
            for a in t["args"][1:]:
                for x in expr_walk(ar.expr(a, 8, stop={"named"})):
                    if x[0] == "field":
                        slicers.add(x[2])
                    if x[0] == "local":
                        sd = ar.single_def(x[1])
                        if sd and sd[0] == "stmt":
                            for y in expr_walk(ar.rvalue_expr(sd[3]["r"], 6, stop={"named"})):
                                if y[0] == "field":
                                    slicers.add(y[2])
    adt_fields = {f_["name"] for v in (prog.adts.get("lace::debugger::command::reader::argument::Argument", {}).get("variants") or [{}]) for f_ in v.get("fields", [])}
    bytecur = sorted(x for x in slicers if (x in adt_fields or not adt_fields) and x not in ("buffer",))
    ctx.need(len(bytecur) == 1, "the byte cursor of the argument reader (the usize field its slices start at): %s" % bytecur)
    D14 = Dim(ctx, byte_fields={bytecur[0]})
    for b, i, s_ in ar.assigns():
        fl = [e_.get("n") for e_ in s_["p"].get("pr", []) if isinstance(e_, dict) and "f" in e_]
        if fl and fl[-1] == bytecur[0]:
            e = ar.rvalue_expr(s_["r"], 10, stop={"named"})
            d = D14.dim(ar, e)
            ctx.instance(1)
            ok = d in ("B", "K")
            ctx.oblig(ok, {"cursor :=": expr_str(e, 80), "dimension": d, "at": sp_file_line(s_.get("sp"))}, "bytes / constant")
            if not ok:
                ctx.violation("argcursor-dim", sp_file_line(s_.get("sp")),
                              "the argument reader's byte cursor is assigned `%s`, whose dimension is %s (%s): a command containing a multi-byte character is cut "
                              "short and its tail is run as a command of its own, which does not happen on standard input"
                              % (expr_str(e, 80), d, {"C": "a character count", "MIX": "bytes mixed with characters", "U": "unclassified"}.get(d, d)))
    ctx.finish_rule()

    # ------------------------------------------------------------------ R11
    # the value of a literal is the mathematical value of its digits or the literal is rejected: the accumulator of the digit loop must
    # not wrap, saturate or drop an overflow flag (a value of 2^32 or more would come back as a small number and pass every range check)
    ctx.rule("C14.R11", "the integer parser accumulates exactly (checked arithmetic only)", floor=1)
    LOSSY = re.compile(r"core::num::<impl [iu](8|16|32|64|128|size)>::(wrapping_|saturating_|overflowing_|unchecked_)(add|sub|mul|shl|neg|pow)$")
    scope11 = {n for n in ctx.cg.reachable([PINT]) | {PINT} if n in prog.fns and prog.fns[n].bkind == "fn" and n.startswith(PI)}
    ctx.instance(len(scope11))
    lossy = [(n, t, c) for n in sorted(scope11) for b, t, c in prog.fns[n].calls() if c and LOSSY.search(c)]
    ctx.oblig(not lossy, {"functions of the integer parser": sorted(short(n) for n in scope11), "lossy operations": [short(c) for n, t, c in lossy]}, "none")
    for n, t, c in lossy:
        ctx.violation("lossy-accumulate|%s" % short(c).rsplit("::", 1)[-1], sp_file_line(t.get("sp")),
                      "`%s` uses `%s`: a literal too large for the accumulator no longer fails, it comes back reduced modulo 2^32 (or clamped) and can pass the "
                      "range checks that follow" % (short(n), short(c).rsplit("::", 1)[-1]))
    ctx.finish_rule()

    # ------------------------------------------------------------------ R12
    # every sigil of the argument grammar occurs once (`^` before a PC offset, one sign, one radix prefix): a parser that strips its sigil
    # with a repeat-stripping primitive accepts `^^1`, `--3`, ... as further spellings of `^1`, `-3`
    ctx.rule("C14.R12", "argument parsers strip their sigils once, not repeatedly", floor=3)
    PARSE = "lace::debugger::command::parse::"
    REPEAT = re.compile(r"core::str::<impl str>::(trim_start_matches|trim_end_matches|trim_matches|trim_left_matches|trim_right_matches)$")
    scope12 = sorted(n for n in prog.fns if prog.fns[n].bkind == "fn" and "debugger::command::parse::" in n and n.startswith("lace::")
                     and (("TryParse" in n and n.endswith("::try_parse")) or n.startswith(PI)) and "{closure" not in n)
    ctx.need(len(scope12) >= 3, "the TryParse implementations and the integer parser (found %d)" % len(scope12))
    for n in scope12:
        f = prog.fns[n]
        ctx.instance(1)
        rep = [(t, c) for b, t, c in f.calls() if c and REPEAT.search(c)]
        ctx.oblig(not rep, None)
        for t, c in rep:
            ctx.violation("repeated-sigil|%s" % short(n), sp_file_line(t.get("sp")),
                          "`%s` strips its prefix with `%s`, which removes every repetition of it: `^^1` (or a doubled sign/prefix) is then accepted as a "
                          "second spelling the grammar does not have" % (short(n), short(c).rsplit("::", 1)[-1]))
    ctx.finish_rule()

    # ------------------------------------------------------------------ R13
    # the characters the integer syntax knows besides digits: signs, `#`, the radix letters in both cases, and the lone/leading zero. Anything
    # else that the integer parser or its pre-classifier treat specially (a digit separator, say) makes some label a number: the
    # debugger tries a location as an integer before it looks it up as a label, while the assembler's lexer falls back to "label"
    ctx.rule("C14.R13", "the integer syntax has no special characters beyond sign, #, radix letters and 0", floor=2)
    WANT13 = set(map(ord, "+-#xXoObB0"))
    for fname in (PINT, PI + "take_sign", PI + "take_prefix", NAIVE):
        f = ctx.fn(fname)
        got13 = char_consts(fname)
        ctx.instance(1)
        extra = sorted(chr(c) for c in got13 - WANT13 if not chr(c).isalnum())
        ctx.oblig(not extra, {"characters singled out by": short(fname), "set": sorted(map(chr, got13))}, "subset of + - # x X o O b B 0 (and digits/letters of the radix alphabets)")
        if extra:
            ctx.violation("integer-extra-char|%s" % short(fname), f.file_line(),
                          "`%s` gives the character(s) %s a meaning inside integers: a label such as `x_1` (which the assembler accepts) is then read as the "
                          "number 1 wherever a location is expected, and its word can no longer be named" % (short(fname), extra))
    ctx.finish_rule()

    # ------------------------------------------------------------------ R14
    # "not a digit" ends the integer the same way whatever the character is: whether the token is a malformed integer or may still be a
    # label depends on its sign and prefix only (`b1+1`, `x1g` go on to the label parser; `-x1g`, `#1g`, `01g` are malformed integers).
    # Behind the no-digit outcome of Radix::parse_digit no branch consults the offending character again.
    ctx.rule("C14.R14", "what follows the digits of an integer does not decide whether the token is an integer", floor=1)
    nd14 = 0
    for b, t, c in pint.calls():
        if c != pdg.name or t.get("t") is None:
            continue
        sw = pint.term(t["t"])
        swd = kit.switch_on_discr_of_local(pint, t["t"])
        if sw["k"] != "switch" or not swd:
            continue
        tg14 = {v: x for v, x in sw["targets"]}
        none_t = tg14.get(0, sw["otherwise"] if 1 in tg14 else None)
        if none_t is None:
            continue
        nd14 += 1
        ctx.instance(1)
        ch_e = kit.strip_refs(pint.expr(t["args"][1], 8, stop={"named"})) if len(t["args"]) > 1 else None
        heads14 = set(kit.loops(pint))
        region = pint.reachable(none_t, avoid=heads14)
        bad14 = None
        for bb in sorted(region):
            tt = pint.term(bb)
            cond = None
            if tt["k"] == "switch":
                cond = pint.expr(tt["a"], 10, stop={"named"})
            if cond is not None and ch_e is not None and any(x == ch_e for x in expr_walk(cond)):
                bad14 = (bb, cond)
                break
        ctx.oblig(bad14 is None, {"no-digit outcome": "decided without looking at the character again"}, "no branch on the character behind parse_digit -> None")
        if bad14:
            ctx.violation("non-digit-decides", sp_file_line(pint.term(bad14[0]).get("sp")),
                          "behind `parse_digit(ch) == None` the integer parser branches on `%s`: whether a token such as `b1+1` is handed on to the label parser then "
                          "depends on the character after the digits, and `label+offset` stops working for labels that look like a prefixed integer" % expr_str(bad14[1], 80))
    ctx.need(nd14 >= 1, "the digit test of the integer parser (parse_digit with its None outcome)")
    ctx.finish_rule()

    # ------------------------------------------------------------------ R15
    # the quick type test in front of a typed argument admits exactly the kinds of token the parser behind it can produce: an integer reader
    # admits integers, a memory-location reader one kind per variant of MemoryLocation (Address = integer, PCOffset, Label). A kind admitted
    # beyond that (a register where only memory can be named) turns `goto r3` into a label lookup, i.e. gives the register spelling a
    # second reading in some commands
    ctx.rule("C14.R15", "the naive type test admits exactly the token kinds the argument parser produces", floor=2)
    NT = "lace::debugger::command::parse::naive::NaiveType"
    ML = "lace::debugger::command::MemoryLocation"
    KIND_OF = {"Address": "Integer", "PCOffset": "PCOffset", "Label": "Label", "Register": "Register"}
    n15 = 0
    for n, f in sorted(prog.fns.items()):
        if f.bkind != "fn" or not n.startswith("lace::debugger::command::parse::"):
            continue
        for b, t, c in f.calls():
            if not (c and c.endswith("::check_naive_type")) or not t.get("args"):
                continue
            acc = kit.resolve_promoteds(prog, f.expr(t["args"][0], 8))
            got15 = sorted({x[1][2] for x in expr_walk(acc) if x[0] == "agg" and x[1][0] == "adt" and x[1][1] == NT})
            parsers = {c2 for b2, t2, c2 in f.calls() if c2 and (c2.endswith("::try_parse") or c2.endswith("try_parse_signed"))}
            want15 = None
            out15 = str(f.d.get("output", ""))
            # what the reader hands back says which parser stands behind it (also where the call goes through a generic helper)
            if "MemoryLocation" in out15 and prog.adt(ML):
                want15 = sorted({KIND_OF.get(v["name"], v["name"]) for v in prog.adt(ML)["variants"]})
            elif re.search(r"Result<([ui](8|16|32|64)|[\w:]*Integer)\b", out15):
                want15 = ["Integer"]
            elif any("MemoryLocation" in p_ for p_ in parsers) and prog.adt(ML):
                want15 = sorted({KIND_OF.get(v["name"], v["name"]) for v in prog.adt(ML)["variants"]})
            elif any("Integer" in p_ for p_ in parsers):
                want15 = ["Integer"]
            n15 += 1
            ctx.instance(1)
            ok = want15 is not None and got15 == want15
            ctx.oblig(ok, {"reader": short(n), "admits": got15, "parser produces": want15}, "equal sets")
            if not ok:
                ctx.violation("naive-kinds|%s" % short(n).rsplit("::", 1)[-1], sp_file_line(t.get("sp")),
                              "`%s` admits the token kinds %s in front of a parser that produces %s: a token of a kind the parser does not know is read as "
                              "something else (a register name as a label) instead of being refused as the wrong type" % (short(n), got15, want15))
    ctx.need(n15 >= 2, "naive type tests in the argument readers (found %d)" % n15)
    ctx.finish_rule()
