"""C08 — compile is all-or-nothing."""
import re
from ..facts import callee_of, short, sp_file_line, expr_str, expr_walk
from .. import kit
from ..stages import StageAnalysis, STAGES
from .c07 import command_units, MAIN

EXPLANATION = (
    "Static ordering and error-discipline rules on the MIR of the compile arm of main(). "
    "R1: no call that can fail with an assembler error (any function from which a validation stage is reachable) is "
    "CFG-reachable from the site that opens the destination for writing. R2: every io::Result produced by a write to the "
    "destination is inspected, and the short-write API Write::write is not used. R3: a buffered writer is flushed, with the "
    "result inspected, on every successful path. Together: the destination is only touched after assembly can no longer "
    "fail, and success is reported only through the Ok successor of every write."
    ' R4: every Ok return of the compile arm lies behind a write to the destination. R5: closed panic ledger from the opening of the destination to the exit. R6: exit statuses on the compile path are constants. R7: behind the open, only writes on the opened destination can fail (a sole opener that also writes counts as such).'
    " R8: the opening of the destination is dominated by a status line written to stdout on every path (a routine that prints on all its ways), so a dead stdout ends the command before the destination is touched."
    " R9: no path-re-spelling call (with_extension, join, ..) is applied to the dest operand on its way to the opener - a destination named on the command line is opened as named."
)
NOT_DECIDED = ("what the kernel does under faults; preservation of a pre-existing regular file when a device fills "
               "half-way through the single write (would need write-to-temp + rename)")

OPENERS = ("std::fs::File::create", "std::fs::File::create_new", "std::fs::OpenOptions::open", "std::fs::write",
           "std::fs::File::options")
WRITE_METHODS = ("std::io::Write>::write_all", "std::io::Write>::write", "std::io::Write>::flush",
                 "std::io::Write>::write_fmt", "std::io::Write>::write_vectored", "std::fs::write",
                 "std::io::Write::write_all", "std::io::Write::write", "std::io::Write::flush", "std::io::Write::write_fmt")


def is_write(c):
    return c is not None and any(c.endswith(w) or (w in c) for w in WRITE_METHODS)


def run(ctx):
    main = ctx.fn(MAIN)
    sa = StageAnalysis(ctx)
    units = dict(command_units(ctx, main))
    ctx.need("Compile" in units, "Compile arm of main()")
    entry = units["Compile"]
    region = main.reachable(entry)  # the arm and its tail (drops, return)

    ctx.rule("C08.R1", "nothing that can fail with an assembler error runs after the destination is opened", floor=1)
    opens = [(b, c) for b, t, c in main.calls() if b in region and c in OPENERS]
    # a helper that opens the file also counts: any bin function reaching an opener
    for b, t, c in main.calls():
        if b in region and c and c.startswith("bin::") and c not in OPENERS:
            if ctx.cg.reachable([c]) & set(OPENERS):
                opens.append((b, c))
    from ..stages import adhoc_fns, adhoc_in_call
    adhoc = adhoc_fns(ctx.prog)
    for ob, oc in opens:
        ctx.instance(1, {"open_site": sp_file_line(main.term(ob).get("sp")), "callee": short(oc)})
        after = main.reachable(ob) - {ob}
        bad = []
        for b in sorted(after):
            t = main.term(b)
            if t["k"] != "call":
                continue
            c = callee_of(t)
            if c in STAGES or c in sa.may:
                bad.append((b, c))
                continue
            w = adhoc_in_call(ctx.prog, adhoc, t)
            if w:
                bad.append((b, w + " (constructs an error of its own)"))
                continue
            # a closure / fn item the callee may invoke (lazy `map(|s| s.emit())` consumed after the open)
            for cl in t["f"].get("closures", []):
                nm = cl[3:] if cl.startswith("fn:") else cl
                if nm in STAGES or nm in sa.may:
                    bad.append((b, nm))
        ctx.oblig(not bad, {"open": sp_file_line(main.term(ob).get("sp")), "fallible_calls_after": len(bad)},
                  "no stage-reaching call reachable from the open site")
        for b, c in bad:
            p = main.path(ob, {b})
            ctx.violation("after-open|callee=%s" % short(c.split(" (")[0]), sp_file_line(main.term(b).get("sp")),
                          "`%s` can fail with an assembler-level error after the destination was opened/truncated at %s "
                          "(path lines %s): a failure at statement k leaves a partial object file behind"
                          % (short(c), sp_file_line(main.term(ob).get("sp")), main.path_lines(p)))
    ctx.finish_rule()

    ctx.rule("C08.R2", "no lost write: every io::Result on the destination is inspected; no short-write API", floor=1)
    # include helper functions of the bin crate called from the arm
    fns = [(main, region)]
    for b, t, c in main.calls():
        if b in region and c and c.startswith("bin::") and c in ctx.prog.fns:
            f2 = ctx.prog.fns[c]
            fns.append((f2, f2.live_blocks()))
    nwrites = 0
    for f, blocks in fns:
        for b, t, c in f.calls():
            if b not in blocks or not is_write(c):
                continue
            # only writes to a file-like destination (not stdout/stderr formatting)
            aty = (t.get("arg_tys") or [""])[0]
            if "Stdout" in aty or "Stderr" in aty or "Formatter" in aty or "String" in aty:
                continue
            nwrites += 1
            ctx.instance(1, {"write": short(c), "at": sp_file_line(t.get("sp")), "on": aty})
            ok = kit.result_is_consumed(f, b)
            ctx.oblig(ok, None)
            if not ok:
                ctx.violation("dropped|fn=%s|callee=%s" % (short(f.name), short(c).split("::")[-1]), sp_file_line(t.get("sp")),
                              "the io::Result of `%s` on the destination is discarded: a failed or short write still ends in "
                              "\"Saved\" and exit status 0" % short(c))
            short_api = c.endswith("Write>::write") or c.endswith("Write::write") or c.endswith("write_vectored")
            ctx.oblig(not short_api, None)
            if short_api:
                ctx.violation("short-write|fn=%s" % short(f.name), sp_file_line(t.get("sp")),
                              "`Write::write` may write fewer bytes than given; use write_all (or check the count)")
    ctx.finish_rule()

    ctx.rule("C08.R3", "a buffered destination is flushed (result inspected) before success is reported", floor=0)
    for f, blocks in fns:
        buffered = [b for b, t, c in f.calls() if b in blocks and is_write(c)
                    and "BufWriter" in (t.get("arg_tys") or [""])[0] and not c.endswith("flush")]
        flushes = [b for b, t, c in f.calls() if b in blocks and c and c.endswith("flush")
                   and "BufWriter" in (t.get("arg_tys") or [""])[0]]
        errb = kit.error_blocks(f)
        for wb in buffered:
            ctx.instance(1)
            ok = f.must_pass(wb, [x for x in f.exits()], set(flushes) | errb) and all(kit.result_is_consumed(f, fb) for fb in flushes)
            ctx.oblig(ok, None)
            if not ok:
                ctx.violation("no-flush|fn=%s" % short(f.name), sp_file_line(f.term(wb).get("sp")),
                              "a BufWriter on the destination reaches the success exit without an inspected flush(): buffered "
                              "bytes can be lost silently when the writer is dropped")
    ctx.note("%d destination write site(s)" % nwrites)
    ctx.finish_rule()

    ctx.rule("C08.R4", "success is only reported after the image has been written", floor=1)
    # every Ok(..) return of the compile arm lies behind a write to the destination: no shortcut ("up to date", "nothing to do")
    # may report success while the destination holds something else than the complete new image
    errb = kit.error_blocks(main)
    okrets = [b for b, i, s in main.assigns() if b in region and b not in errb and s["p"]["l"] == 0 and not s["p"].get("pr")
              and s["r"]["k"] == "agg" and s["r"].get("variant") == "Ok"]
    wr = set()
    for b, t, c in main.calls():
        if b in region and is_write(c):
            aty = (t.get("arg_tys") or [""])[0]
            if not ("Stdout" in aty or "Stderr" in aty or "Formatter" in aty or "String" in aty):
                wr.add(b)
    # a loop that writes every element of a vector known to be non-empty (a push outside every loop dominates it, nothing takes elements out)
    # runs at least once: its head counts as a write site when every way round the loop passes a write
    lps4 = kit.loops(main)
    for hh, (body, latches) in sorted(lps4.items()):
        th = main.term(hh)
        if not (th["k"] == "call" and (callee_of(th) or "").endswith("::next") and re.search(r"vec::into_iter::IntoIter<|slice::iter::Iter<", (th.get("arg_tys") or [""])[0])
                and not re.search(r"adapters::", (th.get("arg_tys") or [""])[0])):
            continue
        src = main.expr(th["args"][0], 8, stop={"named"})
        for x in list(expr_walk(src)):
            if x[0] == "local" and "Iter<" in main.local_ty(x[1]):
                sd_ = main.single_def(x[1])
                if sd_ and sd_[0] == "stmt":
                    src = main.rvalue_expr(sd_[3]["r"], 6, stop={"named"})
                elif sd_ and sd_[0] == "call":
                    src = ("call", callee_of(sd_[3]), tuple(main.expr(a_, 6, stop={"named"}) for a_ in sd_[3]["args"]))
        vecs = {x[1] for x in expr_walk(src) if x[0] == "local" and "alloc::vec::Vec<" in main.local_ty(x[1])}
        if len(vecs) != 1:
            continue
        v = next(iter(vecs))
        ops_v = [(b_, c_) for b_, t_, c_ in main.calls() if c_ and c_.startswith("alloc::vec::Vec::<T, A>::") and t_.get("args")
                 and any(x[0] == "local" and x[1] == v for x in expr_walk(main.expr(t_["args"][0], 4, stop={"named"})))]
        if any(re.search(r"::(remove|pop|truncate|clear|swap_remove|retain|drain|split_off|retain_mut|dedup\w*)$", c_) for b_, c_ in ops_v):
            continue
        first = [b_ for b_, c_ in ops_v if c_.endswith("::push") and not any(b_ in bd for h_, (bd, l_) in lps4.items()) and main.dominates(b_, hh)]
        if not first:
            continue
        sw = main.term(th["t"]) if th.get("t") is not None else None
        if not sw or sw["k"] != "switch":
            continue
        some_t = {v_: x_ for v_, x_ in sw["targets"]}.get(1)
        w_in = {b_ for b_ in wr if b_ in body}
        if some_t is not None and w_in and hh not in main.reachable(some_t, avoid=w_in):
            wr.add(hh)
    # likewise a loop over `once(x).chain(..)`: its first element is always there
    for hh, (body, latches) in sorted(lps4.items()):
        th = main.term(hh)
        if not (th["k"] == "call" and (callee_of(th) or "").endswith("::next")
                and re.search(r"adapters::chain::Chain<core::iter::sources::once::Once<", (th.get("arg_tys") or [""])[0])):
            continue
        sw = main.term(th["t"]) if th.get("t") is not None else None
        if not sw or sw["k"] != "switch":
            continue
        some_t = {v_: x_ for v_, x_ in sw["targets"]}.get(1)
        w_in = {b_ for b_ in wr if b_ in body}
        if some_t is not None and w_in and hh not in main.reachable(some_t, avoid=w_in):
            wr.add(hh)
    ctx.need(okrets, "Ok(..) return in the compile arm")
    ctx.instance(1, {"success returns": len(okrets), "write sites": len(wr)})
    dodge = [b for b in okrets if b in main.reachable(entry, avoid=wr)] if wr else okrets
    ctx.oblig(not dodge, None)
    for b in dodge:
        p = main.path(entry, {b}, avoid=wr)
        ctx.violation("success-without-write", sp_file_line(main.stmts(b)[0].get("sp") if main.stmts(b) else main.term(b).get("sp")),
                      "the compile arm can return Ok without having written the destination (path lines %s): success is reported although the destination "
                      "is not (known to be) the complete object file" % main.path_lines(p))
    ctx.finish_rule()

    # ------------------------------------------------------------------ R5
    # once the destination has been opened, a panic is a non-zero exit with the destination already changed - even the status
    # line printed after the last write. Closed ledger over main's own sites behind the open and over every local function called there.
    from ..panics import Ledger, outer_macro
    ctx.rule("C08.R5", "closed panic ledger from the opening of the destination to the exit", floor=0)
    ctx.need(opens, "the site that opens the destination")
    after = set()
    for ob, oc in opens:
        after |= main.reachable(ob) - {ob}
    after_callees = sorted({c for b, t, c in main.calls() if b in after and c in prog_fns(ctx) and not main.is_cleanup(b)})
    before_only = sorted({c for b, t, c in main.calls() if c in prog_fns(ctx) and c not in after_callees})
    L = Ledger(ctx, [MAIN], stop=before_only, name="compile tail")
    scope = set(ctx.cg.reachable(after_callees, stop=before_only)) | set(after_callees)
    nsite = 0
    for st in L.sites:
        if st.fn.name == MAIN:
            if st.bb not in after:
                continue
        elif st.fn.name not in scope:
            continue
        nsite += 1
        ctx.instance(1)
        ok = L.discharge(st)
        if not ok and st.kind == "unwrap" and st.operands:
            x = st.operands[0]
            while x[0] in ("ref", "deref"):
                x = x[1]
            if x[0] == "call" and x[1] in OPENERS:
                # the opener's own failure: nothing was created or truncated, the non-zero exit leaves the destination as it was
                ok, st.tactic, st.why = True, "opener-failed", "panics only when `%s` itself failed, i.e. before the destination was touched" % short(x[1])
        ctx.oblig(ok, {"site": st.key, "at": st.where(), "tactic": st.tactic, "why": st.why} if ok else None, st.tactic)
        if not ok:
            ctx.violation("panic-after-open|%s" % st.key, st.where(),
                          "`%s` can panic at `%s` [%s] after the destination was opened: compile would exit non-zero although the destination has "
                          "already been created or overwritten" % (short(st.fn.name), st.desc, st.kind))
    ctx.note("functions called behind the open: %s; %d panic site(s)" % ([short(c) for c in after_callees], nsite))
    ctx.finish_rule()


    # ------------------------------------------------------------------ R6
    # "exits non-zero" must not depend on arithmetic: an exit status computed at run time (an error count, say) is truncated to 8 bits by
    # the operating system, so some failures would exit 0 with nothing written
    ctx.rule("C08.R6", "exit statuses on the compile path are constants", floor=0)
    callees_c = {c for b, t, c in main.calls() if b in region and c in prog_fns(ctx)}
    scope6 = {n for n in (ctx.cg.reachable(sorted(callees_c)) | callees_c) if n in prog_fns(ctx) and not n.startswith("lace::runtime::") and not n.startswith("lace::debugger::")}
    scope6.add(MAIN)
    for n in sorted(scope6):
        f = ctx.prog.fns[n]
        for b, t, c in f.calls():
            if c != "std::process::exit" or (n == MAIN and b not in region):
                continue
            ctx.instance(1)
            a = f.expr(t["args"][0], 8)
            ok = a[0] == "const"
            ctx.oblig(ok, {"exit in": short(n), "status": expr_str(a, 40)}, "a constant")
            if not ok:
                ctx.violation("computed-exit-status|%s" % short(n), sp_file_line(t.get("sp")),
                              "`%s` exits with the computed status `%s`: only its low 8 bits reach the caller, so a value that is a multiple of 256 "
                              "reports success although compile failed and wrote nothing" % (short(n), expr_str(a, 60)))
    ctx.finish_rule()

    # ------------------------------------------------------------------ R7
    # behind the opening of the destination, the only thing that may still fail is writing the destination itself; any other fallible step
    # there (a second output file, a late check) can fail *after* the object file is complete - non-zero exit, destination changed
    ctx.rule("C08.R7", "nothing but the destination's own writes can fail once it has been opened", floor=1)
    err_edges = sorted(kit.result_err_edges(main))
    n7 = 0
    for eb, et in err_edges:
        if eb not in after:
            continue
        e = main.expr(main.term(eb)["a"], 14)
        calls_e = [x for x in expr_walk(e) if x[0] == "call"]
        io = [x for x in calls_e if is_write(str(x[1])) or str(x[1]).startswith("std::fs::") or "std::io::" in str(x[1])]
        if not io:
            continue          # not an I/O result (handled by R1: no assembler-level failure behind the open)
        n7 += 1
        ctx.instance(1)
        def on_dest(x):
            if is_write(str(x[1])) and any(y[0] == "call" and str(y[1]) in OPENERS for a_ in x[2][:1] for y in expr_walk(a_)):
                return True
            if len(opens) == 1 and is_write(str(x[1])) and str(x[1]) in OPENERS and any(ob_ in main.dominators().get(eb, ()) for ob_, oc_ in opens if oc_ == str(x[1])):
                return True          # `fs::write(dest, bytes)`: opening and writing in one call - its own failure
            return False

        def closure_writes(x):
            """`words.iter().try_for_each(|w| file.write_all(..))`: the drain fails only through the closure's write on the captured destination"""
            if not re.search(r"Iterator>?::(try_for_each|try_fold)$", str(x[1])):
                return False
            for y in expr_walk(x):
                if y[0] == "agg" and isinstance(y[1], tuple) and y[1] and y[1][0] == "closure" and y[1][1] in ctx.prog.fns:
                    g = ctx.prog.fns[y[1][1]]
                    if any(is_write(c_) for b_, t_, c_ in g.calls()) and any(z[0] == "call" and str(z[1]) in OPENERS for cap in y[2] for z in expr_walk(cap)):
                        return True
            return False
        drains = [x for x in calls_e if closure_writes(x)]
        strangers = [x for x in io if not on_dest(x) and not str(x[1]) in OPENERS and not str(x[1]).endswith("into_diagnostic")]
        ok = (any(on_dest(x) for x in io) or bool(drains)) and not strangers
        ctx.oblig(ok, {"fallible step behind the open": [short(str(x[1])) for x in io][:3]}, "a write on the opened destination")
        if not ok:
            ctx.violation("late-failure|%s" % short(str((strangers or io)[0][1])), sp_file_line(main.term(eb).get("sp")),
                          "behind the opening of the destination the compile arm can fail in `%s`, which is not a write to the destination: if it fails the "
                          "object file is already (partly or completely) written and compile exits non-zero" % short(str((strangers or io)[0][1])))
    ctx.note("%d fallible I/O step(s) behind the open" % n7)
    ctx.finish_rule()

    # ------------------------------------------------------------------ R8
    # the status lines of compile go to stdout, and a stdout that cannot be written ends the process at the first of them (println!
    # panics). That first line therefore stands in front of the opening of the destination: a dead stdout (`>/dev/full`, a closed pipe)
    # then stops the command before the destination is touched, instead of behind its truncation with a non-zero exit
    ctx.rule("C08.R8", "the destination is opened only behind the first status line on stdout", floor=1)
    PRINT = "std::io::stdio::_print"
    # routines of the binary that write to stdout on every way through them (message, file_message); one that merely may print does not
    # make a dead stdout end the command
    printers = {PRINT}
    grew = True
    while grew:
        grew = False
        for n, f in ctx.prog.fns.items():
            if f.bkind != "fn" or not n.startswith("bin::") or n in printers or n == MAIN:
                continue
            pb = {b for b, t, c in f.calls() if c in printers}
            rets_ = {b for b in f.live_blocks() if f.term(b)["k"] == "return"}
            if pb and not (f.reachable(0, avoid=pb) & rets_):
                printers.add(n)
                grew = True
    later = [b for b, t, c in main.calls() if b in after and c in printers]
    for ob, oc in opens:
        ctx.instance(1)
        first = [b for b, t, c in main.calls() if b in region and c in printers and main.dominates(b, ob) and b != ob]
        ok = bool(first) or not later
        ctx.oblig(ok, {"open": sp_file_line(main.term(ob).get("sp")), "status lines in front": len(first), "behind": len(later)}, "a stdout line dominates the open")
        if not ok:
            ctx.violation("open-before-first-stdout", sp_file_line(main.term(ob).get("sp")),
                          "the compile arm opens (creates / truncates) the destination before it has written anything to stdout, and prints its status there "
                          "afterwards: with stdout unwritable the process dies at that later line - non-zero exit, destination already replaced")
    ctx.finish_rule()

    # ------------------------------------------------------------------ R9
    # "the destination" is the path the user named, when one was named: the path handed to the opener is the `dest` operand itself or, in
    # its absence, a default made from the source's name - nothing re-spells the operand (another extension, another directory), or compile
    # would report success without having touched the path it was given
    ctx.rule("C08.R9", "a destination named on the command line is opened as named", floor=1)
    RESPELL = re.compile(r"std::path::Path(Buf)?::(with_extension|with_file_name|join|set_extension|push|set_file_name|with_added_extension)$")
    for ob, oc in opens:
        t_o = main.term(ob)
        ctx.instance(1)
        bad9 = None
        if t_o.get("args"):
            e9 = main.expr(t_o["args"][0], 16)
            for x in expr_walk(e9):
                if x[0] == "call" and RESPELL.search(str(x[1])) and x[2] and any(y[0] == "field" and y[2] == "dest" for y in expr_walk(x[2][0])):
                    bad9 = x
                    break
        ctx.oblig(bad9 is None, {"opened path": expr_str(main.expr(t_o["args"][0], 8, stop={"named"}), 60) if t_o.get("args") else "?"}, "no re-spelling of the dest operand")
        if bad9 is not None:
            ctx.violation("dest-respelled|%s" % short(str(bad9[1])).rsplit("::", 1)[-1], sp_file_line(t_o.get("sp")),
                          "the path that is opened is the named destination changed by `%s`: `compile src.asm out.obj` then writes another file, reports success, and "
                          "leaves `out.obj` as it was (a destination that cannot be written is never even tried)" % short(str(bad9[1])))
    ctx.finish_rule()


def prog_fns(ctx):
    return {n for n, f in ctx.prog.fns.items() if f.bkind == "fn" and (n.startswith("bin::") or n.startswith("lace::"))}
