"""C11 — breakpoints always stop execution before the marked instruction."""
import re
from ..facts import callee_of, short, sp_file_line, expr_str, expr_walk, place_is_local, op_local
from .. import kit, dbg
from ..effects import Effects
from ..linear import lin, show, same

EXPLANATION = (
    "R1 (WHO/EFF): only Breakpoints::{insert, remove, with_orig} can change the list (closed set of writers of the private "
    "vector, iter_mut has no caller). R2: insert returns on an equal address without reaching Vec::insert, records the index "
    "only under `other >= new` and leaves the scan at once, inserts at that index (or at len); remove is a retain(!=). "
    "R3: with_orig has exactly one call site, given the loaded PC, before the debugger exists. R4: `.break` inserts the "
    "current statement count, predefined, adds no statement and does not advance the line counter; the preprocessor maps it "
    "to a marker token and no data. R5 (DOM): every Proceed of the pausing code is dominated by the breakpoint/HALT test, "
    "which is given the current PC, and in the run loop the pausing call is on every path to execute while attached."
    ' R3 follows the .break list from try_from through Debugger::new into the breakpoints field and requires exactly one with_orig on that route. R5 also: outside the interrupt check the just-paused marker may only be cleared. R3 also: with_orig adds the origin unconditionally (the addition lies on every way round the loop or through the closure). R5 also: behind the Some edge of the breakpoint lookup every path stops (only the just-paused test may let it through).'
    " R3 also: where with_orig is given the declared origin, it is unwrap_or(x3000) of it - the default the loader itself uses."
)

NOT_DECIDED = ("that the shape rules of insert amount to sortedness for every history (argued on paper from R2); the "
               "re-arming of a breakpoint across loop revisits (current_breakpoint logic) is only checked to be reset on the "
               "no-interrupt path")

BP = "lace::debugger::breakpoint::Breakpoints"
EXEC = "lace::runtime::RunState::execute"


def _removal_loop(prog, rem):
    """the written-out form of `retain(|b| b.address != address)`: an index walks the list from 0 in steps of one up to `len`, and
    the only change to the list is `Vec::remove(i)` (order-preserving) under `list[i].address == address`.
    True only when every clause below is read off the MIR; anything else stays a violation."""
    vec_mut = [(b, t, c) for b, t, c in rem.calls() if any(a.startswith("&mut") for a in t.get("arg_tys", []))]
    removes = [(b, t) for b, t, c in vec_mut if c and c.endswith("Vec::<T, A>::remove")]
    if not removes or len(removes) != len(vec_mut):
        return False                                  # some other mutator (swap_remove, drain, sort, a helper taking &mut self)
    for b in rem.live_blocks():                       # no assignment through self
        for s in rem.stmts(b):
            if s["k"] == "assign" and s["p"]["l"] == 1 and s["p"].get("pr"):
                return False
    idx = {rem.expr(t["args"][1], 3, stop={"named"}) for b, t in removes}
    vecs = {kit.strip_refs(rem.expr(t["args"][0], 6, stop={"named"})) for b, t in removes}
    if len(idx) != 1 or len(vecs) != 1:
        return False
    ie, vplace = idx.pop(), vecs.pop()
    if ie[0] != "local":
        return False
    lps = kit.loops(rem)
    inloop = [(h, body) for h, (body, latches) in lps.items() if all(b in body for b, t in removes)]
    if len(inloop) != 1:
        return False
    head, body = inloop[0]
    # the index: 0 before the loop, one `+ 1` inside it
    zero, steps = 0, 0
    for kind, db, i, node in rem.defs().get(ie[1], []):
        if kind != "stmt":
            return False
        e = rem.rvalue_expr(node["r"], 6, stop={"named"})
        if e == ("const", 0) and db not in body:
            zero += 1
        elif e[0] == "bin" and e[1] == "Add" and e[2][:2] == ie[:2] and e[3] == ("const", 1) and db in body:
            steps += 1
        else:
            return False
    if zero != 1 or steps != 1:
        return False
    succ = rem.succ_map()
    def edge_truth(d, tgt):
        sw = rem.term(d)
        allv = [v for v, x in sw["targets"]]
        vals = [v for v, x in sw["targets"] if x == tgt]
        if tgt == sw["otherwise"] and not vals and allv == [0]:
            return True
        if vals == [0] and tgt != sw["otherwise"]:
            return False
        return None
    elem = ("field", ("deref", ("call", "<alloc::vec::Vec<T, A> as core::ops::index::Index<I>>::index", (("ref", vplace), ie))), "address")
    def strip_names(e):
        return tuple(strip_names(x) if isinstance(x, tuple) else x for x in (e[:2] if e and e[0] in ("local", "arg") else e))
    # every Vec::remove sits under `list[i].address == address`, i untouched in between
    for b, t in removes:
        found = False
        for d in rem.dominators().get(b, ()):
            sw = rem.term(d)
            if d == b or sw["k"] != "switch":
                continue
            c = rem.expr(sw["a"], 8, stop={"named"})
            if c[0] != "bin" or c[1] not in ("Eq", "Ne"):
                continue
            toward = [s for s in succ[d] if s == b or rem.dominates(s, b)]
            if len(toward) != 1:
                continue
            tr = edge_truth(d, toward[0])
            if tr is None or (tr if c[1] == "Eq" else not tr) is not True:
                continue
            sides = {strip_names(c[2]), strip_names(c[3])}
            if sides != {strip_names(elem), ("arg", 2)}:
                continue
            # no step of the index between the comparison and the removal
            mids = {x for x in rem.reachable(toward[0], avoid={b, d}) if b in rem.reachable(x)} | {toward[0]}
            if any(db in mids for kind, db, i, node in rem.defs().get(ie[1], [])):
                continue
            found = True
        if not found:
            return False
    # the walk ends only at `i < len` turning false (or once a removal has happened)
    rblocks = {b for b, t in removes}
    for x in body:
        for s in succ[x]:
            if s in body:
                continue
            if any(rem.dominates(rb, x) for rb in rblocks):
                continue
            sw = rem.term(x)
            if sw["k"] == "assert":
                continue                              # the overflow check of `i + 1`; its failure edge is not in succ
            if sw["k"] != "switch":
                return False
            c = rem.expr(sw["a"], 8, stop={"named"})
            tr = edge_truth(x, s)
            if c[0] != "bin" or tr is None:
                return False
            op = c[1] if tr else {"Lt": "Ge", "Le": "Gt", "Gt": "Le", "Ge": "Lt"}.get(c[1])
            a, b2 = strip_names(c[2]), strip_names(c[3])
            ln = ("call", "alloc::vec::Vec::<T, A>::len", (("ref", strip_names(vplace)),))
            if not ((op == "Ge" and a == strip_names(ie) and b2 == ln) or (op == "Le" and b2 == strip_names(ie) and a == ln)):
                return False
    return True


def _compaction_loop(prog, rem):
    """the other written-out form of retain: `for i in 0..len { if list[i].address != address { list[kept] = list[i]; kept += 1 } } list.truncate(kept)`.
    True only when: the list is changed by nothing but `list[kept] = list[i]` under the `!=` test and one `truncate(kept)` behind the loop; i runs over
    0..len in steps of one; kept starts at 0 and is stepped once, right behind the copy."""
    calls = list(rem.calls())
    muts = [(b, t, c) for b, t, c in calls if any(a.startswith("&mut") for a in t.get("arg_tys", []))]
    imuts = [(b, t) for b, t, c in muts if c and re.search(r"Vec<T, A> as core::ops::index::IndexMut<I>>::index_mut$", c)]
    truncs = [(b, t) for b, t, c in muts if c and c.endswith("Vec::<T, A>::truncate")]
    others = [c for b, t, c in muts if not (c and (re.search(r"IndexMut<I>>::index_mut$", c) or c.endswith("Vec::<T, A>::truncate") or re.search(r"Range<A>>::next$", c)))]
    if len(imuts) != 1 or len(truncs) != 1 or others:
        return False
    for b in rem.live_blocks():
        for s in rem.stmts(b):
            if s["k"] == "assign" and s["p"]["l"] == 1 and s["p"].get("pr"):
                return False
    lps = kit.loops(rem)
    ib, it = imuts[0]
    inl = [(h, body) for h, (body, l) in lps.items() if ib in body]
    if len(inl) != 1 or len(lps) != 1:
        return False
    head, body = inl[0]
    th = rem.term(head)
    if not (th["k"] == "call" and re.search(r"Range<A>>::next$", callee_of(th) or "")):
        return False
    vplace = kit.strip_refs(rem.expr(it["args"][0], 6, stop={"named"}))
    ke = kit.strip_refs(rem.expr(it["args"][1], 3, stop={"named"}))
    if ke[0] != "local":
        return False
    # the range 0..len(list)
    itl = kit.strip_refs(rem.expr(th["args"][0], 4, stop={"named"}))
    rng = None
    if itl[0] == "local":
        sd = rem.single_def(itl[1])
        if sd and sd[0] == "stmt":
            rng = rem.rvalue_expr(sd[3]["r"], 8, stop={"named"})
        elif sd and sd[0] == "call":
            rng = ("call", callee_of(sd[3]), tuple(rem.expr(a_, 8, stop={"named"}) for a_ in sd[3]["args"]))
    while rng is not None and rng[0] == "call" and str(rng[1]).endswith("IntoIterator>::into_iter") and len(rng[2]) == 1:
        rng = rng[2][0]
    def strip_names(e):
        return tuple(strip_names(x) if isinstance(x, tuple) else x for x in (e[:2] if e and e[0] in ("local", "arg") else e))
    ln = ("call", "alloc::vec::Vec::<T, A>::len", (("ref", strip_names(vplace)),))
    if not (rng is not None and rng[0] == "agg" and len(rng[2]) == 2 and rng[2][0] == ("const", 0) and strip_names(rng[2][1]) == ln):
        return False
    # the loop variable
    ivars = [l for l, ds in rem.defs().items() if len(ds) == 1 and ds[0][0] == "stmt" and ds[0][1] in body and rem.locals[l].get("name")
             and "Some" in expr_str(rem.rvalue_expr(ds[0][3]["r"], 4), 80) and any(x[0] == "call" and x[1] == callee_of(th) for x in expr_walk(rem.rvalue_expr(ds[0][3]["r"], 4)))]
    if len(ivars) != 1:
        return False
    ie = ("local", ivars[0])
    # kept: 0 in front of the loop, + 1 once inside
    ds = rem.defs().get(ke[1], [])
    zero = [d for d in ds if d[0] == "stmt" and rem.rvalue_expr(d[3]["r"], 4, stop={"named"}) == ("const", 0) and d[1] not in body and rem.dominates(d[1], head)]
    steps = [d for d in ds if d[0] == "stmt" and d[1] in body]
    if len(ds) != 2 or len(zero) != 1 or len(steps) != 1:
        return False
    se = rem.rvalue_expr(steps[0][3]["r"], 6, stop={"named"})
    if not (se[0] in ("bin", "checked") and se[1] == "Add" and se[2][:2] == ke[:2] and se[3] == ("const", 1)):
        return False
    # the copy `list[kept] = list[i]`: the place index_mut hands back is assigned the element at i
    dst = it["dest"]["l"]
    copies = [(b, s) for b, i_, s in rem.assigns() if s["p"]["l"] == dst and s["p"].get("pr") == ["*"]]
    if len(copies) != 1:
        return False
    src = strip_names(kit.strip_refs(rem.rvalue_expr(copies[0][1]["r"], 8, stop={"named"})))
    want_src = ("call", "<alloc::vec::Vec<T, A> as core::ops::index::Index<I>>::index", (("ref", strip_names(vplace)), ie))
    if src != want_src:
        return False
    # ... under `list[i].address != address`, and the step of kept behind the copy on the same edge
    succ = rem.succ_map()
    guard = None
    for d in rem.dominators().get(ib, ()):
        sw = rem.term(d)
        if d == ib or sw["k"] != "switch":
            continue
        c = rem.expr(sw["a"], 8, stop={"named"})
        if c[0] != "bin" or c[1] not in ("Eq", "Ne"):
            continue
        toward = [x for x in succ[d] if x == ib or rem.dominates(x, ib)]
        if len(toward) != 1:
            continue
        allv = [v for v, x in sw["targets"]]
        vals = [v for v, x in sw["targets"] if x == toward[0]]
        truth = True if (toward[0] == sw["otherwise"] and not vals and allv == [0]) else (False if vals == [0] and toward[0] != sw["otherwise"] else None)
        if truth is None or (truth if c[1] == "Ne" else not truth) is not True:
            continue
        elem = ("field", ("deref", want_src), "address")
        if {strip_names(c[2]), strip_names(c[3])} == {elem, ("arg", 2)}:
            guard = toward[0]
    if guard is None:
        return False
    if not (rem.dominates(guard, steps[0][1]) and rem.dominates(copies[0][0], steps[0][1])):
        return False
    # truncate(kept) behind the loop, on every way out
    tb, tt = truncs[0]
    if tb in body or strip_names(kit.strip_refs(rem.expr(tt["args"][0], 6, stop={"named"}))) != strip_names(vplace) \
            or kit.strip_refs(rem.expr(tt["args"][1], 3, stop={"named"}))[:2] != ke[:2]:
        return False
    rets = {b for b in rem.live_blocks() if rem.term(b)["k"] == "return"}
    if rem.reachable(0, avoid={tb}) & rets:
        return False
    # the loop is left only when the range is exhausted
    for x in body:
        for s_ in succ[x]:
            if s_ not in body and not (x == th.get("t") or x == head):
                if rem.term(x)["k"] != "assert":
                    return False
    return True


def run(ctx):
    prog = ctx.prog
    eff = Effects(prog)

    ctx.rule("C11.R1", "closed set of writers of the breakpoint list", floor=3)
    adt = prog.adt(BP)
    ctx.need(adt, "struct Breakpoints")
    fld = adt["variants"][0]["fields"][0]
    ctx.oblig("Restricted" in fld["vis"] and "breakpoint" in fld["vis"], {"field visibility": fld["vis"]}, "private to the module")
    if not ("Restricted" in fld["vis"] and "breakpoint" in fld["vis"]):
        ctx.violation("field-visibility", adt.get("span", "-"), "the breakpoint vector is visible outside its module (%s)" % fld["vis"])
    allowed = {BP + "::insert", BP + "::remove", BP + "::with_orig", BP + "::new", BP + "::iter_mut",  # iter_mut: callers checked below
               "lace::<debugger::breakpoint::Breakpoints as core::clone::Clone>::clone"}
    writers = set()
    for n, f in sorted(prog.fns.items()):
        if f.bkind != "fn":
            continue
        # direct writes / mutable borrows of the tuple field .0 of Breakpoints
        for b, i, s in f.assigns():
            for pl, is_w in ((s["p"], True), (s["r"].get("p") if s["r"]["k"] in ("ref", "rawptr") and (s["r"].get("bk") == "mut" or "Mut" in str(s["r"].get("bk"))) else None, True)):
                if pl is None:
                    continue
                for e in pl.get("pr", []):
                    if isinstance(e, dict) and e.get("adt") == BP and "f" in e:
                        if pl is s["p"] and s["r"]["k"] == "agg":
                            continue
                        writers.add(n)
        for b, t, c in f.calls():
            pass
    for n in sorted(writers):
        ctx.instance(1)
        ok = n in allowed
        ctx.oblig(ok, {"writer": short(n)}, "in the reviewed closed set")
        if not ok:
            ctx.violation("writer=%s" % short(n), prog.fns[n].file_line(),
                          "`%s` writes or mutably borrows the breakpoint vector; only insert/remove/with_orig may (sortedness and "
                          "uniqueness are theirs to keep)" % short(n))
    im = BP + "::iter_mut"
    if im in prog.fns:
        callers = [c_ for c_ in ctx.cg.callers(im) if c_ not in allowed]          # the list's own writers may walk it mutably
        ctx.oblig(not callers, {"iter_mut callers": callers}, "no caller outside insert/remove/with_orig")
        for c in callers:
            ctx.violation("iter_mut-caller=%s" % short(c), prog.fns[c].file_line() if c in prog.fns else "-",
                          "`%s` obtains &mut Breakpoint through iter_mut and can change addresses behind the list's back" % short(c))
    # every &mut Breakpoints holder that writes does so through insert/remove
    for n, f in sorted(prog.fns.items()):
        if f.bkind != "fn" or n in allowed:
            continue
        for b, t, c in f.calls():
            if c and c.startswith("alloc::vec::Vec") and any("breakpoint::Breakpoint" in a and a.startswith("&mut") for a in t.get("arg_tys", [])[:1]):
                ctx.violation("vec-op|fn=%s" % short(n), sp_file_line(t.get("sp")), "`%s` mutates a Vec<Breakpoint> directly (%s)" % (short(n), short(c)))
    # ... and only the commands that are documented to change the set may call them: `break add` inserts, `break remove` removes,
    # the parser records `.break`; any other caller (a reset that re-adds presets, a step that drops one) changes which addresses stop
    disp_, sw_bb_, arms_, sp_, selfp_ = dbg.dispatcher(ctx)
    WANT_CALLERS = {"insert": {("dispatcher", "BreakAdd"), ("lace::parser::AsmParser::parse", None)},
                    "remove": {("dispatcher", "BreakRemove")}}
    for m, want in sorted(WANT_CALLERS.items()):
        got = set()
        for c in sorted(ctx.cg.callers(BP + "::" + m)):
            f_ = prog.fns.get(c)
            if f_ is None:
                continue
            if f_.name == disp_.name:
                for b, t, cc in f_.calls():
                    if cc == BP + "::" + m:
                        ar = sorted(a for a, e in arms_.items() if b in dbg.arm_region(disp_, e))
                        got.add(("dispatcher", ar[0] if ar else "<outside any arm>"))
            else:
                got.add((c, None))
        ctx.instance(1)
        ok = got == want
        ctx.oblig(ok, {"callers of %s" % m: sorted("%s%s" % (short(a), "/" + b if b else "") for a, b in got)}, "reviewed closed set")
        if not ok:
            extra = sorted("%s%s" % (short(a), " (" + b + " arm)" if b else "") for a, b in got - want)
            ctx.violation("caller|%s" % m, prog.fns[BP + "::" + m].file_line(), "Breakpoints::%s is called from %s; only %s may change the set of breakpoints"
                          % (m, extra or "fewer places than expected", sorted("%s%s" % (short(a), " (" + b + " arm)" if b else "") for a, b in want)))
    ctx.finish_rule()

    ctx.rule("C11.R2", "insert keeps the list duplicate-free and ordered; remove is a retain(!=)", floor=4)
    ins = ctx.fn(BP + "::insert")
    vins = [b for b, t, c in ins.calls() if c and c.endswith("Vec::<T, A>::insert")]
    ctx.need(len(vins) == 1, "Vec::insert in Breakpoints::insert")
    vb = vins[0]
    # any further call that makes the list longer (an append fast path) must sit behind a strict test "last element below the new address":
    # with `<=` the highest address can be entered twice
    grow = [(b, t, c) for b, t, c in ins.calls() if c and b != vb and re.search(r"Vec::<T, A>::(push|insert|extend|append|extend_from_slice|push_within_capacity)$", c)]
    ctx.instance(1)
    bad_grow = []
    for gb, gt, gc in grow:
        tests = []
        for b_, t_, c_ in ins.calls():
            if c_ and re.search(r"Iterator>?::position$", c_):
                continue            # the search for the insertion index, judged below
            for cl in (t_.get("f") or {}).get("closures", []) if isinstance(t_.get("f"), dict) else []:
                cfn = prog.fns.get(cl)
                if cfn is None:
                    continue
                ee = cfn.local_expr(0, 10)
                if ee[0] == "bin" and ee[1] in ("Lt", "Le", "Gt", "Ge", "Eq", "Ne") and "address" in expr_str(ee):
                    elem = lambda e: any(x[0] == "arg" and x[1] == 2 for x in expr_walk(e))
                    strict = (ee[1] == "Lt" and elem(ee[2]) and not elem(ee[3])) or (ee[1] == "Gt" and elem(ee[3]) and not elem(ee[2]))
                    tests.append((expr_str(ee, 120), strict))
        if not tests or not all(st for _, st in tests):
            bad_grow.append((gb, gt, gc, [x for x, _ in tests]))
    ctx.oblig(not bad_grow, {"further growing calls in insert": [short(c) for _, _, c in grow]}, "each behind a strict `last.address < new.address`")
    for gb, gt, gc, tests in bad_grow:
        ctx.violation("append-guard|%s" % short(gc), sp_file_line(gt.get("sp")),
                      "insert also grows the list through `%s`, and the test in front of it (%s) is not a strict `element.address < new.address`: "
                      "an address equal to the highest one can be entered twice" % (short(gc), "; ".join(tests) or "none found"))
    pos_calls = [(b, t) for b, t, c in ins.calls() if c and re.search(r"Iterator>?::position$", c)]
    if pos_calls:
        # form B: `position(|o| o.address >= new.address)`, a duplicate test at the position found, Vec::insert there (or at len)
        pb, pt = pos_calls[0]
        ctx.instance(1)
        it = expr_str(ins.expr(pt["args"][0], 10), 300)
        whole = len(pos_calls) == 1 and not re.search(r"(skip|take|filter|step_by|rev|chain)\(", it)
        cls_ = [x for x in pt["f"].get("closures", []) if not x.startswith("fn:")]
        ce = prog.fns[cls_[0]].local_expr(0, 10) if cls_ and cls_[0] in prog.fns else ("unknown",)
        ces = expr_str(ce, 200)
        # element on the left with >=, or the new address on the left with <=
        arg_side = lambda e: any(x[0] == "arg" and x[1] == 2 for x in expr_walk(e))     # the closure's element parameter
        elem_left = ce[0] == "bin" and any("address" in expr_str(x) and arg_side(x) for x in (ce[2], ce[3]))
        okord = elem_left and ((ce[1] == "Ge" and arg_side(ce[2]) and not arg_side(ce[3])) or (ce[1] == "Le" and arg_side(ce[3]) and not arg_side(ce[2])))
        ctx.oblig(whole and okord, {"position predicate": ces}, "first element whose address is >= the new one, over the whole list")
        if not (whole and okord):
            ctx.violation("order-test", sp_file_line(pt.get("sp")), "insert looks for `%s` over `%s`; it must find the first element of the whole list whose address is >= the new one" % (ces, it[:80]))
        # duplicate test: an address equality whose true side returns true without inserting
        eqs = []
        for b in sorted(ins.live_blocks()):
            t = ins.term(b)
            if t["k"] == "switch":
                c = ins.expr(t["a"], 10)
                tg = {v: x for v, x in t["targets"]}
                t1 = t["otherwise"] if 0 in tg else tg.get(1)
                t0 = tg.get(0, t["otherwise"])
                if c[0] == "bin" and c[1] in ("Eq", "Ne") and "address" in expr_str(c):
                    eqs.append((b, t1, t0) if c[1] == "Eq" else (b, t0, t1))
                elif c[0] == "call" and str(c[1]).endswith("is_some_and"):
                    # `nth(i).is_some_and(|o| o.address == new.address)`
                    pbk = [bb for bb, tt, cc in ins.calls() if cc == c[1] and tt.get("t") == b]
                    for bb in pbk:
                        for cl in ins.term(bb)["f"].get("closures", []):
                            cfn = prog.fns.get(cl)
                            if cfn is not None:
                                ee = cfn.local_expr(0, 8)
                                if ee[0] == "bin" and ee[1] == "Eq" and "address" in expr_str(ee):
                                    eqs.append((b, t1, t0))
        ctx.instance(1)
        ok = len(eqs) >= 1 and all(vb not in ins.reachable(eq_t) for b, eq_t, ne_t in eqs)
        rets = [ins.rvalue_expr(s_["r"], 2) for b, eq_t, ne_t in eqs for bb in ins.reachable(eq_t, avoid={vb}) for s_ in ins.stmts(bb) if s_["k"] == "assign" and s_["p"]["l"] == 0 and place_is_local(s_["p"])]
        ok = ok and bool(rets) and all(r == ("const", 1) for r in rets)
        ctx.oblig(ok, {"equal address": "returns true without inserting"}, "Vec::insert unreachable from the equal edge")
        if not ok:
            ctx.violation("dup-insert", ins.file_line(), "an element with the same address does not make insert return true without inserting: duplicates become possible")
        # the index handed to Vec::insert is the position found, or len when there is none
        ie = expr_str(ins.expr(ins.term(vb)["args"][1], 14), 400)
        defs_ = []
        il_ = ins.expr(ins.term(vb)["args"][1], 2, stop={"named"})
        if il_[0] == "local":
            for kind, db, i, node in ins.defs().get(il_[1], []):
                defs_.append(expr_str(ins.rvalue_expr(node["r"], 12), 200) if kind == "stmt" else short(callee_of(node) or "?") + "(" + ", ".join(expr_str(ins.expr(a_, 10), 120) for a_ in node["args"]) + ")")
        blob = ie + " " + " ".join(defs_)
        ctx.instance(1)
        ok = "position(" in blob and ("len(" in blob or "len" in " ".join(defs_))
        ctx.oblig(ok, {"insertion index": defs_ or [ie[:80]]}, "the position found, else len")
        if not ok:
            ctx.violation("index-shape", sp_file_line(ins.term(vb).get("sp")), "the insertion index is `%s`, not the position of the first element >= new or len" % (defs_ or ie[:120]))
    else:
        eqs, ords = [], []
        for b in sorted(ins.live_blocks()):
            t = ins.term(b)
            if t["k"] == "switch":
                c = ins.expr(t["a"], 8, stop={"named"})
                if c[0] == "bin" and "address" in expr_str(c):
                    tg = {v: x for v, x in t["targets"]}
                    true_t = t["otherwise"] if 0 in tg else tg.get(1)
                    false_t = tg.get(0, t["otherwise"])
                    if c[1] == "Eq":
                        eqs.append((b, c, true_t, false_t))
                    elif c[1] in ("Ge", "Gt", "Le", "Lt"):
                        ords.append((b, c, true_t, false_t))
        ctx.need(len(eqs) == 1 and len(ords) == 1, "one equality and one ordering test on addresses in insert (%d, %d)" % (len(eqs), len(ords)))
        eb, ec, etrue, efalse = eqs[0]
        ob, oc, otrue, ofalse = ords[0]
        ctx.instance(1)
        ok = vb not in ins.reachable(etrue)
        ctx.oblig(ok, {"equal address": "returns without inserting"}, "Vec::insert unreachable from the equal edge")
        if not ok:
            ctx.violation("dup-insert", sp_file_line(ins.term(eb).get("sp")), "an equal address falls through to Vec::insert: duplicates become possible")
        # the value returned on the equal edge is `true`
        rets = [ins.rvalue_expr(s["r"], 2) for b in ins.reachable(etrue, avoid={vb}) for s in ins.stmts(b) if s["k"] == "assign" and s["p"]["l"] == 0]
        ok = rets and all(r == ("const", 1) for r in rets)
        ctx.oblig(ok, {"equal address returns": [expr_str(r) for r in rets]}, "true")
        if not ok:
            ctx.violation("dup-return", sp_file_line(ins.term(eb).get("sp")), "insert does not report an existing breakpoint (returns %s)" % [expr_str(r) for r in rets])
        ctx.instance(1)
        ok = ins.dominates(efalse, ob)
        ctx.oblig(ok, {"order": "equality is tested before the ordering test"}, "dominance")
        if not ok:
            ctx.violation("eq-after-order", sp_file_line(ins.term(ob).get("sp")), "the ordering test is not preceded by the equality test")
        # ordering test: other >= new (or an equivalent spelling)
        a, b2 = expr_str(oc[2]), expr_str(oc[3])
        other_first = "other" in a and "breakpoint" in b2
        new_first = "breakpoint" in a and "other" in b2
        ok = (other_first and oc[1] in ("Ge", "Gt")) or (new_first and oc[1] in ("Le", "Lt"))
        ctx.instance(1)
        ctx.oblig(ok, {"ordering test": expr_str(oc)}, "first element not below the new address")
        if not ok:
            ctx.violation("order-test", sp_file_line(ins.term(ob).get("sp")), "insert looks for `%s`; it must stop at the first element whose address is >= the new one" % expr_str(oc))
        # index recorded only under the true edge, loop left at once, and used by Vec::insert
        idx_e = ins.expr(ins.term(vb)["args"][1], 2, stop={"named"})
        ctx.need(idx_e[0] == "local", "index variable given to Vec::insert")
        il = idx_e[1]
        defs = ins.defs().get(il, [])
        forms = []
        okdefs = True
        lps = kit.loops(ins)
        for kind, db, i, node in defs:
            if kind == "call":
                forms.append("len" if (callee_of(node) or "").endswith("::len") else short(callee_of(node) or "?"))
                okdefs = okdefs and (callee_of(node) or "").endswith("::len")
            elif kind == "stmt":
                e = ins.rvalue_expr(node["r"], 4, stop={"named"})
                forms.append(expr_str(e))
                under_true = ins.dominates(otrue, db)
                leaves = all(db not in body or not (set(ins.reachable(db)) & {h}) for h, (body, l) in lps.items()) if False else True
                # after recording, control must not come back to the loop header
                back = any(h in ins.reachable(db) for h, (body, l) in lps.items() if db in body)
                okdefs = okdefs and under_true and not back and e[0] == "local"
        ctx.instance(1)
        ctx.oblig(okdefs, {"insertion index": forms}, "len, or the position of the first element >= new, then leave the scan")
        if not okdefs:
            ctx.violation("index-shape", sp_file_line(ins.term(vb).get("sp")), "the insertion index is computed as %s, not as `len` or the first position whose address is >= the new one" % forms)
        # the scan is over self in order
        nxt = [t for b, t, c in ins.calls() if c and c.endswith("Iterator>::next")]
        ok = len(nxt) == 1 and "Enumerate" in (callee_of(nxt[0]) or "")
        ctx.oblig(ok, {"scan": short(callee_of(nxt[0])) if nxt else "?"}, "enumerate() over the list")
        if not ok:
            ctx.violation("scan-shape", ins.file_line(), "insert does not scan the list front to back with positions")
    # remove
    rem = ctx.fn(BP + "::remove")
    ret = [t for b, t, c in rem.calls() if c and c.endswith("Vec::<T, A>::retain")]
    ctx.instance(1)
    ok = len(ret) == 1
    if ok:
        cl = ret[0]["f"].get("closures", [])
        ok = len(cl) == 1 and cl[0] in prog.fns
        if ok:
            cf = prog.fns[cl[0]]

            def keeps_other_addresses(f, e, depth=0):
                """does the predicate come out true exactly for elements whose address differs from the given one?  'ne' / 'eq' / None;
                `!`, and a call of another closure of the same function (`!is_match(b)`), are looked through"""
                while e[0] in ("ref", "deref"):
                    e = e[1]
                if e[0] == "bin" and e[1] in ("Ne", "Eq") and "address" in expr_str(e):
                    return e[1].lower()
                if e[0] == "un" and e[1] == "Not":
                    r_ = keeps_other_addresses(f, e[2], depth + 1)
                    return {"ne": "eq", "eq": "ne"}.get(r_)
                if e[0] == "call" and depth < 3:
                    g = prog.fns.get(str(e[1]))
                    if g is None:
                        for x in expr_walk(e):
                            if x[0] == "agg" and isinstance(x[1], tuple) and x[1][0] == "closure" and x[1][1] in prog.fns:
                                g = prog.fns[x[1][1]]
                    if g is None and re.search(r"ops::function::Fn(Mut|Once)?<.*>>::call(_mut|_once)?$", str(e[1])):
                        # a call through a captured closure value: the only other closure of the enclosing function
                        sib = [n_ for n_ in prog.fns if n_.startswith(rem.name + "::{closure") and n_ != f.name and "::{closure" not in n_[len(rem.name) + 3:]]
                        if len(sib) == 1:
                            g = prog.fns[sib[0]]
                    if g is not None and g.d.get("defkind") == "Closure":
                        return keeps_other_addresses(g, g.local_expr(0, 8, stop={"named"}), depth + 1)
                return None
            e = cf.local_expr(0, 8, stop={"named"})
            ok = keeps_other_addresses(cf, e) == "ne"
    if not ok and not ret:
        ok = _removal_loop(prog, rem) or _compaction_loop(prog, rem)
    ctx.oblig(ok, {"remove": "retain(|b| b.address != address)"}, "order-preserving filter")
    if not ok:
        ctx.violation("remove-shape", rem.file_line(), "remove is not a retain(address != given): it may disturb the order or keep the breakpoint")
    # lookup: the answer of `get` depends on the list alone - None only once the whole list has been scanned, Some only for an equal address
    from ..stages import is_whole_next
    g = ctx.fn(BP + "::get")
    ctx.instance(1)
    none_b = [b for b, i, s_ in g.assigns() if s_["p"]["l"] == 0 and place_is_local(s_["p"]) and s_["r"]["k"] == "agg" and s_["r"].get("variant") == "None"]
    some_b = [b for b, i, s_ in g.assigns() if s_["p"]["l"] == 0 and place_is_local(s_["p"]) and s_["r"]["k"] == "agg" and s_["r"].get("variant") == "Some"]
    nexts = [(b, t) for b, t, c in g.calls() if is_whole_next(t, g, "Breakpoint")]
    why = None
    if nexts and (none_b or some_b):
        nb, nt = nexts[0]
        sw_ = g.term(nt["t"]) if nt.get("t") is not None else None
        exhausted = None
        if sw_ and sw_["k"] == "switch":
            tg_ = {v: x for v, x in sw_["targets"]}
            exhausted = tg_.get(0)
        if exhausted is None:
            why = "the scan's end-of-list edge was not found"
        else:
            early = [b for b in none_b if not (b == exhausted or g.dominates(exhausted, b))]
            if early:
                why = "it answers None at %s before the list has been scanned to its end" % sp_file_line(g.stmts(early[0])[0].get("sp"))
        for b in some_b:
            cons = [expr_str(g.expr(g.term(d)["a"], 8, stop={"named"}), 200) for d in sorted(g.dominators()[b]) if g.term(d)["k"] == "switch" and d != b]
            if not any("address" in c and "==" in c for c in cons):
                why = why or "it answers Some without comparing the element's address with the argument"
    else:
        e = g.local_expr(0, 12)
        calls_ = [str(x[1]) for x in expr_walk(e) if x[0] == "call"]
        if not (any(re.search(r"Iterator>?::find$", c) for c in calls_) and any(c.endswith("::copied") or c.endswith("::cloned") for c in calls_)
                and not any(re.search(r"::(skip|take|filter|step_by|rev)$", c) for c in calls_)):
            why = "its shape is neither a scan of the whole list nor iter().find(..).copied()"
        else:
            cl = [x for b, t, c in g.calls() for x in t["f"].get("closures", []) if not x.startswith("fn:")]
            ok_cl = False
            for cn in cl:
                cf_ = prog.fns.get(cn)
                if cf_ is not None:
                    ce = expr_str(cf_.local_expr(0, 10), 200)
                    ok_cl = ok_cl or ("address" in ce and "==" in ce)
            if not ok_cl:
                why = "the predicate given to find does not compare the element's address with the argument"
    ctx.oblig(why is None, {"get": "complete search on address equality"}, "None only after the end-of-list edge; Some only under address == argument")
    if why:
        ctx.violation("lookup-incomplete", g.file_line(), "Breakpoints::get is not a complete search of the list: %s - a breakpoint that is in the list can be missed "
                      "(anything it consults besides the list, e.g. a summary or the list's order, is not kept in step by every writer)" % why)
    ctx.finish_rule()

    ctx.rule("C11.R3", "the origin is added to the source's breakpoints exactly once, at load time", floor=1)
    wo = BP + "::with_orig"
    sites = []
    for n, f in prog.fns.items():
        if f.bkind != "fn":
            continue
        for b, t, c in f.calls():
            if c == wo:
                sites.append((f, b, t))
    # the route of the `.break` list from the assembled AIR into the debugger: try_from hands `air.breakpoints` to Debugger::new, which
    # stores it in its `breakpoints` field; with_orig must be applied exactly once on that route (in either function), with the load origin
    TF, DNEW, DBG = "lace::runtime::RunEnvironment::try_from", "lace::debugger::Debugger::new", "lace::debugger::Debugger"
    tff, dnf = ctx.fn(TF), ctx.fn(DNEW)
    dfields = [f_["name"] for f_ in prog.adt(DBG)["variants"][0]["fields"]]
    ctx.need("breakpoints" in dfields, "Debugger.breakpoints field")
    aggs = [s_ for b_, i_, s_ in dnf.assigns() if s_["r"]["k"] == "agg" and s_["r"].get("adt") == DBG]
    ctx.need(len(aggs) == 1, "the Debugger { .. } constructor expression in Debugger::new")
    stored = dnf.expr(aggs[0]["r"]["ops"][dfields.index("breakpoints")], 14)
    newcalls = [(b_, t_) for b_, t_, c_ in tff.calls() if c_ == DNEW]
    ctx.need(len(newcalls) == 1, "the Debugger::new call in try_from")

    def wo_calls(e):
        return [x for x in expr_walk(e) if x[0] == "call" and x[1] == wo]
    params = sorted({x[1] for x in expr_walk(stored) if x[0] == "arg"})
    handed = {i_: tff.expr(newcalls[0][1]["args"][i_ - 1], 12) for i_ in params if i_ - 1 < len(newcalls[0][1]["args"])}
    on_route = [("Debugger::new", dnf, x) for x in wo_calls(stored)] + [("try_from", tff, x) for e_ in handed.values() for x in wo_calls(e_)]
    ctx.instance(max(1, len(sites)))
    ok = len(on_route) == 1 and len(sites) == 1
    ctx.oblig(ok, {"with_orig on the route AIR -> Debugger.breakpoints": [w[0] for w in on_route], "with_orig call sites": [short(s_[0].name) for s_ in sites]}, "exactly one")
    if not ok:
        ctx.violation("with_orig-sites=%d" % len(on_route), sites[0][0].file_line() if sites else "-",
                      "with_orig is applied %d time(s) between the assembled AIR and the debugger's breakpoint list (call sites: %s): `.break` addresses would be shifted %d times"
                      % (len(on_route), [short(s_[0].name) for s_ in sites], len(on_route)))
    src_ok = any("air.breakpoints" in expr_str(e_, 300) or ("breakpoints" in expr_str(e_, 300) and "air" in expr_str(e_, 300)) for e_ in handed.values())
    ctx.oblig(src_ok, {"handed to Debugger::new": [expr_str(e_, 80) for e_ in handed.values()]}, "the assembled AIR's breakpoints")
    if not src_ok:
        ctx.violation("with_orig-self", sp_file_line(newcalls[0][1].get("sp")), "the debugger's breakpoint list is built from `%s`, not from the AIR's breakpoints" % [expr_str(e_, 80) for e_ in handed.values()])
    for where, f, x in on_route:
        e = x[2][1] if len(x[2]) > 1 else ("unknown", "?")
        es = expr_str(e, 120)
        # the PC of the freshly loaded state, or the origin the image was built with (its first word, which from_raw turns into that PC)
        ok = ("pc" in es and "state" in es)
        if not ok and "orig(" in es and "air" in es:
            # the declared origin counts only together with the default the loader itself uses when none is declared (x3000): a source
            # without .orig is loaded there, and its .break addresses must follow
            ok = any(y[0] == "call" and str(y[1]).endswith("Option::<T>::unwrap_or") and len(y[2]) == 2 and kit.strip_casts(y[2][1]) == ("const", 0x3000)
                     and "orig(" in expr_str(y[2][0], 120) for y in expr_walk(e))
        ctx.oblig(ok, {"with_orig argument": es, "in": where}, "the loaded PC (= origin)")
        if not ok:
            ctx.violation("with_orig-arg", f.file_line(), "with_orig(%s): expected the origin the image was loaded at" % es)
        if where == "Debugger::new":
            # the state whose PC is used must be the loaded machine handed over by try_from
            st_args = sorted({y[1] for y in expr_walk(e) if y[0] == "arg"})
            ok = bool(st_args) and all("state" in expr_str(tff.expr(newcalls[0][1]["args"][i_ - 1], 10), 200) for i_ in st_args if i_ - 1 < len(newcalls[0][1]["args"]))
            ctx.oblig(ok, {"origin taken from": "parameter(s) %s of Debugger::new" % st_args}, "the loaded state")
            if not ok:
                ctx.violation("with_orig-arg", f.file_line(), "with_orig(%s) in Debugger::new does not read the loaded state's PC" % es)
    wf = ctx.fn(wo)
    adds = []
    for b, i, s in wf.assigns():
        if s["r"]["k"] == "bin" and s["r"]["op"].startswith("Add"):
            adds.append(show(lin(wf.rvalue_expr(s["r"], 6, stop={"named"}))))
    if not adds:
        # adaptor forms: `iter_mut().for_each(|b| b.address += orig)` and `into_iter().map(|b| Breakpoint { address: b.address + orig, ..b }).collect()`:
        # the addition sits in the closure, `orig` is a capture; the closure runs once per element of the whole list (no other adaptor in between)
        for b, t, c in wf.calls():
            if not (c and re.search(r"Iterator>?::(for_each|map)$", c) and len(t["args"]) == 2):
                continue
            ty0 = (t.get("arg_tys") or [""])[0]
            if not re.search(r"^(core::slice::iter::IterMut<|alloc::vec::into_iter::IntoIter<)[^>]*Breakpoint>$", ty0):
                continue
            ce = kit.strip_refs(wf.expr(t["args"][1], 6))
            if not (ce[0] == "agg" and ce[1][0] == "closure" and ce[1][1] in prog.fns):
                continue
            g = prog.fns[ce[1][1]]
            caps = ce[2]
            if kit.loops(g):
                continue
            for b2, i2, s2 in g.assigns():
                if s2["r"]["k"] == "bin" and s2["r"]["op"].startswith("Add"):
                    e2 = g.rvalue_expr(s2["r"], 8)
                    sides = [e2[2], e2[3]]
                    has_addr = any("address" in expr_str(x_) and any(y[0] == "arg" and y[1] == 2 for y in expr_walk(x_)) for x_ in sides)
                    cap_is_orig = False
                    for x_ in sides:
                        for y in expr_walk(x_):
                            if y[0] == "field" and str(y[2]).isdigit() and int(y[2]) < len(caps):
                                base = y[1]
                                while base[0] in ("deref", "ref"):
                                    base = base[1]
                                if base[0] == "arg" and base[1] == 1 and any(z[0] == "arg" and z[1] == 2 for z in expr_walk(caps[int(y[2])])):
                                    cap_is_orig = True
                    adds.append("address + orig" if has_addr and cap_is_orig else expr_str(e2, 60))
    # ... and unconditionally: in the loop form the addition lies on every way round the loop, in the adaptor forms on every way through the closure
    uncond = True
    lps_w = kit.loops(wf)
    for b, i, s in wf.assigns():
        if s["r"]["k"] == "bin" and s["r"]["op"].startswith("Add"):
            for h_, (body_, latches_) in lps_w.items():
                if b in body_ and not all(wf.dominates(b, l_) for l_ in latches_):
                    uncond = False
    for b, t, c in wf.calls():
        ce_ = kit.strip_refs(wf.expr(t["args"][1], 6)) if c and re.search(r"Iterator>?::(for_each|map)$", c) and len(t["args"]) == 2 else None
        if ce_ and ce_[0] == "agg" and ce_[1][0] == "closure" and ce_[1][1] in prog.fns:
            g_ = prog.fns[ce_[1][1]]
            for b2, i2, s2 in g_.assigns():
                if s2["r"]["k"] == "bin" and s2["r"]["op"].startswith("Add"):
                    if any(not g_.dominates(b2, rb_) for rb_ in g_.live_blocks() if g_.term(rb_)["k"] == "return"):
                        uncond = False
    ctx.oblig(uncond, {"with_orig": "the addition is made for every element"}, "dominates every way round the loop / through the closure")
    if not uncond:
        ctx.violation("with_orig-conditional", wf.file_line(), "with_orig adds the origin only to some breakpoints (the addition does not lie on every way round the loop): "
                      "a `.break` whose statement index is not below the origin keeps its index as its address and never pauses")
    ctx.oblig(len(adds) == 1 and "orig" in adds[0] and "address" in adds[0], {"with_orig body": adds}, "address += orig, once per element")
    if not (len(adds) == 1 and "orig" in adds[0] and "address" in adds[0]):
        ctx.violation("with_orig-body", wf.file_line(), "with_orig computes %s per breakpoint (expected address + orig)" % adds)
    ctx.finish_rule()

    ctx.rule("C11.R4", "`.break` marks the next statement and occupies no memory", floor=2)
    pf = ctx.fn("lace::parser::AsmParser::parse")
    TK = "lace::lexer::TokenKind"
    sws = list(kit.discr_switches(pf, TK))
    ctx.need(sws, "match on TokenKind in parse()")
    sb, place, targets, oth = max(sws, key=lambda s: len(s[2]))
    vidx = [v["idx"] for v in prog.adt(TK)["variants"] if v["name"] == "Breakpoint"][0]
    ctx.need(vidx in targets, "Breakpoint arm in parse()")
    entry = targets[vidx]
    region = kit.dominated_region(pf, entry)
    inss = [(b, t) for b, t, c in pf.calls() if b in region and c == BP + "::insert"]
    ctx.instance(1)
    ok = len(inss) == 1
    if ok:
        e = pf.expr(inss[0][1]["args"][1], 10)
        ok = e[0] == "agg" and e[1][-1] == "Breakpoint"
        if ok:
            addr, pre = e[2][0], e[2][1]
            ok_addr = same(lin(addr), 0, [("len(", 1)]) and "air" in expr_str(addr)
            ok_pre = pre == ("const", 1)
            ctx.oblig(ok_addr, {".break address": expr_str(addr)}, "current statement count (index of the next statement)")
            if not ok_addr:
                ctx.violation("break-address", sp_file_line(inss[0][1].get("sp")),
                              "`.break` records address `%s`; it must be the number of statements parsed so far (the next statement's index)" % expr_str(addr))
            ctx.oblig(ok_pre, {".break predefined": expr_str(pre)}, "true")
            if not ok_pre:
                ctx.violation("break-predefined", sp_file_line(inss[0][1].get("sp")), "`.break` breakpoints are not marked predefined")
    ctx.oblig(ok, None)
    if not ok:
        ctx.violation("break-arm-shape", sp_file_line(pf.term(entry).get("sp")), "the Breakpoint arm of parse() does not insert exactly one Breakpoint")
    # no statement added, line counter untouched on the way back to the loop head
    lps = kit.loops(pf)
    heads = [h for h, (body, l) in lps.items() if entry in body]
    ctx.need(heads, "parse loop around the Breakpoint arm")
    head = min(heads, key=lambda h: len(lps[h][0]))
    on_way = pf.reachable(entry, avoid={head})
    bad_add = [b for b, t, c in pf.calls() if b in on_way and c == "lace::air::Air::add_stmt" and b in region]
    line_w = [b for b, i, s in pf.assigns() if b in region and [e.get("n") for e in s["p"].get("pr", []) if isinstance(e, dict) and "f" in e][-1:] == ["line"]]
    ok = not bad_add and not line_w and head in pf.reachable(entry)
    ctx.instance(1)
    ctx.oblig(ok, {".break": "no add_stmt, no line increment, back to the loop head"}, "arm region scan")
    if not ok:
        ctx.violation("break-occupies", sp_file_line(pf.term(entry).get("sp")),
                      "the Breakpoint arm adds a statement or advances the line counter: `.break` would occupy an address / shift labels")
    pp = ctx.fn("lace::parser::preprocess")
    DK = "lace::symbol::DirKind"
    sws = list(kit.discr_switches(pp, DK))
    ctx.need(sws, "match on DirKind in preprocess()")
    bidx = [v["idx"] for v in prog.adt(DK)["variants"] if v["name"] == "Break"][0]
    ok = False
    for sb, place, targets, oth in sws:
        if bidx in targets:
            reg = kit.dominated_region(pp, targets[bidx])
            callees = [c for b, t, c in pp.calls() if b in reg]
            ok = ("lace::lexer::Token::breakpoint" in callees and "lace::lexer::Token::byte" not in callees
                  and "lace::lexer::Token::nullbyte" not in callees)
    ctx.instance(1)
    ctx.oblig(ok, {"preprocess .break": "marker token only"}, "arm region scan")
    if not ok:
        ctx.violation("preproc-break", pp.file_line(), "preprocess does not turn `.break` into exactly one marker token without data words")
    ctx.finish_rule()

    ctx.rule("C11.R5", "the breakpoint test precedes every execution while attached", floor=3)
    disp, sw_bb, arms, sp, selfp = dbg.dispatcher(ctx)
    pz = dbg.pauser(ctx, disp)
    rl = dbg.run_loop(ctx, pz)
    # the interrupt check = callee of pz that calls Breakpoints::get
    cis = [(b, t, c) for b, t, c in pz.calls() if c in prog.fns and (BP + "::get") in ctx.cg.callees(c) and c != disp.name]
    ctx.need(len(cis) == 1, "interrupt check (calls Breakpoints::get) in the pausing function")
    cib, cit, cic = cis[0]
    proceeds = [b for b, i, s in pz.assigns() if s["p"]["l"] == 0 and s["r"]["k"] == "agg" and s["r"].get("variant") == "Proceed"]
    ctx.need(proceeds, "`return Proceed` sites")
    for b in proceeds:
        ctx.instance(1)
        ok = pz.dominates(cib, b)
        ctx.oblig(ok, {"Proceed at": sp_file_line(pz.stmts(b)[0].get("sp")), "dominated by": short(cic)}, "dominance")
        if not ok:
            ctx.violation("proceed-without-check", sp_file_line(pz.stmts(b)[0].get("sp")), "a Proceed is returned without the breakpoint/HALT test having run")
    e = expr_str(pz.expr(cit["args"][1], 6))
    ok = e.startswith("pc(")
    ctx.oblig(ok, {"breakpoint test looks at": e}, "the current PC")
    if not ok:
        ctx.violation("check-pc-arg", sp_file_line(cit.get("sp")), "the breakpoint test is given `%s`, not the current PC" % e)
    # in the interrupt check: a found breakpoint (not the one just left) sets WaitForAction; the no-interrupt path clears current_breakpoint
    cf = prog.fns[cic]
    ctx.analysed_fns.add(cic)
    from .c16 import wait_blocks
    gets = [b for b, t, c in cf.calls() if c == BP + "::get"]
    ctx.need(gets, "Breakpoints::get in the interrupt check")
    e = expr_str(cf.expr(cf.term(gets[0])["args"][1], 4))
    ctx.oblig(e == "pc", {"Breakpoints::get argument": e}, "the pc parameter")
    if e != "pc":
        ctx.violation("get-arg", sp_file_line(cf.term(gets[0]).get("sp")), "the breakpoint lookup uses `%s` instead of the PC" % e)
    # the "just paused here" marker: every pass through the interrupt check either stops (WaitForAction) or rewrites the marker;
    # the only Some(_) ever stored is the PC under test. A stale marker makes the next arrival at that breakpoint run through.
    from ..effects import Effects as _Eff
    ws = _Eff(prog).site_writes(cf, 1)
    marker_fields = sorted({w[2][0] for w in ws if w[2] and w[2][0] != "status"})
    ctx.need(len(marker_fields) == 1, "exactly one Debugger field besides `status` written by the interrupt check (the just-paused marker): %s" % marker_fields)
    mk = marker_fields[0]
    mk_blocks = {w[0] for w in ws if w[1] == "assign" and w[2] == (mk,)}
    wb_cf = wait_blocks(cf)
    rets = [b for b in cf.live_blocks() if cf.term(b)["k"] == "return"]
    ctx.instance(1)
    stale = cf.reachable(0, avoid=mk_blocks | wb_cf) & set(rets)
    ok = not stale
    ctx.oblig(ok, {"marker": mk, "rewritten or stopped on every path": True}, "must-pass-through over the interrupt check")
    if not ok:
        p = cf.path(0, stale, avoid=mk_blocks | wb_cf)
        ctx.violation("stale-marker", cf.file_line(),
                      "the interrupt check can return without stopping and without rewriting `%s`%s: the marker of a breakpoint left long ago "
                      "survives, and the next arrival at that breakpoint is not stopped" % (mk, " (lines %s)" % cf.path_lines(p) if p else ""))
    # the marker suppresses a stop only for the very address it names: every test of the marker in the interrupt check (or in a
    # closure it builds) is an (in)equality with Some(pc); is_none()/is_some()/a match on it would let a *different* breakpoint through
    def marker_tests(f, mentions):
        out = []
        for b_, t_, c_ in f.calls():
            args = [f.expr(a_, 8) for a_ in t_["args"]]
            if any(mentions(a_) for a_ in args):
                out.append((f, b_, t_, c_, args))
        for b_ in sorted(f.live_blocks()):
            t_ = f.term(b_)
            if t_["k"] == "switch":
                e_ = f.expr(t_["a"], 6)
                if e_[0] == "discr" and mentions(e_[1]) and not any(x[0] == "call" for x in expr_walk(e_)):
                    out.append((f, b_, t_, "<match on the marker>", [e_]))
        return out
    def strip_closures(e):
        if isinstance(e, tuple) and e and e[0] == "agg" and isinstance(e[1], tuple) and e[1] and e[1][0] == "closure":
            return ("closure",)
        if isinstance(e, tuple):
            return tuple(strip_closures(x) if isinstance(x, tuple) else x for x in e)
        return e
    tests = marker_tests(cf, lambda e: any(x[0] == "field" and x[2] == mk for x in expr_walk(strip_closures(e))))
    for b_, i_, s2 in cf.assigns():
        if s2["r"]["k"] == "agg" and s2["r"].get("ak") == "closure":
            clf = prog.fns.get(s2["r"].get("closure"))
            if clf is None:
                continue
            cap_idx = {str(i) for i, o in enumerate(s2["r"]["ops"]) if any(x[0] == "field" and x[2] == mk for x in expr_walk(cf.expr(o, 6)))}
            if cap_idx:
                tests += marker_tests(clf, lambda e, _ci=cap_idx: any(x[0] == "field" and str(x[2]) in _ci and any(y[0] == "arg" and y[1] == 1 for y in expr_walk(x)) for x in expr_walk(e)))
    ctx.instance(1)
    badt = []
    good = 0
    for f_, b_, t_, c_, args in tests:
        if c_ and (str(c_).endswith("PartialEq::ne") or str(c_).endswith("PartialEq::eq") or str(c_).endswith("PartialEq>::eq") or str(c_).endswith("PartialEq>::ne")):
            if any(x[0] == "agg" and x[1][0] == "adt" and x[1][2] == "Some" for a_ in args for x in expr_walk(a_)) or \
               any(x[0] == "uneval" for a_ in args for x in expr_walk(a_)):
                good += 1
                continue
        badt.append((short(f_.name), short(str(c_)), sp_file_line(t_.get("sp"))))
    okf = good >= 1 and not badt
    ctx.oblig(okf, {"tests of the marker": good, "other uses": badt}, "only (in)equality with Some(pc)")
    if not okf:
        ctx.violation("marker-compare", cf.file_line(), "a found breakpoint must be let through only when the just-paused marker names this very address (`%s != Some(pc)`); "
                      "the marker is examined by %s: resuming from one breakpoint can then run through a different one" % (mk, badt or "nothing"))
    # a breakpoint that was found - and is not the one just left - always stops: the only things the stop for a breakpoint hangs on are the
    # lookup itself and the just-paused marker. Every branch condition that dominates that stop is read (through named temporaries and
    # through locals assigned on several paths): it may consult Breakpoints::get, the marker and the PC - nothing else (a source line that
    # must exist, a flag, another table)
    ctx.instance(1)
    OK_CALL = re.compile(r"Option::<T>::(filter|is_some|is_none|is_some_and|is_none_or|copied|cloned|as_ref)$|PartialEq(<.*>)?>?::(eq|ne)$|ops::function::Fn(Mut|Once)?(<.*>)?>?::call(_mut|_once)?$")

    def foreign(f, e, depth=0, seen=None):
        """calls (or unreadable parts) of condition e that are neither the lookup nor the marker test"""
        seen = seen if seen is not None else set()
        out = []
        for x in expr_walk(e):
            if x[0] == "call":
                nm = str(x[1])
                if nm == BP + "::get" or OK_CALL.search(nm):
                    continue
                out.append(short(nm))
            elif x[0] == "agg" and isinstance(x[1], tuple) and x[1] and x[1][0] == "closure":
                g = prog.fns.get(x[1][1])
                if g is None:
                    out.append("closure?")
                else:
                    out += [short(c_) for b_, t_, c_ in g.calls() if not (c_ and (c_ == BP + "::get" or OK_CALL.search(c_)))]
            elif x[0] == "local" and depth < 3 and (f.name, x[1]) not in seen:
                seen.add((f.name, x[1]))
                for kind_, db_, i_, node_ in f.defs().get(x[1], []):
                    if kind_ == "stmt":
                        out += foreign(f, f.rvalue_expr(node_["r"], 10), depth + 1, seen)
                    else:
                        c_ = callee_of(node_)
                        if not (c_ and (c_ == BP + "::get" or OK_CALL.search(c_))):
                            out.append(short(c_ or "?"))
                        for a_ in node_["args"]:
                            out += foreign(f, f.expr(a_, 10), depth + 1, seen)
        return out

    def about_lookup(f, e, depth=0, seen=None):
        seen = seen if seen is not None else set()
        for x in expr_walk(e):
            if x[0] == "call" and x[1] == BP + "::get":
                return True
            if x[0] == "local" and depth < 3 and (f.name, x[1]) not in seen:
                seen.add((f.name, x[1]))
                for kind_, db_, i_, node_ in f.defs().get(x[1], []):
                    if kind_ == "call" and callee_of(node_) == BP + "::get":
                        return True
                    ee_ = f.rvalue_expr(node_["r"], 10) if kind_ == "stmt" else ("call", callee_of(node_), tuple(f.expr(a_, 10) for a_ in node_["args"]))
                    if about_lookup(f, ee_, depth + 1, seen):
                        return True
        return False
    succ_cf = cf.succ_map()
    bp_stops, extra = [], []
    for w in sorted(wb_cf):
        conds_w = []
        for d_ in sorted(cf.dominators().get(w, ())):
            tt_ = cf.term(d_)
            if d_ == w or tt_["k"] != "switch":
                continue
            toward = [x_ for x_ in succ_cf[d_] if x_ == w or cf.dominates(x_, w)]
            if len(toward) == 1:
                conds_w.append((d_, cf.expr(tt_["a"], 12)))
        if any(about_lookup(cf, c_) for d_, c_ in conds_w):
            bp_stops.append(w)
            for d_, c_ in conds_w:
                fr = foreign(cf, c_)
                if fr:
                    extra.append((d_, sorted(set(fr))))
    okl = bool(bp_stops) and not extra
    ctx.oblig(okl, {"found breakpoint": "the stop hangs on the lookup and the just-paused marker alone", "stops for a breakpoint": len(bp_stops)}, "every dominating condition read")
    if not okl:
        ctx.violation("found-breakpoint-not-stopped", sp_file_line(cf.term(extra[0][0]).get("sp")) if extra else cf.file_line(),
                      "whether a breakpoint that is in the list (and is not the one just left) stops execution also depends on %s: behind a successful lookup the "
                      "interrupt check can still let execution run on" % (("`%s`" % ", ".join(extra[0][1])) if extra else "something this check could not find (no stop is tied to Breakpoints::get)"))
    for b in sorted(mk_blocks):
        for s_ in cf.stmts(b):
            if s_["k"] == "assign" and [e.get("n") for e in s_["p"].get("pr", []) if isinstance(e, dict) and "f" in e][-1:] == [mk]:
                e = cf.rvalue_expr(s_["r"], 4, stop={"named"})
                ok = e[0] == "agg" and (e[1][-1] == "None" or (e[1][-1] == "Some" and expr_str(e[2][0]) == "pc"))
                ctx.oblig(ok, {"marker <-": expr_str(e)}, "None or Some(pc under test)")
                if not ok:
                    ctx.violation("marker-value", sp_file_line(s_.get("sp")), "the just-paused marker is set to `%s` (expected None or Some(pc))" % expr_str(e))
    # nobody else arms the marker: outside the interrupt check it may only be cleared (a `Some(address)` stored by a command would make the
    # next arrival at that address run through although execution never paused there)
    ctx.instance(1)
    foreign = []
    for n_, f_ in sorted(prog.fns.items()):
        if f_.bkind != "fn" or n_ == cic or not n_.startswith("lace::"):
            continue
        for b_, i_, s_ in f_.assigns():
            pr_ = [e_ for e_ in s_["p"].get("pr", []) if isinstance(e_, dict) and "f" in e_]
            if pr_ and pr_[-1].get("n") == mk and (pr_[-1].get("adt") in (None, "lace::debugger::Debugger")):
                e_ = f_.rvalue_expr(s_["r"], 4, stop={"named"})
                if not (e_[0] == "agg" and e_[1][-1] == "None"):
                    foreign.append((n_, s_, e_))
    ctx.oblig(not foreign, {"marker `%s` armed outside the interrupt check" % mk: [short(n_) for n_, s_, e_ in foreign]}, "nowhere")
    for n_, s_, e_ in foreign:
        ctx.violation("marker-armed-elsewhere|%s" % short(n_), sp_file_line(s_.get("sp")),
                      "`%s` sets the just-paused marker to `%s`; only the interrupt check may arm it (with the PC it has just stopped at) - armed for an address "
                      "execution never paused at, the first arrival at that breakpoint is not stopped" % (short(n_), expr_str(e_, 60)))
    # run loop: while attached, next_action is on every path from the loop head to execute
    ex = [b for b, t, c in rl.calls() if c == EXEC]
    pzb = [b for b, t, c in rl.calls() if c == pz.name]
    ctx.need(len(ex) == 1 and len(pzb) == 1, "one execute and one pausing call in the run loop")
    # the debugger-attached arm: switch on discriminant of self.debugger
    att = None
    for b in sorted(rl.live_blocks()):
        sw = kit.switch_on_discr_of_local(rl, b)
        if sw and sw[1] == "core::option::Option" and rl.dominates(b, pzb[0]):
            tg = {v: x for v, x in rl.term(b)["targets"]}
            att = tg.get(1)
    ctx.need(att is not None, "`if let Some(debugger)` in the run loop")
    ctx.instance(1)
    ok = rl.must_pass(att, ex, pzb)
    ctx.oblig(ok, {"attached": "pausing call on every path to execute"}, "must-pass")
    if not ok:
        ctx.violation("execute-without-pause", sp_file_line(rl.term(ex[0]).get("sp")), "with the debugger attached, execute can be reached without calling the pausing code")
    ctx.finish_rule()
