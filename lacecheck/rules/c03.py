"""C03 — running an image follows the machine model from load to stop."""
import re
from ..facts import callee_of, short, sp_file_line, expr_str, expr_walk, op_local, place_is_local, const_int
from .. import kit, formula, bits
from ..linear import lin, show, same
from ..effects import Effects
from ..panics import Ledger, _meet

EXPLANATION = (
    "R1 (TAB/LIN): the loader's constants - PC and origin = word 0, registers [0 x7, 0xFE00-1], condition code none, image "
    "copied to [orig, orig+n), HALT sentinel 0xF025 stored at orig+n - and its guards (empty -> error exit; "
    "orig + n + 1 > 0x10000 -> error exit) dominate every write, with the indices bounded by the guard (interval). "
    "R2 (DOM + decision structure): the fetch in the run loop is dominated by the in-bounds outcome of the bounds test, whose "
    "other outcomes diverge, with no PC write in between; the bounds test equals {pc < orig: below; pc >= 0xFE00: above} on "
    "every boundary cell. R3: the loop's only exits are PC == 0xFFFF (HALT stores exactly that constant), the two exception "
    "arms (exit 0xEE) and the debugger's ExitProgram. R4: the word is fetched at the old PC, the PC is incremented by exactly "
    "1, then the word is executed; one such site. R5: GETC and IN read exactly one byte on every path; the stdin reader's "
    "buffer is one byte; end of input exits with status 1. R6 (BITS): OUT/PUTS print bits 7:0, PUTSP prints bits 7:0 then "
    "15:8 of each word, PUTN prints R0 reinterpreted as i16. R7 (DOM): in PUTS/PUTSP every print is dominated by a zero test on the printed "
    "character whose zero side prints nothing more, and the only other exit of the printing loop is the exhausted address range."
    ' R6/R7 read PUTS/PUTSP either off the loop or off an iterator chain (source.map.flat_map.take_while.for_each) whose closures are composed symbolically. R5 also: read_char hands every 7-bit input byte on unchanged (its decision is evaluated on the 128 values).'
    " R5 also: what the GETC and IN arms store into R0 is the character read, widened - not merged with the old contents of R0."
)

NOT_DECIDED = ("the executed sequence and exact stdout for all images and inputs (UTF-8 re-encoding of bytes >= 0x80 is value-level)")

RT = "lace::runtime::"
EXEC = RT + "RunState::execute"


def run(ctx):
    prog = ctx.prog
    eff = Effects(prog)
    fr = ctx.fn(RT + "RunEnvironment::from_raw")
    rl = ctx.fn(RT + "RunEnvironment::run")
    LL = Ledger(ctx, [])

    # ------------------------------------------------------------------ R1
    ctx.rule("C03.R1", "loader: placement, sentinel, initial registers, guards", floor=7)
    aggs = [s for b, i, s in fr.assigns() if s["r"]["k"] == "agg" and s["r"].get("adt") == "lace::runtime::RunState"]
    ctx.need(len(aggs) == 1, "RunState aggregate in from_raw")
    a = aggs[0]["r"]
    vals = dict(zip(a["fields"], a["ops"]))
    # ---- canonical quantities: O = the image's first word, L = number of words of the whole image (origin word included).
    # Every index and bound below is reduced to a linear form over O and L, whatever temporaries, slices (`raw[1..]`,
    # `split_first`) or helper names the code uses: len(tail) = L - 1.
    def _strip(e):
        while isinstance(e, tuple) and e and e[0] in ("ref", "deref", "cast"):
            e = e[1] if e[0] in ("ref", "deref") else e[3]
        return e

    def is_whole(e):
        e = _strip(e)
        return e[0] == "arg" and e[1] == 1

    def split_payload(e, k):
        """e is field k of the pair inside `split_first(whole) as Some`"""
        e = _strip(e)
        if e[0] == "field" and str(e[2]) == str(k):
            p = _strip(e[1])
            if p[0] == "field" and str(p[2]) == "0":
                p = _strip(p[1])
            if p[0] == "downcast" and p[2] == "Some":
                c = _strip(p[1])
                return c[0] == "call" and str(c[1]).endswith("split_first") and is_whole(c[2][0])
        return False

    def is_tail(e):
        e = _strip(e)
        if e[0] == "call" and str(e[1]).endswith("Index<I> for [T]>::index") and len(e[2]) == 2 and is_whole(e[2][0]):
            return "RangeFrom{1}" in expr_str(e[2][1]).replace(" ", "")
        return split_payload(e, 1)

    def is_origin(e):
        e = _strip(e)
        if e[0] == "idx" and is_whole(e[1]) and _strip(e[2]) == ("const", 0):
            return True
        return split_payload(e, 0)

    def olname(e):
        if is_origin(e):
            return "O"
        x = _strip(e)
        inner = None
        if x[0] == "un" and x[1] == "PtrMetadata":
            inner = x[2]
        elif x[0] == "call" and re.search(r"(<impl \[T\]>|Vec::<T, A>)::len$", str(x[1])) and len(x[2]) == 1:
            inner = x[2][0]
        if inner is not None:
            if is_whole(inner):
                return "L"
            if is_tail(inner):
                return "Ltail"
        return None

    def OL(op_or_expr, is_expr=False):
        e = op_or_expr if is_expr else fr.expr(op_or_expr, 16)
        c, d = lin(e, name=olname)
        d = dict(d)
        if "Ltail" in d:
            k = d.pop("Ltail")
            d["L"] = (d.get("L", 0) + k) % 65536
            c = (c - k) % 65536
            if not d["L"]:
                d.pop("L")
        return (c, d)

    def is_OL(l, c0, o, ln):
        want = {}
        if o:
            want["O"] = o % 65536
        if ln:
            want["L"] = ln % 65536
        return l[0] == c0 % 65536 and l[1] == want

    pc_l, orig_l = OL(vals["pc"]), OL(vals["orig"])
    ctx.instance(1)
    ok = is_OL(pc_l, 0, 1, 0) and is_OL(orig_l, 0, 1, 0)
    ctx.oblig(ok, {"pc": show(pc_l), "orig": show(orig_l)}, "both the image's first word")
    if not ok:
        ctx.violation("initial-pc", sp_file_line(aggs[0].get("sp")), "the loaded machine starts with PC = %s and origin = %s (expected the image's first word for both)"
                      % (expr_str(fr.expr(vals["pc"], 8), 60), expr_str(fr.expr(vals["orig"], 8), 60)))
    regs = fr.expr(vals["reg"], 8)
    def _val(x):
        try:
            return formula.evaluate(x, {"prog": prog}) if x[0] != "unknown" else None
        except (formula.Unknown, formula.Overflow):
            return None      # not a constant (e.g. depends on a flag): reported below as a wrong initial value
    rv = [_val(x) for x in regs[2]] if regs[0] == "agg" else None
    ctx.instance(1)
    ok = rv == [0, 0, 0, 0, 0, 0, 0, 0xFDFF]
    ctx.oblig(ok, {"registers": [hex(x) if x is not None else None for x in (rv or [])]}, "R0-R6 = 0, R7 = 0xFDFF")
    if not ok:
        ctx.violation("initial-registers", sp_file_line(aggs[0].get("sp")), "initial registers are %s (expected seven zeros and R7 = 0xFDFF; None = not a constant)" % rv)
    fl = fr.expr(vals["flag"], 4)
    ok = fl[0] == "agg" and fl[1][2] == "Uninit"
    ctx.instance(1)
    ctx.oblig(ok, {"condition code": expr_str(fl)}, "none")
    if not ok:
        ctx.violation("initial-cc", sp_file_line(aggs[0].get("sp")), "the initial condition code is %s (expected none/Uninit)" % expr_str(fl))
    def formula_const(fn_, r_):
        if r_["k"] != "use":
            return None
        v_ = const_int(r_["a"])
        if v_ is not None:
            return v_
        try:
            v_ = formula.evaluate(fn_.expr(r_["a"], 6), {"prog": prog})
            return v_ if isinstance(v_, int) else None
        except (formula.Unknown, formula.Overflow):
            return None
    # sentinel: the one constant store into an indexed place
    sent = [(b, s) for b, i, s in fr.assigns() if s["p"].get("pr") and "idx" in (s["p"]["pr"][-1] if isinstance(s["p"]["pr"][-1], dict) else {})
            and formula_const(fr, s["r"]) is not None]
    ctx.need(len(sent) == 1, "sentinel store in from_raw")
    sb, ss = sent[0]
    sval = formula_const(fr, ss["r"])
    l = OL(fr.local_expr(ss["p"]["pr"][-1]["idx"], 16), True)
    ok = sval == 0xF025 and is_OL(l, -1, 1, 1)
    ctx.instance(1)
    ctx.oblig(ok, {"sentinel": hex(sval), "at": show(l)}, "0xF025 at O + L - 1 (the word after the image)")
    if not ok:
        ctx.violation("sentinel", sp_file_line(ss.get("sp")), "the implicit HALT is stored as %s at `%s` (expected 0xF025 at origin + number of image words)" % (hex(sval), show(l)))
    # ... unconditionally: every path to the Ok return stores it
    rets_ = [b for b in fr.live_blocks() if fr.term(b)["k"] == "return"]
    skipping = fr.reachable(0, avoid={sb}) & set(rets_)
    ctx.oblig(not skipping, {"sentinel": "stored on every path to the return"}, "must-pass-through")
    if skipping:
        ctx.violation("sentinel-conditional", sp_file_line(ss.get("sp")), "the implicit HALT after the image is stored only on some paths (lines %s avoid it): "
                      "an image the condition excludes runs on into zeroed memory instead of halting" % fr.path_lines(fr.path(0, skipping, avoid={sb})))
    # copy: mem[O .. O + L - 1] <- the words after the origin word
    cp = [(b, t) for b, t, c in fr.calls() if c and (c.endswith("clone_from_slice") or c.endswith("copy_from_slice"))]
    ctx.need(len(cp) == 1, "image copy in from_raw")
    cb, ct = cp[0]
    dst = fr.expr(ct["args"][0], 16)
    rng = [x for x in expr_walk(dst) if x[0] == "agg" and x[1][0] == "adt" and str(x[1][1]).endswith("ops::range::Range")]
    ctx.instance(1)
    ok = bool(rng) and is_OL(OL(rng[0][2][0], True), 0, 1, 0) and is_OL(OL(rng[0][2][1], True), -1, 1, 1)
    ctx.oblig(ok, {"copy destination": expr_str(rng[0], 80) if rng else expr_str(dst, 80)}, "mem[O .. O + L - 1]")
    if not ok:
        ctx.violation("image-placement", sp_file_line(ct.get("sp")), "the image is copied to `%s` (expected mem[origin .. origin + number of image words])" % expr_str(dst, 100))
    src = fr.expr(ct["args"][1], 16)
    ok = is_tail(src)
    ctx.oblig(ok, {"image words": expr_str(src, 60)}, "everything after the origin word")
    if not ok:
        ctx.violation("image-slice", sp_file_line(ct.get("sp")), "the words copied into memory are `%s`, not the image without its origin word" % expr_str(src, 80))
    # guards: an empty image and an image that does not fit below 0x10000 are error exits that dominate both writes
    guards = []
    for b in sorted(fr.live_blocks()):
        t = fr.term(b)
        if t["k"] == "switch":
            c = fr.expr(t["a"], 16)
            for side in ("yes", "no"):
                tg = {v: x for v, x in t["targets"]}
                t_true = t["otherwise"] if 0 in tg else tg.get(1)
                t_false = tg.get(0, t["otherwise"])
                rej, acc = (t_true, t_false) if side == "yes" else (t_false, t_true)
                if rej is None or acc is None:
                    continue
                diverges = not any(fr.term(x)["k"] == "return" for x in fr.reachable(rej, avoid={acc}))
                exits = [const_int(tt["args"][0]) for bb, tt, cc in fr.calls() if cc == "std::process::exit" and bb in fr.reachable(rej, avoid={acc})]
                if diverges and exits:
                    guards.append((b, c, acc, side == "yes", exits))
    def empty_guard(c, when_true):
        x = _strip(c)
        if x[0] == "bin" and x[1] in ("Eq", "Ne") and _strip(x[3]) == ("const", 0) and olname(x[2]) == "L":
            return when_true == (x[1] == "Eq")
        if x[0] == "call" and str(x[1]).endswith("::is_empty") and is_whole(x[2][0]):
            return when_true
        if x[0] == "discr" and _strip(x[1])[0] == "call" and str(_strip(x[1])[1]).endswith("split_first") and is_whole(_strip(x[1])[2][0]):
            return not when_true          # discriminant 0 = None = empty
        return False
    def size_guard(c, when_true):
        """does the rejecting side of this comparison say exactly O + L > 0x10000 ?  decided by evaluating it on boundary cells"""
        x = _strip(c)
        if not (x[0] == "bin" and x[1] in ("Gt", "Ge", "Lt", "Le")):
            return False
        names = {olname(y) for y in expr_walk(x)} - {None}
        if not ("O" in names and (names & {"L", "Ltail"})):
            return False
        for O_ in (0, 1, 0x3000, 0x8000, 0xFFFE, 0xFFFF):
            for L_ in sorted({1, 2, 3, 0x10000 - O_ - 1, 0x10000 - O_, 0x10000 - O_ + 1, 0x10000}):
                if L_ < 1:
                    continue
                def sub(e, _o=O_, _l=L_):
                    n_ = olname(e)
                    return {"O": _o, "L": _l, "Ltail": _l - 1}.get(n_) if n_ else None
                try:
                    v_ = formula.evaluate(x, {"subst": sub, "prog": prog}, checked=False)
                except (formula.Unknown, formula.Overflow):
                    return False
                if (bool(v_) == when_true) != (O_ + L_ > 0x10000):
                    return False
        return True
    empty = [g for g in guards if empty_guard(g[1], g[3])]
    size = [g for g in guards if size_guard(g[1], g[3])]
    ctx.instance(2)
    ok = len(empty) == 1 and all(x not in (0, None) for x in empty[0][4]) and fr.dominates(empty[0][2], cb) and fr.dominates(empty[0][2], sb)
    ctx.oblig(ok, {"empty image": "error exit %s" % (empty[0][4] if empty else None)}, "diverges, dominates the load")
    if not ok:
        ctx.violation("empty-guard", fr.file_line(), "an empty image is not rejected with an error exit before anything is loaded")
    ok = len(size) == 1 and all(x not in (0, None) for x in size[0][4]) and fr.dominates(size[0][2], cb) and fr.dominates(size[0][2], sb)
    others = [g for g in guards if g not in empty and g not in size]
    ctx.oblig(ok, {"size guard": expr_str(size[0][1], 100) if size else None}, "rejects exactly O + L > 0x10000; dominates copy and sentinel")
    if not ok:
        cand = [expr_str(g[1], 100) for g in guards if g not in empty]
        ctx.violation("size-guard", fr.file_line(), "the loader's size guard is `%s`: it must reject exactly the images for which origin + image words + 1 > 0x10000 and dominate both memory writes"
                      % (cand[0] if cand else "missing"))
    ctx.finish_rule()

    # ------------------------------------------------------------------ R2
    ctx.rule("C03.R2", "no instruction is fetched from outside [origin, 0xFE00)", floor=2)
    ex = [b for b, t, c in rl.calls() if c == EXEC]
    ctx.need(len(ex) == 1, "execute call in the run loop")
    instr_e = rl.expr(rl.term(ex[0])["args"][1], 4, stop={"named"})
    ctx.need(instr_e[0] == "local", "named local holding the fetched word")
    il = instr_e[1]
    fdefs = rl.defs().get(il, [])
    # a word handed on through plain copies (the result of a fetch helper, once inlined) is the word that was read at their source
    for _hop in range(4):
        if len(fdefs) == 1 and fdefs[0][0] == "stmt" and fdefs[0][3]["r"]["k"] == "use" and fdefs[0][3]["r"]["a"].get("p") is not None \
                and place_is_local(fdefs[0][3]["r"]["a"]["p"]) and len(rl.defs().get(fdefs[0][3]["r"]["a"]["p"]["l"], [])) == 1:
            fdefs = rl.defs().get(fdefs[0][3]["r"]["a"]["p"]["l"], [])
        else:
            break
    # the word is read by indexing the memory, or through the accessor RunState::mem(addr) (= self.mem[addr])
    via_accessor = len(fdefs) == 1 and fdefs[0][0] == "call" and callee_of(fdefs[0][3]) == RT + "RunState::mem"
    ctx.need(len(fdefs) == 1 and (fdefs[0][0] == "stmt" or via_accessor), "single fetch statement")
    fetch_b = fdefs[0][1]
    fe = ("call", RT + "RunState::mem", tuple(rl.expr(a_, 10) for a_ in fdefs[0][3]["args"])) if via_accessor else rl.rvalue_expr(fdefs[0][3]["r"], 10)
    ok = "mem" in expr_str(fe) and "pc" in expr_str(fe)
    ctx.instance(1)
    ctx.oblig(ok, {"fetch": expr_str(fe, 80)}, "mem[pc]")
    if not ok:
        ctx.violation("fetch-expr", sp_file_line(fdefs[0][3].get("sp")), "the executed word is `%s`, not the memory word at the PC" % expr_str(fe, 80))
    bc = [b for b, t, c in rl.calls() if c == RT + "RunState::check_pc_bounds" and rl.dominates(b, fetch_b)]
    ok = False
    witness = None
    lps_ = kit.loops(rl)
    heads_ = set(lps_)
    for b in bc:
        nb = rl.term(b)["t"]
        # what happens to each outcome of the bounds test, whatever the shape of the code that examines it: unfold the CFG from the
        # call's continuation down to the fetch / the exits and evaluate it for Less, Equal and Greater
        def leaf(x, _f=fetch_b):
            if x == _f:
                return ("FETCH",)
            if x in heads_:
                return ("LOOP",)
            return None
        try:
            tree_ = formula.decision(rl, start=nb, leaf_of_block=leaf)
        except formula.NotATree:
            continue
        outcome = {}
        for v in ("Less", "Equal", "Greater"):
            def sub(e, _v=v, _dl=rl.term(b)["dest"]["l"]):
                if e[0] == "call" and e[1] == RT + "RunState::check_pc_bounds":
                    return ("variant", _v, "core::cmp::Ordering", ())
                if e[0] == "local" and e[1] == _dl:
                    return ("variant", _v, "core::cmp::Ordering", ())
                return None
            try:
                lab = formula.eval_decision(tree_, {"subst": sub, "prog": prog})
            except (formula.Unknown, formula.Overflow):
                lab = ("?",)
            outcome[v] = lab[0] if isinstance(lab, tuple) and lab and lab[0] in ("FETCH", "LOOP", "diverge", "?") else "other"
        # no PC write between the test and the fetch
        between = (rl.reachable(nb, avoid={fetch_b}) & _reaching(rl, fetch_b, avoid={b})) | {fetch_b}
        pcw = [w for w in eff.site_writes(rl, 1, between) if w[2][:2] == ("state", "pc") or w[2] == ("state",)]
        # a PC write in the fetch block itself is harmless when it comes after the fetch statement
        fi = _stmt_index(rl, fetch_b, fdefs[0][3])
        def _after_fetch(w):
            if w[0] != fetch_b:
                return False
            if w[1] != "assign":
                return True      # the block's terminator (a call) runs after every statement of the block
            idxs = [i for i, st in enumerate(rl.stmts(fetch_b)) if st["k"] == "assign" and
                    [e.get("n") for e in st["p"].get("pr", []) if isinstance(e, dict) and "f" in e] == ["state", "pc"]]
            return bool(idxs) and all(i > fi for i in idxs)
        pcw = [w for w in pcw if not _after_fetch(w)]
        if outcome.get("Equal") == "FETCH" and outcome.get("Less") == "diverge" and outcome.get("Greater") == "diverge" and not pcw:
            ok = True
            witness = nb
    ctx.instance(1)
    ctx.oblig(ok, {"fetch": "dominated by check_pc_bounds() == Equal, other outcomes cannot reach it, no PC write in between"}, "dominance")
    if not ok:
        ctx.violation("fetch-unguarded", sp_file_line(fdefs[0][3].get("sp")), "the instruction fetch is not dominated by the in-bounds outcome of the PC bounds test (or the PC is written in between)")
    cb_ = ctx.fn(RT + "RunState::check_pc_bounds")
    tree = formula.decision(cb_)
    bad = None
    END = 0xFE00
    n = 0
    for orig in (0, 1, 0x3000, 0x7FFF, 0x8000, 0xFDFF, 0xFE00, 0xFFFF):
        for base in (0, orig, END, 0x7FFF, 0x8000, 0xFFFF):
            for d in (-1, 0, 1):
                pc = base + d
                if not 0 <= pc <= 0xFFFF:
                    continue
                n += 1

                def subst(e, _pc=pc, _o=orig):
                    if e[0] == "field" and e[2] == "pc":
                        return _pc
                    if e[0] == "field" and e[2] == "orig":
                        return _o
                    return None
                try:
                    lab = formula.eval_decision(tree, {"subst": subst})
                except (formula.Unknown, formula.Overflow) as exn:
                    bad = (orig, pc, "undecidable %s" % exn)
                    break
                got = formula.label_variant(lab)
                want = "Less" if pc < orig else ("Greater" if pc >= END else "Equal")
                if got != want:
                    bad = (orig, pc, "%s, expected %s" % (got, want))
                    break
            if bad:
                break
        if bad:
            break
    ctx.instance(1)
    ctx.oblig(bad is None, {"check_pc_bounds": "%d cells" % n}, "== {pc < orig: Less, pc >= 0xFE00: Greater, else Equal}")
    if bad:
        ctx.violation("bounds-test", cb_.file_line(), "check_pc_bounds with origin 0x%04X and PC 0x%04X yields %s" % bad)
    ctx.finish_rule()

    # ------------------------------------------------------------------ R3 / R4
    ctx.rule("C03.R3", "stop conditions: PC == 0xFFFF, exception exits, debugger exit", floor=3)
    lps = kit.loops(rl)
    ctx.need(lps, "run loop")
    head = max(lps, key=lambda h: len(lps[h][0]))
    body = lps[head][0]
    exits = []
    for b in sorted(body):
        for s in rl.succ_map()[b]:
            if s not in body:
                exits.append((b, s))
        t = rl.term(b)
        if t["k"] == "call" and t.get("t") is None and not rl.is_cleanup(b):
            exits.append((b, "diverge:" + str(callee_of(t))))
    kinds = []
    for b, s in exits:
        if isinstance(s, str):
            t = rl.term(b)
            if callee_of(t) == "std::process::exit":
                kinds.append(("exit", const_int(t["args"][0]), "inside the loop"))
            elif (callee_of(t) or "").startswith("core::panicking"):
                kinds.append(("panic", " ".join(t.get("mac", []))[-30:], ""))
            else:
                kinds.append(("diverge", callee_of(t), ""))
            continue
        if rl.term(s)["k"] == "unreachable":
            continue
        t = rl.term(b)
        # fully expanded, so that a named temporary (`let bounds = self.state.check_pc_bounds()`) does not hide what is tested
        cond = expr_str(rl.expr(t["a"], 12), 200) if t["k"] == "switch" else "-"
        R = rl.reachable(s)
        codes = sorted({const_int(tt["args"][0]) for bb, tt, cc in rl.calls() if bb in R and cc == "std::process::exit"})
        rets = any(rl.term(x)["k"] == "return" for x in R)
        panics = any((callee_of(rl.term(x)) or "").startswith("core::panicking") for x in R if rl.term(x)["k"] == "call")
        kinds.append(("return" if rets else ("exit" if codes else ("panic" if panics else "?")), codes, cond))
    ctx.instance(len(kinds), {"loop exits": [list(map(str, k)) for k in kinds]})
    halt_exit = [k for k in kinds if k[0] == "return" and "pc" in k[2] and "0xffff" in k[2]]
    dbg_exit = [k for k in kinds if k[0] == "return" and "next_action" in k[2]]
    exc = [k for k in kinds if k[0] == "exit" and "check_pc_bounds" in k[2]]
    others = [k for k in kinds if k not in halt_exit and k not in dbg_exit and k not in exc]
    ok = len(halt_exit) == 1 and len(dbg_exit) == 1 and len(exc) == 2 and all(k[1] == [0xEE] for k in exc) and not others
    ctx.oblig(ok)
    if not ok:
        ctx.violation("loop-exits", rl.file_line(), "the run loop leaves through %s; expected exactly: PC == 0xFFFF (return), the debugger's ExitProgram (return) and the two "
                      "out-of-bounds outcomes of the PC test (exit 0xEE)" % kinds)
    # HALT stores exactly the sentinel the loop tests for (C02.R7 checks the store; here the test's constant)
    ctx.finish_rule()

    ctx.rule("C03.R4", "fetch at the old PC, PC + 1, then execute", floor=1)
    incs = [(b, s) for b, i, s in rl.assigns() if [e.get("n") for e in s["p"].get("pr", []) if isinstance(e, dict) and "f" in e] == ["state", "pc"]]
    ctx.instance(1)
    ok = len(incs) == 1
    if ok:
        l = lin(rl.rvalue_expr(incs[0][1]["r"], 8, stop={"named"}))
        ok = same(l, 1, [("pc", 1)]) and rl.dominates(fetch_b, incs[0][0]) and rl.dominates(incs[0][0], ex[0]) and \
            (fetch_b != incs[0][0] or _stmt_index(rl, fetch_b, fdefs[0][3]) < _stmt_index(rl, incs[0][0], incs[0][1]))
    ctx.oblig(ok, {"order": "instr = mem[pc]; pc = pc + 1; execute(instr)"}, "dominance + LIN")
    if not ok:
        ctx.violation("step-order", rl.file_line(), "the run loop does not fetch at the old PC, increment the PC by exactly one and then execute the fetched word")
    ctx.finish_rule()

    # ------------------------------------------------------------------ R5
    ctx.rule("C03.R5", "GETC and IN consume exactly one input byte", floor=2)
    tr = ctx.fn(RT + "RunState::trap")
    sw = None
    for b in sorted(tr.live_blocks()):
        t = tr.term(b)
        if t["k"] == "switch" and bits.instr_field(tr.expr(t["a"], 8), lambda e: e[0] == "arg" and e[1] == 2) == (0, 8, False):
            sw = t
    ctx.need(sw, "trap dispatch")
    tg = {v: x for v, x in sw["targets"]}
    for vec, nm in ((0x20, "GETC"), (0x23, "IN")):
        ctx.instance(1)
        reg = kit.dominated_region(tr, tg[vec])
        rc = [b for b, t, c in tr.calls() if b in reg and c == RT + "read_char"]
        exits_ = [b for b in reg if not (set(tr.succ_map()[b]) <= reg)]
        ok = len(rc) == 1 and all(tr.dominates(rc[0], b) or b == rc[0] for b in exits_) and not any(rc[0] in lps_[0] for lps_ in kit.loops(tr).values())
        ctx.oblig(ok, {nm: "one read_char on every path"}, "single call dominating the arm's exits, not in a loop")
        if not ok:
            ctx.violation("input-bytes|%s" % nm, sp_file_line(tr.term(tg[vec]).get("sp")), "%s does not read exactly one input byte on every path (%d read_char calls)" % (nm, len(rc)))
    # ... and that byte is all of R0 afterwards: what the arm stores into R0 is the character read, widened - not merged with what R0 held
    for vec, nm in ((0x20, "GETC"), (0x23, "IN")):
        reg = kit.dominated_region(tr, tg[vec])
        stores = []
        for b, t, c in tr.calls():
            if b in reg and c and c.endswith("RunState::reg_mut") and len(t["args"]) == 2 and const_int(t["args"][1]) == 0:
                for b2, i2, s2 in tr.assigns():
                    if s2["p"].get("pr") == ["*"] and s2["p"]["l"] == t["dest"]["l"]:
                        stores.append((b2, s2))
        ctx.instance(1)
        okv, shown = bool(stores), "no store into R0"
        for b2, s2 in stores:
            v_ = kit.strip_casts(tr.rvalue_expr(s2["r"], 12))
            for _ in range(4):
                if v_[0] == "call" and re.search(r"convert::(num::)?<impl core::convert::From<\w+> for \w+>::from$|convert::Into<\w+>>::into$", str(v_[1])) and len(v_[2]) == 1:
                    v_ = kit.strip_casts(v_[2][0])
            shown = expr_str(v_, 80)
            okv = okv and v_[0] == "call" and str(v_[1]) == RT + "read_char"
        ctx.oblig(okv, {nm: "R0 := %s" % shown}, "the character read, widened")
        if not okv:
            ctx.violation("input-value-merged|%s" % nm, sp_file_line(tr.term(tg[vec]).get("sp")),
                          "%s stores `%s` into R0, not the character that was read: bits 15:8 of R0 must be zero after an input trap (a program that "
                          "compares R0 with a character constant sees the old high byte)" % (nm, shown))
    # the character handed to GETC/IN is the byte that was read: read_char's decision on the byte is evaluated for every 7-bit value
    # (the 128 bytes every terminal and every piped script can deliver; what becomes of a byte >= 0x80 is lace's own choice)
    rcf = ctx.fn(RT + "read_char")
    starts = [b for b in sorted(rcf.live_blocks()) if rcf.term(b)["k"] == "switch" and (kit.switch_on_discr_of_local(rcf, b) or (None, None))[1] == "core::option::Option"]
    ctx.instance(1)
    bad7 = None
    if starts:
        from .. import formula as _f
        tree7 = _f.decision(rcf, start=starts[0])
        for bv in range(128):
            def subst7(e, _b=bv):
                if e[0] == "discr":
                    return 1
                if e[0] == "field" and str(e[2]) == "0" and isinstance(e[1], tuple) and e[1][0] == "downcast" and e[1][2] == "Some":
                    return _b
                return None
            env7 = {"subst": subst7, "prog": prog, "bool_not": True,
                    "calls": {"<impl u8>::is_ascii": (lambda x: 1 if x is not None and x < 128 else 0),
                              "<impl u8>::is_ascii_control": (lambda x: 1 if x is not None and (x < 32 or x == 127) else 0),
                              "<impl u8>::is_ascii_graphic": (lambda x: 1 if x is not None and 33 <= x <= 126 else 0)}}
            try:
                lab7 = _f.eval_decision(tree7, env7)
                got7 = _f.evaluate(lab7, env7) if lab7 is not None else None
            except (_f.Unknown, _f.Overflow) as ex7:
                got7 = "?%s" % ex7
            if got7 != bv:
                bad7 = (bv, got7)
                break
    else:
        # combinator form: `byte.filter(u8::is_ascii).map_or(REPLACEMENT, char::from)` - the returned expression is evaluated with the
        # byte read bound to Some(b); the functions handed to filter / map_or are applied through the same summaries
        from .. import formula as _f
        ret_e = rcf.local_expr(0, 14, stop={"named"})
        PRED = {"is_ascii": lambda x: x < 128, "is_ascii_control": lambda x: x < 32 or x == 127, "is_ascii_graphic": lambda x: 33 <= x <= 126}
        def apply_fn(fe, v):
            nm = str(fe[1]) if isinstance(fe, tuple) and fe and fe[0] == "fn" else None
            if nm is None:
                raise _f.Unknown("function value")
            m_ = re.search(r"<impl u8>::(\w+)$", nm)
            if m_ and m_.group(1) in PRED:
                return 1 if PRED[m_.group(1)](v) else 0
            if re.search(r"From<u8> for (char|u16|u32|usize)>::from$", nm):
                return v
            raise _f.Unknown("call of " + nm)
        def ev7(e, b_):
            e = kit.strip_refs(e)
            if e[0] == "local" and "Option<u8>" in rcf.local_ty(e[1]):
                return ("Some", b_)
            if e[0] == "const":
                return e[1]
            if e[0] == "cast":
                return ev7(e[3], b_)
            if e[0] == "call" and str(e[1]).endswith("Option::<T>::filter") and len(e[2]) == 2:
                o = ev7(e[2][0], b_)
                return o if isinstance(o, tuple) and o[0] == "Some" and apply_fn(e[2][1], o[1]) else ("None",)
            if e[0] == "call" and str(e[1]).endswith("Option::<T>::map_or") and len(e[2]) == 3:
                o = ev7(e[2][0], b_)
                return apply_fn(e[2][2], o[1]) if isinstance(o, tuple) and o[0] == "Some" else ev7(e[2][1], b_)
            if e[0] == "call" and str(e[1]).endswith("Option::<T>::map") and len(e[2]) == 2:
                o = ev7(e[2][0], b_)
                return ("Some", apply_fn(e[2][1], o[1])) if isinstance(o, tuple) and o[0] == "Some" else ("None",)
            if e[0] == "call" and str(e[1]).endswith("Option::<T>::unwrap_or") and len(e[2]) == 2:
                o = ev7(e[2][0], b_)
                return o[1] if isinstance(o, tuple) and o[0] == "Some" else ev7(e[2][1], b_)
            raise _f.Unknown(expr_str(e, 60))
        try:
            for bv in range(128):
                got7 = ev7(ret_e, bv)
                if got7 != bv:
                    bad7 = (bv, got7)
                    break
        except _f.Unknown as ex7:
            bad7 = ("-", "a result that could not be read (%s)" % ex7)
    ctx.oblig(bad7 is None, {"read_char": "every byte 0x00..0x7F is handed on unchanged"}, "decision evaluated on the 128 seven-bit values")
    if bad7 is not None:
        ctx.violation("input-value", rcf.file_line(), "read_char turns the input byte %s into %s: GETC/IN must hand the program the byte that was read (every 7-bit value unchanged)"
                      % ("0x%02X" % bad7[0] if isinstance(bad7[0], int) else bad7[0], ("0x%04X" % bad7[1]) if isinstance(bad7[1], int) else bad7[1]))
    rb = ctx.fn(RT + "read_byte_stdin")
    bufs = [s for b, i, s in rb.assigns() if s["r"]["k"] == "repeat" or (s["r"]["k"] == "agg" and s["r"].get("ak") == "array")]
    ok = any("1" in str(s["r"].get("n", "")) or len(s["r"].get("ops", [])) == 1 for s in bufs)
    ctx.oblig(ok, {"stdin buffer": "1 byte"}, "array length")
    if not ok:
        ctx.violation("stdin-buffer", rb.file_line(), "the stdin reader does not use a one-byte buffer")
    # the byte is obtained with read_exact: a plain read() reports end of input as Ok(0), which would hand the program a phantom NUL
    rd = [c for b, t, c in rb.calls() if c and ("std::io::Read" in c or "io::Read>" in c)]
    ok = bool(rd) and all(c.endswith("::read_exact") for c in rd)
    ctx.oblig(ok, {"stdin read": [short(c).rsplit("::", 1)[-1] for c in rd]}, "read_exact only")
    if not ok:
        ctx.violation("stdin-read-api", rb.file_line(), "the stdin reader obtains its byte with %s instead of read_exact: at end of input no error is raised, "
                      "GETC/IN return 0 without consuming anything and the program runs on" % [short(c).rsplit("::", 1)[-1] for c in rd])
    ex1 = [const_int(t["args"][0]) for b, t, c in rb.calls() if c == "std::process::exit"]
    ok = ex1 == [1]
    ctx.oblig(ok, {"end of input": "exit(%s)" % ex1}, "status 1")
    if not ok:
        ctx.violation("eof-exit", rb.file_line(), "premature end of input ends the process with %s (expected exit status 1)" % ex1)
    ctx.finish_rule()

    # ------------------------------------------------------------------ R6
    ctx.rule("C03.R6", "which bits the output traps print, and in which order", floor=4)
    def printed(vec):
        reg = kit.dominated_region(tr, tg[vec])
        out = []
        for b in sorted(reg, key=lambda x: (len(tr.dominators()[x]), x)):
            t = tr.term(b)
            if t["k"] == "call" and (callee_of(t) or "").endswith("output::Output::print"):
                out.append(tr.expr(t["args"][1], 14))
            elif t["k"] == "call" and (callee_of(t) or "").endswith("output::Output::print_decimal"):
                out.append(("decimal", tr.expr(t["args"][1], 8)))
        return out
    from .. import pipe as _pipe

    def pipeline(vec):
        """the output trap written as an iterator chain: (elements reaching the consumer per source item, take_while stops, consumer) or None"""
        reg = kit.dominated_region(tr, tg[vec])
        for b in sorted(reg):
            t = tr.term(b)
            if t["k"] != "call":
                continue
            st = _pipe.chain(prog, tr, t)
            if st is None:
                continue
            sink_fn = prog.fns.get(st[-1][1])
            if sink_fn is None or not any(c and c.endswith("output::Output::print") for bb, tt, c in sink_fn.calls()):
                continue
            r = _pipe.elements(prog, tr, st)
            if r is not None:
                return st, r
        # ... or a chain drained by a `for` loop whose body prints the item it was handed, on every round
        lps = kit.loops(tr)
        for b in sorted(reg):
            t = tr.term(b)
            if t["k"] != "call":
                continue
            st = _pipe.chain_of_loop(prog, tr, t)
            if st is None or t.get("t") is None:
                continue
            sw_ = tr.term(t["t"])
            if sw_["k"] != "switch":
                continue
            some_t = {v: x for v, x in sw_["targets"]}.get(1)
            heads = [h for h, lp in lps.items() if b in lp[0]]
            if some_t is None or not heads:
                continue
            dl = t["dest"]["l"]
            def is_item(op):
                """the operand is the payload of the Some this `next` call returned, handed on through plain copies"""
                p_ = op.get("p")
                for _hop in range(5):
                    if p_ is None:
                        return False
                    pr_ = p_.get("pr", [])
                    if p_["l"] == dl:
                        return len(pr_) == 2 and isinstance(pr_[0], dict) and pr_[0].get("n", pr_[0].get("dc")) == "Some" and isinstance(pr_[1], dict) and pr_[1].get("f") == 0
                    if pr_:
                        return False
                    sd_ = tr.single_def(p_["l"])
                    if not (sd_ and sd_[0] == "stmt" and sd_[3]["r"]["k"] == "use"):
                        return False
                    p_ = sd_[3]["r"]["a"].get("p")
                return False
            body = tr.reachable(some_t, avoid={b})
            pr = [bb for bb in sorted(body) if tr.term(bb)["k"] == "call" and (callee_of(tr.term(bb)) or "").endswith("output::Output::print")]
            if len(pr) != 1 or not is_item(tr.term(pr[0])["args"][1]):
                continue
            if b in tr.reachable(some_t, avoid={pr[0]}):
                continue          # a round can come back for the next item without printing this one
            r = _pipe.elements(prog, tr, st)
            if r is not None:
                return st, r
        return None

    def strip_casts(e):
        while e[0] == "cast":
            e = e[3]
        return e

    def is_mem_word(e):
        return e[0] == "call" and str(e[1]).endswith("RunState::mem")

    def low_byte(e):
        return e[0] == "cast" and e[2] == "char" and e[3][0] == "cast" and e[3][2] == "u8"
    for vec, nm in ((0x21, "OUT"), (0x22, "PUTS")):
        ps = printed(vec)
        if nm == "PUTS" and not (len(ps) == 1 and low_byte(ps[0])):
            pl = pipeline(vec)
            if pl is not None:
                ps = list(pl[1][0])          # what reaches the printing consumer for one source item
        ctx.instance(1)
        ok = len(ps) == 1 and low_byte(ps[0])
        inner = ps[0][3][3] if ok else None
        ok = ok and (inner[0] != "bin" or (inner[1] == "BitAnd" and ("const", 0xFF) in (inner[2], inner[3])))
        src = expr_str(inner, 80) if inner else "?"
        ok = ok and (("reg(" in src and "0)" in src) if nm == "OUT" else "mem(" in src)
        ctx.oblig(ok, {nm: src}, "bits 7:0 of " + ("R0" if nm == "OUT" else "each word"))
        if not ok:
            ctx.violation("output-bits|%s" % nm, sp_file_line(tr.term(tg[vec]).get("sp")), "%s prints `%s` (expected the low byte of %s)" % (nm, [expr_str(p, 80) for p in ps], "R0" if nm == "OUT" else "each memory word"))
    # PUTSP: array [low, high]
    reg = kit.dominated_region(tr, tg[0x24])
    arrs = [s for b in reg for s in tr.stmts(b) if s["k"] == "assign" and s["r"]["k"] == "agg" and s["r"].get("ak") == "array" and len(s["r"]["ops"]) == 2]
    ctx.instance(1)
    ok = len(arrs) == 1
    plp = pipeline(0x24) if not ok else None
    if plp is not None and len(plp[1][0]) == 2:
        e0, e1 = (strip_casts(x) for x in plp[1][0])
        f0, f1 = bits.instr_field(e0, is_mem_word), bits.instr_field(e1, is_mem_word)
        ok = f0 == (0, 8, False) and f1 == (8, 8, False)
        desc = [expr_str(e0, 60), expr_str(e1, 60)]
    elif ok:
        e0, e1 = (tr.expr(o, 8, stop={"named"}) for o in arrs[0]["r"]["ops"])
        f0 = bits.instr_field(e0, lambda e: e[0] == "local" and e[2] == "chr_raw")
        f1 = bits.instr_field(e1, lambda e: e[0] == "local" and e[2] == "chr_raw")
        ok = f0 == (0, 8, False) and f1 == (8, 8, False)
        desc = [expr_str(e0), expr_str(e1)]
    else:
        desc = "?"
        # `word.to_le_bytes()` is the pair [bits 7:0, bits 15:8] by definition (to_be_bytes is the other order and is not accepted)
        le_ = [t_ for b_ in sorted(reg) for t_ in [tr.term(b_)] if t_["k"] == "call" and (callee_of(t_) or "").endswith("<impl u16>::to_le_bytes")]
        if len(le_) == 1 and not arrs and is_mem_word(kit.strip_refs(tr.expr(le_[0]["args"][0], 10))):
            ok, desc = True, ["to_le_bytes(%s)" % expr_str(tr.expr(le_[0]["args"][0], 10), 40)]
    ctx.oblig(ok, {"PUTSP": desc}, "[bits 7:0, bits 15:8]")
    if not ok:
        ctx.violation("putsp-order", sp_file_line(tr.term(tg[0x24]).get("sp")), "PUTSP prints %s per word; the ISA packs the first character in bits 7:0 and the second in bits 15:8" % desc)
    ps = printed(0x26)
    ctx.instance(1)
    ok = len(ps) == 1 and ps[0][0] == "decimal" and "reg(" in expr_str(ps[0][1])
    pd = ctx.fn("lace::output::Output::print_decimal")
    ok = ok and any(s["r"]["k"] == "cast" and s["r"].get("from") == "u16" and s["r"].get("ty") == "i16" for b, i, s in pd.assigns())
    ctx.oblig(ok, {"PUTN": "R0 as i16, decimal"}, "cast in print_decimal")
    if not ok:
        ctx.violation("putn", sp_file_line(tr.term(tg[0x26]).get("sp")), "PUTN does not print R0 reinterpreted as a signed 16-bit decimal")
    ctx.finish_rule()

    # ------------------------------------------------------------------ R7
    ctx.rule("C03.R7", "PUTS/PUTSP stop at the first zero byte they would print, and only there (or when the address range is exhausted)", floor=2)
    def strip(e):
        while e[0] == "cast":
            e = e[3]
        return e
    for vec, nm in ((0x22, "PUTS"), (0x24, "PUTSP")):
        reg = kit.dominated_region(tr, tg[vec])
        prints = [b for b in sorted(reg) if tr.term(b)["k"] == "call" and (callee_of(tr.term(b)) or "").endswith("output::Output::print")]
        pl = pipeline(vec)
        if not prints or (pl is not None and pl[1][2] is not None and pl[1][2][2] == "for"):
            if pl is not None:
                # iterator-chain form: the chain ends `.take_while(|c| c != 0).for_each(print)`: the stop test is the last stage before the
                # consumer, it tests the very elements that are printed against zero, nothing filters in between, and the consumer prints
                # its item
                stages, (elems, stops, sink) = pl
                ctx.instance(1)
                badp = []
                kinds = [st_[0] for st_ in stages]
                if [k_ for k_ in kinds if k_ in ("filter",)]:
                    badp.append("a filter stage drops characters")
                if len(stops) != 1 or kinds[-2:-1] != ["take_while"]:
                    badp.append("the chain does not end in exactly one take_while before the printing consumer")
                else:
                    pos_, kind_, preds = stops[0]
                    for el, pr_ in zip(elems, preds):
                        pr_ = strip_casts(pr_)
                        okp = pr_[0] == "bin" and pr_[1] == "Ne" and ("const", 0) in (pr_[2], pr_[3]) and \
                            strip_casts(pr_[3] if pr_[2] == ("const", 0) else pr_[2]) == strip_casts(el)
                        if not okp:
                            badp.append("the stop test `%s` is not `printed character != 0`" % expr_str(pr_, 80))
                    if len(preds) != len(elems):
                        badp.append("the stop test does not see every printed character")
                if sink is not None and sink[2] == "for":
                    pass          # the loop body was matched in pipeline(): one print of the item handed over, on every round
                elif sink is not None:
                    sf_ = sink[0]
                    pa = [sf_.expr(tt["args"][1], 8) for bb, tt, c_ in sf_.calls() if c_ and c_.endswith("output::Output::print")]
                    def is_param(x):
                        while x[0] in ("ref", "deref", "cast"):
                            x = x[3] if x[0] == "cast" else x[1]
                        return x[0] == "arg" and x[1] == 2
                    if len(pa) != 1 or not is_param(pa[0]):
                        badp.append("the consumer does not print exactly its item")
                else:
                    badp.append("no printing consumer")
                ctx.oblig(not badp, {nm: "iterator chain %s" % " -> ".join(kinds)}, "take_while(!= 0) directly before the printing for_each")
                if badp:
                    ctx.violation("string-termination|%s" % nm, sp_file_line(tr.term(tg[vec]).get("sp")), "%s: %s" % (nm, "; ".join(sorted(set(badp)))))
                continue
        ctx.need(prints, "print call in the %s arm" % nm)
        can = set()
        for pb in prints:
            can |= (_reaching(tr, pb) & reg)
        ctx.instance(1)
        vals = [(strip(tr.expr(tr.term(pb)["args"][1], 10, stop={"named"})), strip(tr.expr(tr.term(pb)["args"][1], 14))) for pb in prints]
        def zero_test(b):
            """(zero successor, nonzero successor) when block b branches on `printed value == 0`"""
            t = tr.term(b)
            if t["k"] != "switch":
                return None
            tgs = {v: x for v, x in t["targets"]}
            for depth, stop, which in ((10, {"named"}, 0), (14, None, 1)):
                c = tr.expr(t["a"], depth, stop=stop) if stop else tr.expr(t["a"], depth)
                if c[0] == "bin" and c[1] in ("Eq", "Ne") and ("const", 0) in (c[2], c[3]):
                    other = strip(c[3] if c[2] == ("const", 0) else c[2])
                    if any(other == v[which] for v in vals):
                        t_true = t["otherwise"] if 0 in tgs else tgs.get(1)
                        t_false = tgs.get(0, t["otherwise"])
                        return (t_true, t_false) if c[1] == "Eq" else (t_false, t_true)
                if any(strip(c) == v[which] for v in vals) and 0 in tgs:     # `match chr { 0 => .., _ => .. }`
                    return (tgs[0], t["otherwise"])
            return None
        def exhausted(b):
            """b branches on the Option returned by an Iterator::next call (the address range ran out)"""
            t = tr.term(b)
            if t["k"] != "switch":
                return False
            c = tr.expr(t["a"], 6)
            return c[0] == "discr" and c[1][0] == "call" and "Iterator" in str(c[1][1]) and str(c[1][1]).endswith("::next")
        zts = {b: zero_test(b) for b in sorted(can) if zero_test(b)}
        bad = []
        # (a) each print is only reachable through the non-zero side of a zero test on its own value, whose zero side prints nothing more
        for pb in prints:
            doms = [b for b in zts if tr.dominates(b, pb)]
            good = [b for b in doms if zts[b][0] not in can and pb in tr.reachable(zts[b][1], avoid={b})]
            if not good:
                bad.append("the character printed at %s is not tested against zero first, or the zero case goes on printing" % sp_file_line(tr.term(pb).get("sp")))
        # (b) every other way out of the printing loop is the exhausted address range
        sm = tr.succ_map()
        for b in sorted(can):
            outs = [x for x in sm[b] if x not in can and x in reg and tr.term(b)["k"] == "switch"]
            if not outs:
                continue
            if b in zts and set(outs) == {zts[b][0]}:
                continue
            if exhausted(b):
                continue
            bad.append("the printing loop is also left at %s on a condition that is neither the zero byte nor the end of the address range" % sp_file_line(tr.term(b).get("sp")))
        ctx.oblig(not bad, {nm: "zero-byte tests at %s" % sorted(sp_file_line(tr.term(b).get("sp")) for b in zts)}, "zero test dominates each print; zero side prints nothing more; no other loop exit")
        if bad:
            ctx.violation("string-termination|%s" % nm, sp_file_line(tr.term(tg[vec]).get("sp")), "%s: %s" % (nm, "; ".join(sorted(set(bad)))))
    ctx.finish_rule()



def _reaching(fn, target, avoid=()):
    pm = fn.pred_map()
    seen = set()
    work = [target]
    while work:
        x = work.pop()
        if x in seen or x in avoid:
            continue
        seen.add(x)
        work.extend(pm[x])
    return seen


def _stmt_index(fn, b, stmt):
    for i, s in enumerate(fn.stmts(b)):
        if s is stmt:
            return i
    return -1
