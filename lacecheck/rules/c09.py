"""C09 — the debugger is transparent to the program."""
import re
from ..facts import callee_of, short, sp_file_line, expr_walk
from .. import kit, dbg
from ..effects import Effects

EXPLANATION = (
    "Effect analysis (which components of the machine state a function may write through a &mut parameter, closed over "
    "the resolved call graph, accessor idioms recognised) applied per match arm of the debugger's command dispatcher. "
    "R1: every arm except the documented mutators (reset, move, goto, eval) and session enders has an empty write-set on "
    "RunState. R2: the pausing code (next_action and its callees) writes RunState only through the dispatcher. "
    "R3: the run loop has exactly one fetch/increment/execute site; between a Proceed and that site nothing but the PC "
    "increment writes the state; execute has exactly two callers (run loop, eval). R4: nothing reachable from the pausing "
    "code prints to stdout except the program's own traps (through eval->execute), the interactive TTY reader, and "
    "reviewed exceptions. R5: quit/end-of-input detach the debugger and fall back into the very loop C03 checks. "
    "R6 (GLOB): for every thread-local that code reachable from the pausing code may write (the line-start tracker), every branch that "
    "tests it controls no call that can reach stdout - otherwise debugger text on stderr changes what the program prints on stdout. "
    "R7: the stdin command reader holds the process-wide Stdin handle (no private BufReader) and reads it one byte at a time, so it consumes exactly "
    "its own command lines and leaves the program's input alone."
    " R8: where the loader branches on the debugger options, the side that has them contains no error exit and no process exit (attaching the debugger cannot make a load fail)."
)
NOT_DECIDED = "equality of complete runs (follows on paper from R1-R5 and determinism of execute)"

MUTATORS = {"Reset", "Move", "Goto", "Eval"}
ENDERS = {"Quit", "Exit"}
EXEC = "lace::runtime::RunState::execute"
# functions allowed to call std::io::_print although reachable from the pausing code, with the reason
STDOUT_OK = {
    "lace::runtime::RunState::trap": "the program's own HALT banner (reached only through eval -> execute)",
    "lace::<output::NormalWriter as core::fmt::Write>::write_str": "Output::Normal, the program's channel (only constructed in runtime)",
    "lace::<term::Key as core::convert::TryFrom<crossterm::event::KeyEvent>>::try_from": "Ctrl+C on the interactive TTY",
}


# the interactive line editor draws its prompt and echo on stdout; it only exists when stdin is a terminal, i.e. not in a scripted session
STDOUT_OK_PREFIX = {"lace::debugger::command::reader::terminal::Terminal::": "interactive TTY reader (not a scripted session)"}


def _stdout_ok(n):
    if n in STDOUT_OK:
        return STDOUT_OK[n]
    for p_, why in STDOUT_OK_PREFIX.items():
        if n.startswith(p_):
            return why
    return None


def run(ctx):
    prog = ctx.prog
    eff = Effects(prog)
    disp, sw_bb, arms, sp, selfp = dbg.dispatcher(ctx)
    pz = dbg.pauser(ctx, disp)
    rl = dbg.run_loop(ctx, pz)

    ctx.rule("C09.R1", "non-mutating command arms have an empty write-set on the machine state", floor=12)
    # prologue (everything not dominated by an arm entry) must not write either
    arm_blocks = set()
    for name, entry in arms.items():
        arm_blocks |= dbg.arm_region(disp, entry)
    groups = [(name, dbg.arm_region(disp, entry)) for name, entry in sorted(arms.items())
              if name not in MUTATORS and name not in ENDERS]
    groups.append(("<prologue/epilogue>", disp.live_blocks() - arm_blocks))
    for name, region in groups:
        ws = eff.site_writes(disp, sp, region)
        if name != "<prologue/epilogue>":
            ctx.instance(1)
        ctx.oblig(not ws, {"arm": name, "blocks": len(region), "state_writes": 0}, "effect analysis: write-set = {}")
        for b, kind, path, span in ws:
            ctx.violation("arm=%s|%s|%s" % (name, kind.split(":")[0] + ":" + short(kind.split(":", 1)[1]) if ":" in kind else kind,
                                            ".".join(path) or "*"),
                          sp_file_line(span),
                          "inspection/control command `%s` may write machine state component `%s` (%s): a run under the "
                          "debugger then differs from the plain run" % (name, ".".join(path) or "whole state", kind))
    ctx.finish_rule()

    ctx.rule("C09.R2", "pausing code writes the machine state only through the dispatcher", floor=1)
    pz_sp = [i for i in range(1, pz.arg_count + 1) if pz.local_ty(i) == dbg.STATE_TY]
    ctx.need(pz_sp, "&mut RunState parameter of the pausing function")
    ws = eff.site_writes(pz, pz_sp[0])
    ctx.instance(1, {"pausing_fn": short(pz.name), "write_sites": len(ws)})
    for b, kind, path, span in ws:
        ok = kind == "call:" + disp.name
        ctx.oblig(ok)
        if not ok:
            ctx.violation("pauser|%s|%s" % (kind, ".".join(path) or "*"), sp_file_line(span),
                          "`%s` writes machine state `%s` outside the command dispatcher (%s): pausing must not change the program"
                          % (short(pz.name), ".".join(path) or "*", kind))
    ctx.finish_rule()

    ctx.rule("C09.R3", "one machine: a single execute site in the run loop; execute has exactly the two known callers", floor=1)
    ex_blocks = [b for b, t, c in rl.calls() if c == EXEC]
    ctx.instance(len(ex_blocks))
    ctx.oblig(len(ex_blocks) == 1)
    if len(ex_blocks) != 1:
        ctx.violation("execute-sites=%d" % len(ex_blocks), rl.file_line(),
                      "the run loop has %d execute sites (expected exactly 1): stepping must not use a second interpreter path" % len(ex_blocks))
    callers = set(ctx.cg.callers(EXEC))
    allowed = {rl.name, "lace::debugger::eval::eval_inner"}
    if "lace::debugger::eval::eval_inner" not in ctx.prog.fns:
        allowed.add("lace::debugger::eval::eval")          # eval and its inner routine are one piece of code
    for c in sorted(callers - allowed):
        ctx.violation("caller=%s" % short(c), ctx.prog.fns[c].file_line() if c in ctx.prog.fns else "-",
                      "`%s` calls RunState::execute; only the run loop and eval may execute instructions" % short(c))
    ctx.oblig(not (callers - allowed), {"callers_of_execute": sorted(short(c) for c in callers)}, "closed caller set")
    # between the pausing call and execute nothing but the PC increment writes the state
    pz_blocks = [b for b, t, c in rl.calls() if c == pz.name]
    ctx.need(pz_blocks, "call of the pausing function in the run loop")
    if len(ex_blocks) == 1:
        eb = ex_blocks[0]
        # blocks on some path pz -> execute
        fwd = rl.reachable(pz_blocks[0], avoid={eb})
        back = set()
        pm = rl.pred_map()
        work = [eb]
        while work:
            x = work.pop()
            if x in back:
                continue
            back.add(x)
            for p in pm[x]:
                if p != eb:
                    work.append(p)
        between = (fwd & back) - {pz_blocks[0]}
        ws = [w for w in eff.site_writes(rl, 1, between) if w[2][:1] == ("state",)]
        for b, kind, path, span in ws:
            ok = path == ("state", "pc") and kind == "assign"
            ctx.oblig(ok, {"write_between_proceed_and_execute": ".".join(path), "at": sp_file_line(span)}, "PC increment only")
            if not ok:
                ctx.violation("between|%s|%s" % (kind, ".".join(path)), sp_file_line(span),
                              "the run loop writes `%s` between the debugger's Proceed and execute (%s)" % (".".join(path), kind))
    ctx.finish_rule()

    ctx.rule("C09.R4", "debugger text never goes to the program's stdout", floor=1)
    reach = ctx.cg.reachable([pz.name])
    printers = sorted(n for n in reach if n in prog.fns and "std::io::stdio::_print" in ctx.cg.callees(n))
    for n in printers:
        ctx.instance(1)
        ok = _stdout_ok(n) is not None
        if not ok:
            # the `sudo` easter egg: only on the unknown-command path for the literal name "sudo", which is not in
            # C09's script alphabet (it is reported under C14.R2, where every line is quantified over)
            f = prog.fns[n]
            pbs = [b for b, t, c in f.calls() if c == "std::io::stdio::_print"]
            guards = [g for g in kit.str_eq_guards(prog, f) if g[1] == "sudo"]
            if pbs and guards and all(any(f.dominates(g[2], pb) for g in guards) for pb in pbs):
                ok = True
                ctx.note("stdout write in %s is dominated by `== \"sudo\"` (outside C09's command alphabet; see C14.R2)" % short(n))
        ctx.oblig(ok, {"prints_to_stdout": short(n), "accepted_because": _stdout_ok(n)}, "reviewed closed set")
        if not ok:
            p = ctx.cg.path(pz.name, lambda x: x == n)
            ctx.violation("stdout|fn=%s" % short(n), prog.fns[n].file_line(),
                          "`%s` prints to stdout and is reachable from the debugger's pausing code (%s): debugger text "
                          "pollutes the program's output" % (short(n), " -> ".join(short(x) for x in (p or []))))
    # Output::Normal must not be constructed inside debugger code
    for n, f in sorted(prog.fns.items()):
        if not (n.startswith("lace::debugger::") and f.bkind == "fn"):
            continue
        for b, i, s in f.assigns():
            r = s["r"]
            if r["k"] == "agg" and r.get("adt") == "lace::output::Output" and r.get("variant") == "Normal":
                ctx.violation("Output::Normal|fn=%s" % short(n), sp_file_line(s.get("sp")),
                              "debugger code `%s` uses Output::Normal (stdout) instead of Output::Debugger (stderr)" % short(n))
    ctx.finish_rule()

    ctx.rule("C09.R5", "quit and end of input hand control back to the undebugged loop", floor=2)
    # in the dispatcher: Quit arm returns Some(Action::StopDebugger); EOF maps to Command::Quit
    quit_region = dbg.arm_region(disp, arms["Quit"])
    found = False
    for b in quit_region:
        for s in disp.stmts(b):
            if s["k"] == "assign" and s["r"]["k"] == "agg" and s["r"].get("adt") == "lace::debugger::Action":
                found = found or s["r"].get("variant") == "StopDebugger"
                if s["r"].get("variant") != "StopDebugger":
                    ctx.violation("quit-action=%s" % s["r"].get("variant"), sp_file_line(s.get("sp")),
                                  "`quit` raises Action::%s instead of StopDebugger" % s["r"].get("variant"))
    # ... on every path through the arm: `quit` (and therefore end of input) must never be refused
    dodge, stop_b = dbg.quit_dodges(disp, arms)
    ctx.oblig(not dodge, {"quit": "StopDebugger on every path of the arm"}, "must-pass-through")
    if dodge:
        ctx.violation("quit-refused", sp_file_line(disp.term(arms["Quit"]).get("sp")),
                      "the Quit arm has a path (lines %s) that does not raise StopDebugger: end of input is mapped to quit, so once the input is exhausted in that "
                      "situation the debugger re-reads end of input forever and the program never finishes" % disp.path_lines(disp.path(arms["Quit"], dodge, avoid=stop_b)))
    ctx.instance(1)
    ctx.oblig(found, {"quit": "Action::StopDebugger"}, "aggregate in the Quit arm")
    if not found:
        ctx.violation("quit-action=none", disp.file_line(), "the Quit arm does not raise Action::StopDebugger")
    # EOF -> Quit: the Option<Command> from the reader is unwrapped with default Command::Quit
    eof_ok = False
    for b, t, c in disp.calls():
        if c and c.endswith("Option::<T>::unwrap_or"):
            e = disp.expr(t["args"][1], 6)
            if e[0] == "agg" and e[1][0] == "adt" and e[1][1] == dbg.COMMAND_ADT:
                ctx.instance(1)
                eof_ok = e[1][2] == "Quit"
                ctx.oblig(eof_ok, {"end_of_input_maps_to": "Command::" + str(e[1][2])}, "unwrap_or default")
                if not eof_ok:
                    ctx.violation("eof=%s" % e[1][2], sp_file_line(t.get("sp")),
                                  "end of input is mapped to `%s`, not `quit`: the program no longer finishes as in a plain run" % e[1][2])
    if not eof_ok and not ctx.cur.violations:
        ctx.violation("eof=unknown", disp.file_line(), "could not find the end-of-input default command (anchor lost)")
    # in the run loop: the StopDebugger arm sets self.debugger = None
    act = list(kit.discr_switches(rl, "lace::debugger::Action"))
    ctx.need(act, "match on Action in the run loop")
    b, place, targets, oth = act[0]
    vidx = [v["idx"] for v in prog.adt("lace::debugger::Action")["variants"] if v["name"] == "StopDebugger"][0]
    reg = kit.dominated_region(rl, targets[vidx])
    cleared = False
    for bb in reg:
        for s in rl.stmts(bb):
            if s["k"] == "assign" and [e.get("n") for e in s["p"].get("pr", []) if isinstance(e, dict)] == ["debugger"]:
                e = rl.rvalue_expr(s["r"], 4)
                if e[0] == "agg" and e[1][-1] == "None":
                    cleared = True
    ctx.oblig(cleared, {"StopDebugger": "self.debugger = None"}, "assignment in the arm")
    if not cleared:
        ctx.violation("stop-not-detached", sp_file_line(rl.term(targets[vidx]).get("sp")),
                      "the StopDebugger arm of the run loop does not detach the debugger")
    ctx.finish_rule()

    # ------------------------------------------------------------------ R6
    ctx.rule("C09.R6", "what the program writes to stdout does not depend on global state that debugger output changes", floor=1)
    from ..glob import Globals
    from ..facts import expr_walk
    G = Globals(ctx)
    dbg_reach = ctx.cg.reachable([pz.name])
    STDOUT = ("std::io::stdio::_print", "std::io::stdio::stdout")
    def reaches_stdout(t):
        names = [callee_of(t)] + [c[3:] if c.startswith("fn:") else c for c in t["f"].get("closures", [])]
        for nm in names:
            if nm is None:
                continue
            if nm in STDOUT or (ctx.cg.reachable([nm]) & set(STDOUT)):
                return nm
        return None
    nshared = 0
    for k in G.keys:
        if not (G.writers[k] & dbg_reach):
            continue                      # the debugger cannot change this global
        nshared += 1
        readers = set(G.readers[k])
        done = set()
        while readers - done:
            r = sorted(readers - done)[0]
            done.add(r)
            for h in sorted(ctx.cg.callers(r)):
                hf = prog.fns.get(h)
                if hf is None or hf.bkind != "fn":
                    continue
                sites = [b for b, t, c in hf.calls() if c == r]
                if not sites:
                    continue
                tested = []
                for b in sorted(hf.live_blocks()):
                    t = hf.term(b)
                    if t["k"] == "switch" and any(x[0] == "call" and x[1] == r for x in expr_walk(hf.expr(t["a"], 6))):
                        tested.append(b)
                if not tested:
                    readers.add(h)        # hands the value on: its callers are the ones that branch on it
                    continue
                sm = hf.succ_map()
                for sb in tested:
                    succs = sm[sb]
                    rs = [hf.reachable(x) for x in succs]
                    common = set.intersection(*rs) if rs else set()
                    controlled = set.union(*rs) - common if rs else set()
                    ctx.instance(1, {"global": short(k), "tested_in": short(h), "at": sp_file_line(hf.term(sb).get("sp"))})
                    bad = []
                    for cb in sorted(controlled):
                        t = hf.term(cb)
                        if t["k"] == "call":
                            w = reaches_stdout(t)
                            if w:
                                bad.append((cb, w))
                    ctx.oblig(not bad, {"controlled region of %s" % short(h): "no stdout write"}, "call-graph reachability to _print/stdout")
                    for cb, w in bad:
                        ctx.violation("stdout-depends|global=%s|fn=%s" % (short(k), short(h)), sp_file_line(hf.term(cb).get("sp")),
                                      "`%s` writes to stdout (via %s) only when `%s` says so, and the debugger's own output changes that global: "
                                      "the program's stdout differs between a plain and a debugged run" % (short(h), short(w), short(r)))
    ctx.need(nshared >= 1, "a global written by debugger output (the line tracker)")
    ctx.finish_rule()

    # ------------------------------------------------------------------ R7
    ctx.rule("C09.R7", "the debugger takes its commands from the shared stdin handle one byte at a time (it never swallows the program's input)", floor=2)
    SR = "lace::debugger::command::reader::stdin::"
    adt = prog.adt(SR + "Stdin")
    ctx.need(adt, "struct reader::stdin::Stdin")
    ftys = {f["name"]: f["ty"] for f in adt["variants"][0]["fields"]}
    ctx.instance(1)
    handles = {k: v for k, v in ftys.items() if "io::" in v}
    ok = bool(handles) and all(v == "std::io::stdio::Stdin" for v in handles.values())
    ctx.oblig(ok, {"reader fields": handles}, "the process-wide std::io::Stdin, no private buffer")
    if not ok:
        ctx.violation("stdin-private-buffer", adt.get("span", "-"), "the stdin command reader keeps %s: a private buffer reads ahead of the command being parsed, so input meant "
                      "for the program's GETC/IN is gone once the debugger detaches" % handles)
    reads = []
    for n, f in sorted(prog.fns.items()):
        if n.startswith(SR) and f.bkind == "fn":
            for b, t, c in f.calls():
                if c and re.search(r"std::io::(Read|BufRead)>?::\w+$", c):
                    reads.append((n, f, b, t, c))
    ctx.need(reads, "read call in the stdin command reader")
    for n, f, b, t, c in reads:
        ctx.instance(1)
        recv = (t.get("arg_tys") or [""])[0].replace("&mut ", "")
        one = False
        if c.endswith("Read>::read") or c.endswith("Read>::read_exact"):
            e = f.expr(t["args"][1], 8)
            for x in expr_walk(e):
                if x[0] == "local" or x[0] == "ref":
                    pass
            # the buffer is a local array of length 1
            for l, ld in enumerate(f.d.get("locals", [])):
                if ld.get("ty") == "[u8; 1]":
                    one = True
        ok = recv == "std::io::stdio::Stdin" and one
        ctx.oblig(ok, {"read": short(c).rsplit("::", 1)[-1], "on": recv, "buffer": "[u8; 1]" if one else "?"}, "one byte from the shared handle")
        if not ok:
            ctx.violation("stdin-read-ahead|%s" % short(c).rsplit("::", 1)[-1], sp_file_line(t.get("sp")),
                          "`%s` reads through %s on `%s`: more than the one byte being examined may leave the shared input stream" % (short(n), short(c), recv))
    ctx.finish_rule()

    # ------------------------------------------------------------------ R8
    # a program that loads and runs without the debugger loads with it: where the loader branches on the debugger options, the side that
    # has them does nothing that can end the load (no error put into the result, no exit) - it only builds the Debugger
    ctx.rule("C09.R8", "attaching the debugger cannot make the load fail", floor=1)
    nsw8 = 0
    for n, f in sorted(prog.fns.items()):
        if f.bkind != "fn" or not n.startswith("lace::runtime::"):
            continue
        optargs = [i for i in range(1, (f.arg_count or 0) + 1) if "Option<" in f.local_ty(i) and "debugger::Options" in f.local_ty(i)]
        if not optargs:
            continue
        errb = kit.error_blocks(f)
        for b, place, targets, other in kit.discr_switches(f, "core::option::Option"):
            e = kit.strip_refs(f.expr({"k": "copy", "p": place}, 6))
            if not (e[0] == "arg" and e[1] in optargs):
                continue
            some_t = targets.get(1, other if 0 in targets else None)
            if some_t is None:
                continue
            nsw8 += 1
            ctx.instance(1)
            ctx.analysed_fns.add(n)
            reg = kit.dominated_region(f, some_t)
            bad = sorted(reg & errb) + sorted(bb for bb, tt, cc in f.calls() if bb in reg and cc in ("std::process::exit", "std::process::abort"))
            ctx.oblig(not bad, {"loader": short(n), "debugger side": "no error, no exit"}, "region dominated by the Some edge of the options")
            if bad:
                ctx.violation("debugger-load-failure|%s" % short(n), sp_file_line(f.term(bad[0]).get("sp")),
                              "`%s` can refuse to load a program only because a debugger is attached: the same source runs without the debugger and is rejected "
                              "(or the process ends) with it" % short(n))
    ctx.need(nsw8 >= 1, "branch on the debugger options in the loader")
    ctx.finish_rule()
