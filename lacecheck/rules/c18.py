"""C18 — the stack extension is gated by its feature flag, and only it."""
import re
from ..facts import callee_of, short, sp_file_line, expr_str, expr_walk, op_local
from .. import kit, tables
from ..effects import Effects

EXPLANATION = (
    "R1 (TAB/DOM): in the lexer's keyword routine the set of strings whose acceptance depends on the flag equals the set of "
    "strings mapped to the four stack instruction kinds, and the flag is consulted only under those strings. R2: the "
    "rejection's diagnostic names the feature (`stack`, `-f stack`). R3 (DOM/EFF): in the VM's opcode-0xD handler every "
    "state write is dominated by the flag's true successor and the false successor reaches exit(1) without returning. "
    "R4 (WHO): closed set of readers of the flag - lexer gate, 0xD handler and its two helpers, the debugger's step-out arm; "
    "parser, AIR, encoder, loader and the other handlers never evaluate it, so a program without the four mnemonics and "
    "without opcode 0xD behaves identically under both settings. R5 (TAB/EFF): flag parsing ('stack', empty words, unknown "
    "and repeated words) and single initialisation."
    ' R3 also requires the flag test itself (not only the block behind it) to dominate every state write of the 0xD handler. R5 accepts Cell- or RefCell-based single initialisation and requires the empty feature word to be skipped (filter / continue), not to end the list. R6 (DOM/CG): every construction of a plain Label token in the lexer sits in the keyword routine, behind a call of it, or in a helper only called from such places - no identifier path goes round the gate. R5 also: two values of the stack flag are never combined by exclusive or or by a comparison (a flag written twice must stay on).'
)

NOT_DECIDED = "nothing of substance (the uninitialised-flag case of check/watch is C07.R2)"

FLAG = "lace::features::stack"
LEX = "lace::lexer::<impl lexer::cursor::Cursor<'_>>::check_instruction"
STACK_KINDS = {"Push", "Pop", "Call", "Rets"}
READERS = {
    LEX: "lexer gate",
    "lace::runtime::RunState::stack": "opcode 0xD handler",
    "lace::runtime::RunState::push_val": "0xD helper (debug assertion)",
    "lace::runtime::RunState::pop_val": "0xD helper (debug assertion)",
    "lace::debugger::Debugger::run_command": "debugger step-out arm",
}


def run(ctx):
    prog = ctx.prog
    eff = Effects(prog)

    ctx.rule("C18.R1", "gated mnemonics = mnemonics mapped to stack instructions; the flag is consulted only for them", floor=4)
    lx = ctx.fn(LEX)
    tab = tables.str_table(prog, lx)
    ctx.need(len(tab) >= 27, "keyword table in the lexer (found %d string tests)" % len(tab))
    flag_blocks = [b for b, t, c in lx.calls() if c == FLAG]
    if not flag_blocks:
        # the test stands in front of the call of the mapping, in the one lexer routine that calls it: judged as one piece of code
        outer = [g for n, g in sorted(prog.fns.items()) if n.startswith("lace::lexer::") and g.bkind == "fn"
                 and any(c == LEX for b, t, c in g.calls()) and any(c == FLAG for b, t, c in g.calls())]
        if len(outer) == 1:
            lx = kit.inlined_view(prog, outer[0], {LEX})
            ctx.analysed_fns.add(outer[0].name)
            ctx._c18_gate_host = outer[0].name          # R4: this routine is the lexer gate (R1 has judged its use of the flag)
            tab = tables.str_table(prog, lx)
            flag_blocks = [b for b, t, c in lx.calls() if c == FLAG]
    ctx.need(flag_blocks, "flag test in the lexer's keyword routine")
    mapping = {}
    guards_true = {}
    for lit, val, true_bb, gb in tab:
        vp = tables.variant_path(val)
        if vp and vp.startswith("Instr("):
            mapping[lit] = vp[6:-1].split("(")[0]
        guards_true.setdefault(lit, []).append((gb, true_bb))
    # gate set: literals whose true edge reaches the flag test without passing through another string test's true edge...
    # computed as: literals L such that the flag test becomes unreachable from entry when L's true edges (and those of the
    # other gate literals) are cut. Candidates = literals from whose true edge the flag block is reachable before any other guard.
    guard_blocks = {gb for lit, val, tb, gb in tab}
    gate = set()
    for lit, val, tb, gb in tab:
        r = lx.reachable(tb, avoid=guard_blocks - {gb})
        if any(fb in r for fb in flag_blocks):
            gate.add(lit)
    cut = {(gb, tb) for lit in gate for gb, tb in guards_true[lit]}
    # the switch on the eq result sits in the continuation block of the eq call
    cut_edges = {(kit.guard_switch_block(lx, gb), tb) for gb, tb in cut}
    def edge_ok(s, d):
        return (s, d) not in cut_edges
    r = lx.reachable(0, edge_filter=edge_ok, threaded=True)
    only = not any(fb in r for fb in flag_blocks)
    stack_lits = {l for l, k in mapping.items() if k in STACK_KINDS}
    ctx.instance(len(gate), {"gated": sorted(gate), "mapped to stack instructions": sorted(stack_lits)})
    ok = gate == stack_lits and len(gate) == 4
    ctx.oblig(ok, None)
    if not ok:
        ctx.violation("gate-set", lx.file_line(),
                      "flag-gated mnemonics %s differ from the mnemonics mapped to stack instructions %s: %s"
                      % (sorted(gate), sorted(stack_lits),
                         "an ungated stack mnemonic assembles without -f stack" if stack_lits - gate else "a non-stack identifier is rejected when the flag is off"))
    # the gate and the mapping must look at the same string: a gate on the text as written next to a mapping on the
    # lower-cased identifier lets `PUSH` through ungated
    def subject(gb):
        t = lx.term(gb)
        es = [lx.expr(a, 30) for a in t["args"]]
        es = [e for e in es if not any(x[0] in ("str", "uneval") for x in expr_walk(e))]      # drop the literal / the constant table
        if len(es) != 1:
            return None
        e = es[0]
        for _ in range(8):
            if e[0] in ("ref", "deref"):          # `x == "lit"` passes &x, `TABLE.contains(&x)` passes &&x: the same string
                e = e[1]
            elif e[0] == "call" and len(e[2]) == 1 and re.search(r"String::as_str$|Deref>::deref$|AsRef<str>>::as_ref$|Borrow<str>>::borrow$", str(e[1])):
                e = e[2][0]                        # a String seen as &str, by whichever conversion: the same text
            else:
                break
        return e
    subj = {}
    for lit, val, tb, gb in tab:
        subj.setdefault(repr(subject(gb)), []).append(lit)
    ctx.oblig(len(subj) == 1 and "None" not in subj, {"keyword tests compare": [expr_str(subject(tab[0][3]) or ("unknown",), 60)]}, "one subject for the gate and the mapping")
    if not (len(subj) == 1 and "None" not in subj):
        gate_subj = {repr(subject(gb)) for lit, val, tb, gb in tab if lit in gate and any(fb in lx.reachable(tb, avoid=guard_blocks - {gb}) for fb in flag_blocks)}
        ctx.violation("gate-subject", lx.file_line(),
                      "the keyword tests of the lexer compare %d different strings (%s): the feature gate and the mnemonic mapping can disagree on "
                      "spellings that differ only in case" % (len(subj), "; ".join("`%s` for %s" % (expr_str(subject([g for l, v_, t_, g in tab if l == v[0]][0]) or ("unknown",), 70), sorted(set(v))[:4]) for k, v in sorted(subj.items()))))
    ctx.oblig(only, {"flag consulted": "only under the gated strings"}, "unreachable once the gated true-edges are cut")
    if not only:
        ctx.violation("flag-outside-gate", sp_file_line(lx.term(flag_blocks[0]).get("sp")), "the lexer evaluates the feature flag for identifiers other than the four stack mnemonics")
    # false branch of the flag test returns the dedicated error; true branch falls through to the normal mapping
    for fb in flag_blocks:
        nb = lx.term(fb)["t"]
        tt = lx.term(nb)
        ctx.need(tt["k"] == "switch", "branch on the flag")
        tg = {v: x for v, x in tt["targets"]}
        off = tg.get(0, tt["otherwise"])
        errs = [c for b, t, c in lx.calls() if b in lx.reachable(off, avoid=guard_blocks) and c and c.startswith("lace::error::")]
        ok = bool(errs) and all(lx.blocks[b]["term"]["k"] != "return" or True for b in [off])
        okret = not any(s["k"] == "assign" and s["p"]["l"] == 0 and s["r"]["k"] == "agg" and s["r"].get("variant") == "Ok"
                        for b in lx.reachable(off, avoid=guard_blocks) for s in lx.stmts(b))
        ctx.oblig(ok and okret, {"flag off": "returns %s" % [short(e) for e in errs]}, "Err on the false edge")
        if not (ok and okret):
            ctx.violation("gate-no-error", sp_file_line(tt.get("sp")), "with the flag off a stack mnemonic is not rejected with an error")
        ctx.cur.notes.append("error constructor(s): %s" % [short(e) for e in errs])
        ctx._c18_errs = errs
    ctx.finish_rule()

    ctx.rule("C18.R2", "the diagnostic names the feature", floor=1)
    for e in getattr(ctx, "_c18_errs", []):
        f = prog.fns.get(e)
        ctx.need(f is not None, "error constructor body")
        ctx.analysed_fns.add(e)
        texts = []
        for nm, g in prog.fns.items():
            if nm == e or nm.startswith(e + "::"):
                for blk in g.blocks:
                    for s in blk["stmts"]:
                        _collect_text(s, texts)
                    _collect_text(blk["term"], texts)
        # text kept in a named constant (`help = STACK_EXTENSION_HELP`) is part of the message as well
        import json as _json
        seen_c = set()
        for nm, g in list(prog.fns.items()):
            if nm == e or nm.startswith(e + "::"):
                for m_ in re.finditer(r'"uneval": "([^"]+)"', _json.dumps(g.blocks)):
                    cn = m_.group(1)
                    if cn in prog.fns and cn not in seen_c and prog.fns[cn].bkind == "const" and cn != e and not cn.startswith(e + "::"):
                        seen_c.add(cn)
                        for cn2, g2 in prog.fns.items():
                            if cn2 == cn or cn2.startswith(cn + "::"):
                                for blk in g2.blocks:
                                    for s_ in blk["stmts"]:
                                        _collect_text(s_, texts)
                                    _collect_text(blk["term"], texts)
        blob = " ".join(texts)
        ctx.instance(1, {"constructor": short(e), "message excerpts": [t for t in texts if "stack" in t][:3]})
        ok = "stack" in blob and "-f stack" in blob
        ctx.oblig(ok, None)
        if not ok:
            ctx.violation("diagnostic-text|%s" % short(e), f.file_line(), "the stack-extension diagnostic does not mention the feature and how to enable it (`-f stack`)")
    ctx.finish_rule()

    ctx.rule("C18.R3", "opcode 0xD executes only with the flag on, else exit(1)", floor=3)
    # the 0xD handler = entry 13 of the dispatch table
    disp = kit.opcode_dispatch(prog, ctx.fn("lace::runtime::RunState::execute"))
    table = disp["handlers"] if disp else None
    ctx.need(table and len(table) == 16, "the 16-way opcode dispatch of execute")
    h = ctx.fn(table[0xD])
    fbs = [b for b, t, c in h.calls() if c == FLAG]
    ctx.need(len(fbs) == 1, "flag test in the 0xD handler")
    nb = h.term(fbs[0])["t"]
    tt = h.term(nb)
    # `if !stack()` : Not applied first
    cond = h.expr(tt["a"], 4)
    tg = {v: x for v, x in tt["targets"]}
    neg = cond[0] == "un" and cond[1] == "Not"
    on_t = (tg.get(0, tt["otherwise"]) if neg else (tt["otherwise"] if 0 in tg else tg.get(1)))
    off_t = (tt["otherwise"] if 0 in tg else tg.get(1)) if neg else tg.get(0, tt["otherwise"])
    ws = eff.site_writes(h, 1)
    ctx.instance(len(ws), {"handler": short(h.name), "state writes": len(ws)})
    for b, kind, path, span in ws:
        # the flag is looked at on every way to the write (the test itself dominates it, not just the block both of its callers share), and
        # the write lies on its "on" side
        ok = h.dominates(on_t, b) and h.dominates(fbs[0], b) and b not in h.reachable(0, avoid={fbs[0]})
        ctx.oblig(ok, None)
        if not ok:
            ctx.violation("ungated-write|%s" % ".".join(path), sp_file_line(span), "the 0xD handler writes `%s` without the feature test dominating it" % ".".join(path))
    ctx.need(ws, "state writes in the 0xD handler")
    off_reach = h.reachable(off_t)
    exits = [(b, t) for b, t, c in h.calls() if b in off_reach and c == "std::process::exit" and h.dominates(off_t, b)]
    code = exits and exits[0][1]["args"][0].get("int")
    returns = [b for b in h.reachable(off_t, avoid={b for b, t in exits}) if h.term(b)["k"] == "return"]
    ok = bool(exits) and code == 1 and not returns
    ctx.oblig(ok, {"flag off": "process::exit(%s), no return" % code}, "diverges with status 1")
    if not ok:
        ctx.violation("gate-exit", sp_file_line(tt.get("sp")), "with the flag off opcode 0xD does not stop the VM with exit status 1 (exit code %s, can return: %s)" % (code, bool(returns)))
    ctx.finish_rule()

    # every identifier goes through the gate: a function of the lexer that makes a plain `Label` token does so only after the keyword routine
    # has seen the identifier (in the routine itself, behind a call of it, or in a helper that is only called from such places) - an early
    # `return Ok(Label)` in front of the lookup lets `push:` through with the flag off
    ctx.rule("C18.R6", "a Label token is only made once the keyword routine has looked at the identifier", floor=1)
    lexmod = "lace::lexer::"
    def makes_label(f):
        out = []
        for b, i, s_ in f.assigns():
            r_ = s_["r"]
            if r_["k"] == "agg" and r_.get("variant") == "Label" and str(r_.get("adt", "")).endswith("lexer::TokenKind"):
                out.append((b, s_))
        return out
    gated_memo = {}
    def gated(fname, bb, depth=0):
        """is block bb of fname only reached after a call of the keyword routine?"""
        if fname == LEX:
            return True
        f = prog.fns[fname]
        if any(c == LEX and f.dominates(cb, bb) and cb != bb for cb, t_, c in f.calls()):
            return True
        if depth >= 4:
            return False
        key = fname
        if key in gated_memo:
            return gated_memo[key]
        gated_memo[key] = False
        sites = [(cn, cb) for cn in ctx.cg.callers(fname) if cn in prog.fns for cb, t_, c in prog.fns[cn].calls() if c == fname]
        r_ = bool(sites) and all(gated(cn, cb, depth + 1) for cn, cb in sites)
        gated_memo[key] = r_
        return r_
    nlabel = 0
    for n, f in sorted(prog.fns.items()):
        if not n.startswith(lexmod) or "::tests::" in n or "::test" in n.rsplit("::", 1)[-1] or f.bkind == "promoted" or "::promoted[" in n:
            continue                                  # a promoted `&TokenKind::Label` is the constant a comparison reads, not a token that is handed out
        for b, s_ in makes_label(f):
            nlabel += 1
            ctx.instance(1)
            ok = gated(n, b)
            ctx.oblig(ok, {"Label token made in": short(n), "at": sp_file_line(s_.get("sp"))}, "behind the keyword routine")
            if not ok:
                ctx.violation("label-before-gate|%s" % short(n), sp_file_line(s_.get("sp")),
                              "`%s` makes a Label token without the keyword routine (%s) having looked at the identifier: a stack mnemonic taking this "
                              "path is accepted as a label with the flag off" % (short(n), short(LEX)))
    ctx.need(nlabel >= 1, "constructions of TokenKind::Label in the lexer (found %d)" % nlabel)
    ctx.finish_rule()

    ctx.rule("C18.R4", "closed set of readers of the flag", floor=3)
    callers = ctx.cg.callers(FLAG)
    # the three that carry the gate: the lexer, the 0xD handler, the debugger's step-out arm (the two helpers of the handler only assert it)
    ctx.need("lace::runtime::RunState::stack" in callers and "lace::debugger::Debugger::run_command" in callers
             and (LEX in callers or getattr(ctx, "_c18_gate_host", None) in callers), "the three gate sites among the readers of the flag")
    for c in callers:
        ctx.instance(1)
        ok = c in READERS or c == getattr(ctx, "_c18_gate_host", None)
        ctx.oblig(ok, {"reader": short(c), "role": READERS.get(c, "lexer gate (in front of the keyword mapping)")}, "reviewed closed set")
        if not ok:
            ctx.violation("reader|%s" % short(c), prog.fns[c].file_line() if c in prog.fns else "-",
                          "`%s` reads the stack-feature flag; outside the lexer gate, the 0xD handler and the step-out arm nothing may "
                          "depend on it (a program using none of the four mnemonics must assemble and run identically)" % short(c))
    # the helper accessor is only used through features::stack
    wf = [c for c in ctx.cg.callers("lace::features::with_features")]
    ok = set(wf) <= {FLAG}
    ctx.oblig(ok, {"with_features callers": [short(x) for x in wf]}, "only features::stack")
    if not ok:
        ctx.violation("with_features-callers", "-", "the raw flag accessor is used by %s" % [short(x) for x in wf if x != FLAG])
    # step-out arm: the flag only chooses between refusing and Finish
    ctx.finish_rule()

    ctx.rule("C18.R5", "flag parsing and single initialisation", floor=2)
    fs = ctx.fn("lace::<features::Features as core::str::traits::FromStr>::from_str")
    tab = tables.str_table(prog, fs)
    lits = sorted(l for l, v, tb, gb in tab)
    # the empty word (doubled or trailing comma) may also be skipped by an is_empty test, in the loop or in a filter closure over the words
    # (skipped, not stopped at: `filter(|w| !w.is_empty())` keeps going after an empty word, `take_while` would end the list there)
    def skips_empty():
        for b, t, c in fs.calls():
            if c and re.search(r"Iterator>?::filter$", c):
                for cl in t["f"].get("closures", []):
                    g = prog.fns.get(cl[3:] if cl.startswith("fn:") else cl)
                    if g is None:
                        continue
                    e = g.local_expr(0, 8)
                    if e[0] == "un" and e[1] == "Not" and e[2][0] == "call" and str(e[2][1]).endswith("str>::is_empty"):
                        return True
        lps_ = kit.loops(fs)
        for b, t, c in fs.calls():
            if c and c.endswith("str>::is_empty") and t.get("t") is not None and fs.term(t["t"])["k"] == "switch":
                tt = fs.term(t["t"])
                tg = {v: x for v, x in tt["targets"]}
                tru = tt["otherwise"] if 0 in tg else tg.get(1)
                heads = [h for h, (body, l) in lps_.items() if b in body]
                if tru is not None and heads and any(h in fs.reachable(tru, avoid=kit.error_blocks(fs)) for h in heads) and \
                        not any(cc and "PartialEq" in cc for bb in fs.reachable(tru, avoid=set(heads)) for cc in [callee_of(fs.term(bb)) if fs.term(bb)["k"] == "call" else None]):
                    return True          # `if word.is_empty() { continue; }`
        return False
    if "" not in lits and skips_empty():
        lits = sorted(lits + [""])
    ctx.instance(1, {"feature words": lits})
    ok = lits == ["", "stack"]
    ctx.oblig(ok, None)
    if not ok:
        ctx.violation("feature-words", fs.file_line(), "Features::from_str recognises %s (expected '' and 'stack')" % lits)
    # "stack" selects the stack field
    for l, v, tb, gb in tab:
        if l == "stack":
            refs = [s for s in fs.stmts(tb) if s["k"] == "assign" and s["r"]["k"] == "ref"]
            okk = any([e.get("n") for e in s["r"]["p"].get("pr", []) if isinstance(e, dict)] == ["stack"] for s in refs)
            # or the field is written directly on the accepted side (`features.stack = true`), which the refused side cannot reach
            side = fs.reachable(tb, avoid={gb}) - fs.reachable([x for l2, v2, tb2, gb2 in tab if l2 == "stack" for x in [tb2]][0], avoid=set()) if False else fs.reachable(tb, avoid={gb})
            okk = okk or any(s2["k"] == "assign" and [e.get("n") for e in s2["p"].get("pr", []) if isinstance(e, dict)] == ["stack"]
                             and s2["r"]["k"] == "use" and s2["r"]["a"].get("int") == 1 for b2 in side for s2 in fs.stmts(b2))
            ctx.oblig(okk, {"'stack'": "selects Features.stack"}, "field reference on the true edge")
            if not okk:
                ctx.violation("stack-word-field", sp_file_line(fs.term(gb).get("sp")), "the word 'stack' does not set the stack field")
    # unknown words and repeats are errors: two Err aggregates
    errs = [s for b, i, s in fs.assigns() if s["p"]["l"] == 0 and s["r"]["k"] == "agg" and s["r"].get("variant") == "Err"]
    ctx.oblig(len(errs) >= 2, {"error returns": len(errs)}, "unknown word, repeated word")
    if len(errs) < 2:
        ctx.violation("feature-errors", fs.file_line(), "Features::from_str has %d error returns (unknown and repeated words must both be refused)" % len(errs))
    # init refuses a second initialisation: its closure asserts is_none before writing
    cl = [n for n in prog.fns if n.startswith("lace::features::init::{closure")]
    ctx.need(cl, "closure of features::init")
    cf = prog.fns[cl[0]]
    wr = [b for b, i, s in cf.assigns() if s["p"].get("pr") == ["*"]] + \
         [b for b, t, c in cf.calls() if c and re.search(r"cell::(Cell|RefCell)::<T>::(set|replace)$", c)]      # `features.set(Some(value))` on a Cell
    isn = [b for b, t, c in cf.calls() if c and c.endswith("Option::<T>::is_none")]
    ok = bool(wr) and bool(isn)
    if ok:
        nb = cf.term(isn[0])["t"]
        tt = cf.term(nb)
        tg = {v: x for v, x in tt["targets"]}
        tru = tt["otherwise"] if 0 in tg else tg.get(1)
        ok = all(cf.dominates(tru, b) for b in wr)
    ctx.instance(1)
    ctx.oblig(ok, {"init": "write dominated by is_none()"}, "single initialisation")
    if not ok:
        ctx.violation("init-twice", cf.file_line(), "features::init can overwrite an already initialised flag")
    # giving the flag can only turn the feature on: where two flag values are combined (the flag written in two places), the combination is an
    # OR of the two - an exclusive or, an inequality or an AND-NOT lets a second `-f stack` switch the feature off again
    ctx.instance(1)
    bad_comb = []
    for n_, f_ in sorted(prog.fns.items()):
        if f_.bkind != "fn" or not (n_.startswith("lace::features::") or n_.startswith("bin::")):
            continue
        for b_, i_, s_ in f_.assigns():
            r_ = s_["r"]
            if r_["k"] == "bin" and r_["op"] in ("BitXor", "Ne", "Eq", "Sub", "Lt", "Gt"):
                e_ = f_.rvalue_expr(r_, 8)
                sides = [e_[2], e_[3]]
                if all(any(x[0] == "field" and x[2] == "stack" for x in expr_walk(sd)) for sd in sides):
                    bad_comb.append((short(n_), r_["op"], sp_file_line(s_.get("sp"))))
    ctx.oblig(not bad_comb, {"flag values combined": "only by OR"}, "no xor / comparison of two `stack` flags")
    for n_, op_, where_ in bad_comb:
        ctx.violation("flag-combination|%s|%s" % (n_, op_), where_, "`%s` combines two values of the stack flag with %s: written in two places, `-f stack` cancels itself and the "
                      "four mnemonics and opcode 0xD are refused although the flag was given" % (n_, op_))
    ctx.finish_rule()


def _collect_text(node, out):
    if isinstance(node, dict):
        if node.get("k") == "const":
            if "str" in node:
                out.append(node["str"])
            elif "bytes" in node:
                try:
                    out.append(bytes(node["bytes"]).decode("utf-8", "replace"))
                except Exception:
                    pass
        for v in node.values():
            if isinstance(v, (dict, list)):
                _collect_text(v, out)
    elif isinstance(node, list):
        for v in node:
            _collect_text(v, out)
