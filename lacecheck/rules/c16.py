"""C16 — a debugger session always makes progress."""
import re
from ..facts import callee_of, short, sp_file_line, expr_str, expr_walk, op_local, place_is_local
from .. import kit, dbg

EXPLANATION = (
    "R1 (must-pass, edge-sensitive): the run loop goes back to its head without executing when the word at PC is HALT or "
    "when the PC is outside user space; for each of the two conditions every path of the pausing code on which the "
    "condition holds must pass an assignment status = WaitForAction before the state dispatch (so the next iteration "
    "reads a command). R2 (LOOP): every CFG cycle of the run loop contains the execute site or the pausing call; every "
    "cycle of the pausing code's dispatch loop contains the command read; the command reader's retry loop reads a line "
    "per iteration; end of input maps to quit, which detaches the debugger. R4 is the panic ledger of these functions "
    "(see the PANIC engine; reported under this property when it concerns the stepping arms)."
    ' R2 also: no None (no action yet) return of the dispatcher in front of the command read. R5: a loop that pulls from an iterator must observe its exhaustion (a next() result only compared with Some(x) is reported), and the None edge of a pull - next(), or a call of a source closure - must not lead back to the loop head through blocks that call nothing and assign no named variable. R4 also covers the output layer the command arms print through (lace::output): write_str of the writers is infallible by construction (tactic), the remaining sites are reviewed or re-verified ledger entries. R5 also: a counting loop that is left only on equality of its counter with a bound must start at the constant 0 or sit behind a dominating <= / < test of the counter.'
)

NOT_DECIDED = "termination of the debugged program itself; the constant in 'bounded by a constant times ...'"

EXEC = "lace::runtime::RunState::execute"
STATUS = "lace::debugger::Status"


def wait_blocks(fn):
    out = set()
    for b, i, s in fn.assigns():
        flds = [e.get("n") for e in s["p"].get("pr", []) if isinstance(e, dict) and "f" in e]
        if flds and flds[-1] == "status":
            e = fn.rvalue_expr(s["r"], 4)
            if e[0] == "agg" and e[1][0] == "adt" and e[1][1] == STATUS and e[1][2] == "WaitForAction":
                out.add(b)
    return out


def run(ctx):
    prog = ctx.prog
    disp, sw_bb, arms, sp, selfp = dbg.dispatcher(ctx)
    pz = dbg.pauser(ctx, disp)
    rl = dbg.run_loop(ctx, pz)

    ctx.rule("C16.R1", "whoever makes the run loop skip execution must put the debugger into WaitForAction", floor=4)
    # state dispatch = the switch on discriminant of Status in the pausing function
    sts = list(kit.discr_switches(pz, STATUS))
    ctx.need(sts, "match on Status in the pausing function")
    dispatch_bb = sts[0][0]
    wb = wait_blocks(pz)
    # (a) bounds condition
    bsw = None
    for b, t, c in pz.calls():
        if c == "lace::runtime::RunState::check_pc_bounds":
            nb = t["t"]
            sw = kit.switch_on_discr_of_local(pz, nb)
            if sw and sw[0]["l"] == t["dest"]["l"]:
                bsw = nb
    ctx.need(any(c == "lace::runtime::RunState::check_pc_bounds" for b, t, c in pz.calls()), "check_pc_bounds call in the pausing function")
    if bsw is None or not pz.dominates(bsw, dispatch_bb):
        ctx.instance(1)
        ctx.oblig(False, None)
        ctx.violation("bounds-test-conditional", pz.file_line(),
                      "the pausing code does not examine check_pc_bounds() on every call before dispatching on its status (the test is skipped or its "
                      "result merged with another value on some path): with the PC outside user space such a path leaves Continue/Step in place and "
                      "the run loop skips execution forever")
    else:
        t = pz.term(bsw)
        tg = {v: x for v, x in t["targets"]}
        equal_edge = (bsw, tg[0]) if 0 in tg else (bsw, t["otherwise"])
        r = pz.reachable(0, avoid=wb, edge_filter=lambda s, d: (s, d) != equal_edge)
        ctx.instance(1)
        ok = dispatch_bb not in r
        if not ok:
            # the reset may come after the match (`if pc_bounds != Ordering::Equal { status = Wait }`): follow each non-Equal arm with what it
            # establishes about the bounds local and only accept a path that is consistent with it
            swl = kit.switch_on_discr_of_local(pz, bsw)
            dl = swl[0]["l"] if swl and not swl[0].get("pr") else None
            wit = None
            for v_, x_ in list(t["targets"]) + [(None, t["otherwise"])]:
                if (bsw, x_) == equal_edge or pz.term(x_)["k"] == "unreachable":
                    continue
                f0 = {dl: ("discr", v_) if v_ is not None else ("notdiscr", tuple(vv for vv, xx in t["targets"]))} if dl is not None else {}
                wit = wit or kit.feasible_path_avoiding(pz, x_, dispatch_bb, wb, prog=prog, facts0=f0)
            ok = wit is None
        ctx.oblig(ok, {"condition": "PC outside [origin, 0xFE00)", "wait assignments": len(wb)}, "must-pass WaitForAction on every non-Equal path")
        if not ok:
            p = _path(pz, 0, dispatch_bb, wb, equal_edge)
            conds = _conds_on_path(pz, p)
            ctx.violation("bounds-skip-no-wait", sp_file_line(pz.term(bsw).get("sp")),
                          "with the PC outside user space a path reaches the state dispatch without resetting the status (lines %s; "
                          "branch conditions: %s): under `continue`/`step` the run loop then skips execution forever without reading "
                          "a command" % (pz.path_lines(p), conds))
    # (b) HALT condition: in the interrupt check, every path on which instr == Some(Halt) sets WaitForAction
    ci = None
    for b, t, c in pz.calls():
        if c and c.startswith("lace::debugger::") and c in prog.fns and b in pz.live_blocks():
            f2 = prog.fns[c]
            if wait_blocks(f2) and c != disp.name:
                ci = (b, f2)
    ctx.need(ci is not None, "interrupt check (sets WaitForAction) called by the pausing function")
    cib, cif = ci
    ctx.analysed_fns.add(cif.name)
    ctx.need(pz.dominates(cib, dispatch_bb), "interrupt check dominates the state dispatch")
    halt_guards = []
    for b, t, c in cif.calls():
        if c and c.endswith("PartialEq>::eq"):
            vals = [kit.operand_value_expr(prog, cif, a, 6) for a in t["args"]]
            if any("Halt" in expr_str(v) for v in vals):
                nb = t["t"]
                tt = cif.term(nb)
                if tt["k"] == "switch" and op_local(tt["a"]) == t["dest"]["l"]:
                    tgt = {v: x for v, x in tt["targets"]}
                    false_t = tgt.get(0, tt["otherwise"])
                    halt_guards.append((nb, false_t))
    ctx.need(len(halt_guards) == 1, "`instr == Some(Halt)` test in the interrupt check (found %d)" % len(halt_guards))
    hb, hfalse = halt_guards[0]
    wb2 = wait_blocks(cif)
    r = cif.reachable(0, avoid=wb2, edge_filter=lambda s, d: (s, d) != (hb, hfalse))
    ctx.instance(1)
    ok = not (set(cif.exits()) & r)
    ctx.oblig(ok, {"condition": "word at PC is HALT", "wait assignments": len(wb2)}, "must-pass WaitForAction unless instr != HALT")
    if not ok:
        ctx.violation("halt-skip-no-wait", cif.file_line(),
                      "`%s` can return with the word at PC being HALT and the status unchanged: the run loop never executes HALT "
                      "while attached, so it would spin" % short(cif.name))
    # the instruction given to the interrupt check is the word at the current PC
    tcall = pz.term(cib)
    e = " ".join(expr_str(pz.expr(a, 10)) for a in tcall["args"])
    # pz's own RunState parameter: the argument it hands to the dispatcher as machine state
    st_arg = [i + 1 for i, ty in enumerate(pz.d.get("inputs", [])) if "RunState" in ty]
    ok = bool(st_arg) and any(dbg.reads_live_word(pz, pz.expr(a, 14), st_arg[0]) for a in tcall["args"])
    ctx.oblig(ok, {"interrupt check arguments": e}, "decoded from mem[pc]")
    if not ok:
        ctx.violation("halt-check-arg", sp_file_line(tcall.get("sp")), "the interrupt check is not given the instruction at the current PC: %s" % e)
    # (c) the run loop's side: after a Proceed, the only conditions that skip execution are those two, tested the same way
    pt, exb, skips = dbg.run_loop_skips(ctx, rl)
    kinds = []
    for bb, kind, e, skip_s, go_s in skips:
        t = rl.term(bb)
        ctx.instance(1)
        ctx.oblig(kind is not None, {"run loop skips execution when": kind or expr_str(e, 120)}, "one of the two conditions the pausing code answers with WaitForAction")
        if kind is None:
            ctx.violation("run-loop-skip", sp_file_line(t.get("sp")),
                          "after a Proceed the run loop skips execution on `%s`; the pausing code only promises WaitForAction for check_pc_bounds() != Equal "
                          "and for HALT at the PC, so under continue/step this condition spins without reading a command" % expr_str(e, 160))
        kinds.append(kind)
    ok = sorted(k for k in kinds if k) == ["bounds", "halt"]
    ctx.oblig(ok, {"skip conditions": kinds}, "exactly bounds + halt")
    if not ok and all(kinds):
        ctx.violation("run-loop-skip-set", rl.file_line(), "the run loop's skip conditions after a Proceed are %s (expected one bounds test and one HALT test)" % kinds)
    ctx.finish_rule()

    ctx.rule("C16.R2", "every cycle executes an instruction or consumes a command", floor=3)
    # run loop
    work = {b for b, t, c in rl.calls() if c in (EXEC, pz.name)}
    ctx.need(len(work) >= 2, "execute site and pausing call in the run loop")
    live = rl.live_blocks()
    cyc = kit.has_cycle(rl, live - work)
    ctx.instance(1)
    ctx.oblig(cyc is None, {"run loop": "all cycles pass execute or next_action"}, "CFG minus work blocks is acyclic")
    if cyc:
        ctx.violation("run-loop-idle-cycle", sp_file_line(rl.term(cyc[0]).get("sp")),
                      "the run loop has a cycle (through bb%d -> bb%d) that neither executes an instruction nor calls the debugger" % cyc)
    # dispatch loop of the pausing function: cycles must contain the dispatcher call (which reads a command)
    # a cycle that re-dispatches after setting WaitForAction is fine: the next round takes the waiting arm, which reads
    work = {b for b, t, c in pz.calls() if c == disp.name} | wb
    cyc = kit.has_cycle(pz, pz.live_blocks() - work)
    ctx.instance(1)
    ctx.oblig(cyc is None, {"pausing loop": "all cycles pass the command dispatcher or set WaitForAction"}, "CFG minus those blocks is acyclic")
    if cyc:
        ctx.violation("pauser-idle-cycle", sp_file_line(pz.term(cyc[0]).get("sp")),
                      "`%s` has a cycle (bb%d -> bb%d) that does not read a command" % (short(pz.name), cyc[0], cyc[1]))
    # end of input is `quit`, and `quit` always detaches: otherwise an exhausted input is re-read forever
    dodge, stop_b = dbg.quit_dodges(disp, arms)
    ctx.instance(1)
    ctx.oblig(not dodge, {"quit / end of input": "always raises StopDebugger"}, "must-pass-through in the Quit arm")
    if dodge:
        ctx.violation("quit-refused", sp_file_line(disp.term(arms["Quit"]).get("sp")),
                      "the Quit arm can finish without raising StopDebugger (lines %s): end of input is mapped to quit, so with the input exhausted the session "
                      "neither executes nor consumes anything any more" % disp.path_lines(disp.path(arms["Quit"], dodge, avoid=stop_b)))
    # the dispatcher reads exactly one command per call, before the match
    reads = [b for b, t, c in disp.calls() if c and c.endswith("Command::<'a>::read_from")]
    ctx.need(len(reads) == 1, "command read in the dispatcher")
    ok = disp.dominates(reads[0], sw_bb)
    ctx.instance(1)
    ctx.oblig(ok, {"dispatcher": "read_from dominates the command match"}, "dominance")
    if not ok:
        ctx.violation("dispatch-without-read", sp_file_line(disp.term(sw_bb).get("sp")), "a command can be dispatched without having been read")
    # ... and it cannot hand control back ("no action yet, ask me again") without having read one: a `None` return in front of the read
    # makes the waiting loop call it again with nothing changed, for ever
    ctx.instance(1)
    none_rets = {b for b, i, s_ in disp.assigns() if s_["p"]["l"] == 0 and not s_["p"].get("pr") and s_["r"]["k"] == "agg"
                 and str(s_["r"].get("adt", "")).endswith("option::Option") and s_["r"].get("variant") == "None"}
    none_rets |= {b for b, t, c in disp.calls() if kit.is_from_residual(c) and t["dest"]["l"] == 0}
    early = sorted(disp.reachable(0, avoid={reads[0]}) & none_rets)
    ctx.oblig(not early, {"dispatcher": "every `None` (no action yet) lies behind the command read", "None returns": len(none_rets)}, "must-pass-through")
    if early:
        ctx.violation("idle-return-before-read", sp_file_line(disp.term(early[0]).get("sp")) if disp.term(early[0]).get("sp") else disp.file_line(),
                      "the dispatcher can return `None` (no action yet) before it has read a command (lines %s): the waiting loop calls it again in the same "
                      "state, so the session neither executes an instruction nor consumes input" % disp.path_lines(disp.path(0, set(early), avoid={reads[0]}) or []))
    # the reader's retry loop consumes a line per iteration
    rf = ctx.fn("lace::debugger::command::Command::<'a>::read_from")
    work = {b for b, t, c in rf.calls() if c and c.endswith("::read") and "reader" in c}
    ctx.need(work, "source.read() in Command::read_from")
    cyc = kit.has_cycle(rf, rf.live_blocks() - work)
    ctx.instance(1)
    ctx.oblig(cyc is None, {"read_from": "retry loop reads a line per iteration"}, "CFG minus read() is acyclic")
    if cyc:
        ctx.violation("reader-idle-cycle", sp_file_line(rf.term(cyc[0]).get("sp")), "Command::read_from can loop without consuming input")
    # `None` from the reader ends read_from (EOF is not retried)
    ctx.finish_rule()
    ctx.note("end of input -> quit -> detach is C09.R5")

    from ..panics import run_ledger
    # ------------------------------------------------------------------ R5
    # a loop that pulls from an iterator must notice when the iterator is exhausted: comparing `next()` with one particular `Some(x)` and
    # looping while they differ never ends once the iterator has run dry (an escape sequence without its final byte, a script ending early)
    ctx.rule("C16.R5", "loops over an iterator stop when it is exhausted", floor=5)
    scope5 = {n for n in ctx.cg.reachable([rl.name, pz.name]) | {rl.name, pz.name} if n in prog.fns and prog.fns[n].bkind == "fn" and n.startswith("lace::")}
    scope5 |= {n for n in prog.fns if prog.fns[n].bkind == "fn" and n.startswith("lace::output::")}
    nloops5 = 0
    for n in sorted(scope5):
        f = prog.fns[n]
        lps5 = kit.loops(f)
        if not lps5:
            continue
        for b, t, c in f.calls():
            if not (c and c.endswith("::next") and "terator" in c):
                continue
            inl = [h for h, (body, l) in lps5.items() if b in body]
            if not inl:
                continue
            nloops5 += 1
            ctx.instance(1)
            r = t["dest"]["l"] if not t["dest"].get("pr") else None
            observed, only_eq = False, []
            if r is None:
                observed = True
            else:
                aliases = {r}
                for bb in sorted(f.live_blocks()):
                    for s_ in f.stmts(bb):
                        if s_["k"] == "assign" and not s_["p"].get("pr"):
                            rr = s_["r"]
                            src = rr.get("p") if rr["k"] in ("ref", "rawptr") else (rr.get("a", {}).get("p") if rr["k"] == "use" else None)
                            if src is not None and src["l"] in aliases and not [e_ for e_ in src.get("pr", []) if isinstance(e_, dict)]:
                                aliases.add(s_["p"]["l"])
                        if s_["k"] == "assign" and s_["r"]["k"] == "discr" and s_["r"]["p"]["l"] in aliases:
                            observed = True
                        if s_["k"] == "assign" and s_["r"]["k"] == "use" and s_["r"]["a"].get("p", {}).get("l") in aliases and any(isinstance(e_, dict) and "dc" in e_ for e_ in s_["r"]["a"]["p"].get("pr", [])):
                            observed = True
                for bb, tt, cc in f.calls():
                    if bb == b:
                        continue
                    if any(a.get("p", {}).get("l") in aliases for a in tt["args"] if a.get("k") in ("copy", "move")):
                        if cc and re.search(r"cmp::PartialEq(<.*>)?>?::(eq|ne)$", cc):
                            only_eq.append(tt)
                        else:
                            observed = True
            ok = observed or not only_eq
            ctx.oblig(ok, None)
            if not ok:
                ctx.violation("loop-ignores-exhaustion|%s" % short(n), sp_file_line(only_eq[0].get("sp")),
                              "a loop in `%s` only compares `next()` with a particular value and never looks at whether the iterator is exhausted: once it has run "
                              "dry `None != Some(..)` holds forever and the loop spins (an unterminated escape sequence in echoed text hangs the session)" % short(n))
    # ... and a pull that comes back empty must not lead straight back to the loop head: when the `None` edge of a pull (an iterator's next(),
    # or a call of a byte/char source closure) reaches the head of its loop through blocks that call nothing and assign no named variable,
    # the next round repeats the same pull in the same state - at end of input the reader spins instead of reporting it
    npull = 0
    for n in sorted(scope5 | {x for x in prog.fns if prog.fns[x].bkind == "fn" and x.startswith("lace::debugger::command::reader::")}):
        f = prog.fns[n]
        lps5 = kit.loops(f)
        if not lps5:
            continue
        succ5 = f.succ_map()
        for b, t, c in f.calls():
            if not c or t.get("t") is None:
                continue
            pull = (c.endswith("::next") and "terator" in c) or re.search(r"ops::function::Fn(Mut|Once)?(<.*>)?>?::call(_mut|_once)?$", c)
            if not pull:
                continue
            inl = [(h, body) for h, (body, l) in lps5.items() if b in body]
            if not inl:
                continue
            h, body = min(inl, key=lambda x: len(x[1]))
            sw = f.term(t["t"])
            if sw["k"] != "switch":
                continue
            sd = kit.switch_on_discr_of_local(f, t["t"])
            if not sd or sd[1] != "core::option::Option" or sd[0].get("l") != t["dest"].get("l"):
                continue
            tg = {v: x for v, x in sw["targets"]}
            none_t = tg.get(0, sw["otherwise"] if 1 in tg else None)
            if none_t is None:
                continue
            npull += 1
            ctx.instance(1)

            def quiet(bb):
                tt = f.term(bb)
                if tt["k"] not in ("goto", "switch"):
                    return False
                for s_ in f.stmts(bb):
                    if s_["k"] != "assign":
                        continue
                    if s_["p"].get("pr") or f.locals[s_["p"]["l"]].get("name"):
                        return False
                return True
            seen, work, spin = set(), [none_t], False
            while work:
                x = work.pop()
                if x in seen or x not in body:
                    continue
                if x == h:
                    spin = True
                    break
                seen.add(x)
                if not quiet(x):
                    continue
                work.extend(succ5[x])
            if none_t == h:
                spin = True
            ctx.oblig(not spin, {"pull in loop of": short(n), "at": sp_file_line(t.get("sp"))}, "the empty answer leaves the loop or changes state before the next round")
            if spin:
                ctx.violation("pull-none-spins|%s" % short(n), sp_file_line(t.get("sp")),
                              "in `%s` the empty answer of `%s` leads straight back to the head of the loop with nothing changed: once the input has run dry the "
                              "same pull is repeated forever (the debugger hangs instead of reaching end of input)" % (short(n), short(c)))
    # ... and a counting loop that is only left on `counter == bound` must not be able to start behind its bound: `while len != width - 1
    # { ..; len += 1 }` runs through the whole range of usize (in practice: forever, printing) when len starts above the bound. Such a loop
    # is accepted when the counter starts at the constant 0, or when a test `counter <= bound` / `counter < bound` dominates its head
    from ..panics import Ledger as _Ledger
    L5 = _Ledger(ctx, [rl.name])
    nne = 0
    for n in sorted(scope5 | {x for x in prog.fns if prog.fns[x].bkind == "fn" and x.startswith("lace::output::")} |
                    {x for x in prog.fns if x.startswith("lace::output::") and "{closure" in x}):
        f = prog.fns[n]
        lps6 = kit.loops(f)
        succ6 = f.succ_map()
        for h, (body, latches) in sorted(lps6.items()):
            exits = [(x, y) for x in body for y in succ6[x] if y not in body]
            conds = []
            for x, y in exits:
                tt = f.term(x)
                if tt["k"] == "assert":
                    continue
                if tt["k"] != "switch":
                    conds = None
                    break
                conds.append((x, f.expr(tt["a"], 6, stop={"named"})))
            if not conds or not all(c[0] == "bin" and c[1] in ("Ne", "Eq") for x, c in conds):
                continue
            for x, c in conds:
                cnt = [sd for sd in (kit.strip_refs(c[2]), kit.strip_refs(c[3])) if sd[0] == "local"]
                stepped = None
                for k in cnt:
                    ds = f.defs().get(k[1], [])
                    ins_ = [d for d in ds if d[0] == "stmt" and d[1] in body]
                    outs_ = [d for d in ds if d[1] not in body]
                    if ins_ and all(f.rvalue_expr(d[3]["r"], 5, stop={"named"})[:2] in (("bin", "Add"), ("checked", "Add"), ("bin", "Sub"), ("checked", "Sub")) for d in ins_):
                        stepped = (k, ins_, outs_)
                if stepped is None:
                    continue
                k, ins_, outs_ = stepped
                nne += 1
                ctx.instance(1)
                other = kit.strip_refs(c[3]) if kit.strip_refs(c[2])[:2] == k[:2] else kit.strip_refs(c[2])
                from0 = len(outs_) == 1 and outs_[0][0] == "stmt" and f.rvalue_expr(outs_[0][3]["r"], 4, stop={"named"}) == ("const", 0) \
                    and all(f.rvalue_expr(d[3]["r"], 5, stop={"named"})[1] == "Add" for d in ins_)
                guarded = any(cc[0] == "bin" and v != 0 and ((cc[1] in ("Le", "Lt") and kit.strip_refs(cc[2])[:2] == k[:2]) or (cc[1] in ("Ge", "Gt") and kit.strip_refs(cc[3])[:2] == k[:2]))
                              for cc, v in L5._dom_constraints(f, h, stable=False))
                ok6 = from0 or guarded
                ctx.oblig(ok6, {"counting loop in": short(n), "left on": expr_str(c, 60)}, "counter starts at 0, or a `<=` test dominates the loop")
                if not ok6:
                    ctx.violation("loop-exit-on-equality|%s" % short(n), sp_file_line(f.term(x).get("sp")),
                                  "the loop in `%s` is left only when `%s` compares equal with `%s`; nothing shows that the counter starts at or below that bound, and "
                                  "once it is past it the loop runs on (a cell exactly as wide as its column pads forever)" % (short(n), expr_str(k, 30), expr_str(other, 40)))
    ctx.note("%d iterator pulls inside loops examined in %d functions; %d pulls with an Option answer checked for a spinning None edge; %d counting loop(s) left on equality" % (nloops5, len(scope5), npull, nne))
    ctx.finish_rule()

    # the decrement of the `step into` counter: C10.R4 evaluates the stepper's transition for every counter value and shows that no
    # counter reachable from `step into N` (N >= 1, C10.R3) lets the decrement underflow - whatever the counter's representation
    status_fields = {f_["name"] for v_ in prog.adt("lace::debugger::Status")["variants"] for f_ in v_.get("fields", []) if "16" in str(f_.get("ty", "u16"))}

    def stepper_decrement(st):
        if st.fn.name != pz.name or st.kind != "overflow:Sub" or len(st.operands) != 2 or st.operands[1] != ("const", 1):
            return False
        x = st.operands[0]
        while x[0] in ("deref", "ref"):
            x = x[1]
        return x[0] in ("local", "arg") and x[2] in status_fields
    run_ledger(ctx, "C16.R4", "closed panic ledger of the run loop, the pausing code and the command arms", [rl.name, pz.name], floor=20,
               only=lambda s: (s.fn.name.startswith("lace::debugger::") and "::command::" not in s.fn.name) or s.fn.name == rl.name or s.fn.name.startswith("lace::output::") or s.fn.name.startswith("lace::<output::"),
               conditional=[(stepper_decrement, "C10.R4", "the stepper's counter never holds a value whose decrement underflows (C10.R4: one-step outcome of every "
                             "counter value, rank of every initial counter)")])


def _path(fn, src, dst, avoid, blocked_edge):
    from collections import deque
    prev = {src: None}
    dq = deque([src])
    sm = fn.succ_map()
    while dq:
        b = dq.popleft()
        if b == dst:
            out = []
            while b is not None:
                out.append(b)
                b = prev[b]
            return out[::-1]
        for s in sm[b]:
            if s in prev or s in avoid or (b, s) == blocked_edge:
                continue
            prev[s] = b
            dq.append(s)
    return None


def _conds_on_path(fn, p):
    out = []
    for a, b in zip(p or [], (p or [])[1:]):
        t = fn.term(a)
        if t["k"] == "switch":
            tg = [v for v, x in t["targets"] if x == b]
            out.append("%s -> %s" % (expr_str(fn.expr(t["a"], 6), 80), tg[0] if tg else "otherwise"))
    return out
