"""C12 — reset restores the initial machine exactly."""
import re
from ..facts import callee_of, short, sp_file_line, expr_str, expr_walk, place_fields
from .. import kit, dbg
from ..effects import Effects

EXPLANATION = (
    "R1 (EFF, whole crate): the saved initial state is never assigned, mutably borrowed or passed on mutably after the "
    "debugger is constructed. R2 (ORD): the snapshot is a clone of the state returned by the loader, taken before "
    "anything that can execute or mutate. R3 (TYPE): RunState's Clone is the derived one and no field type contains a "
    "shared pointer, reference, raw pointer or cell, so the clone shares nothing with the live machine. R4: the reset arm "
    "assigns the whole state from a clone of the saved state and writes nothing afterwards. Immutability + deep copy + "
    "total assignment give the property for every history."
    ' R2 follows the snapshot across the constructor (clone taken by the caller or by Debugger::new). R3 accepts a hand-written Clone only if it is the field-by-field expansion of the derive.'
)
NOT_DECIDED = "that debugger-side fields (breakpoints, counters) also look like a fresh run after reset"

SHARED_MARKERS = ("Rc<", "Arc<", "Cell<", "RefCell<", "Mutex<", "RwLock<", "*const", "*mut", "&", "Atomic", "OnceCell", "OnceLock")
DEBUGGER = "lace::debugger::Debugger"
RUNSTATE = "lace::runtime::RunState"
EXEC = "lace::runtime::RunState::execute"


def run(ctx):
    prog = ctx.prog
    eff = Effects(prog)
    adt = prog.adt(DEBUGGER)
    ctx.need(adt, "struct Debugger")
    snap_fields = [f["name"] for f in adt["variants"][0]["fields"] if f["ty"] == "runtime::RunState"]
    ctx.need(len(snap_fields) == 1, "exactly one RunState-typed field in Debugger (the saved initial state): %s" % snap_fields)
    snap = snap_fields[0]

    ctx.rule("C12.R1", "the saved initial state is never written or mutably borrowed", floor=6)
    n_sites = 0
    for n, f in sorted(prog.fns.items()):
        if f.bkind not in ("fn",):
            continue
        for b in sorted(f.live_blocks()):
            for s in f.stmts(b):
                if s["k"] != "assign":
                    continue
                # direct mention of the field in a written place or a mutable borrow
                flds = [(e.get("adt"), e.get("n")) for e in s["p"].get("pr", []) if isinstance(e, dict) and "f" in e]
                if (DEBUGGER, snap) in flds:
                    n_sites += 1
                    ctx.violation("assign|fn=%s" % short(n), sp_file_line(s.get("sp")),
                                  "`%s` assigns into the saved initial state (Debugger.%s)" % (short(n), snap))
                r = s["r"]
                if r["k"] in ("ref", "rawptr"):
                    flds = [(e.get("adt"), e.get("n")) for e in r["p"].get("pr", []) if isinstance(e, dict) and "f" in e]
                    if (DEBUGGER, snap) in flds:
                        n_sites += 1
                        mut = r.get("bk") == "mut" or "Mut" in str(r.get("bk"))
                        ctx.oblig(not mut, {"borrow_of_saved_state": sp_file_line(s.get("sp")), "kind": r.get("bk")}, "shared borrow")
                        if mut:
                            ctx.violation("mutborrow|fn=%s" % short(n), sp_file_line(s.get("sp")),
                                          "`%s` takes a mutable borrow of the saved initial state (Debugger.%s)" % (short(n), snap))
    # effect summaries: no function writes Debugger.<snap> through a &mut Debugger parameter
    checked = 0
    for n, f in sorted(prog.fns.items()):
        if f.bkind != "fn":
            continue
        for p in range(1, f.arg_count + 1):
            ty = f.local_ty(p)
            if ty.startswith("&mut") and "debugger::Debugger" in ty:
                checked += 1
                w = eff.writes(n, p)
                bad = snap in w or "*" in w
                ctx.oblig(not bad)
                if bad:
                    ctx.violation("effect|fn=%s" % short(n), f.file_line(),
                                  "`%s` may write the saved initial state through its &mut Debugger parameter (write-set %s)"
                                  % (short(n), sorted(w)))
    ctx.instance(n_sites + checked, {"field": snap, "direct_sites": n_sites, "fns_with_&mut_Debugger": checked})
    ctx.finish_rule()

    ctx.rule("C12.R2", "the snapshot is taken from the freshly loaded state, before anything can execute", floor=1)
    ctor_sites = []
    for n, f in prog.fns.items():
        if f.bkind != "fn":
            continue
        for b, t, c in f.calls():
            if c == "lace::debugger::Debugger::new":
                ctor_sites.append((f, b, t))
    ctx.need(len(ctor_sites) == 1, "exactly one construction site of the debugger: %d" % len(ctor_sites))
    f, b, t = ctor_sites[0]
    ctx.analysed_fns.add(f.name)
    # what Debugger::new stores in the snapshot field, expressed over what the construction site hands it (the clone may be taken
    # by the caller - `new(.., env.state.clone(), ..)` - or by the constructor from a `&RunState`)
    newf = ctx.fn("lace::debugger::Debugger::new")
    DBG_ADT = "lace::debugger::Debugger"
    dfields = [f_["name"] for f_ in prog.adt(DBG_ADT)["variants"][0]["fields"]]
    aggs = [s_ for b_, i_, s_ in newf.assigns() if s_["r"]["k"] == "agg" and s_["r"].get("adt") == DBG_ADT]
    ctx.need(len(aggs) == 1 and snap in dfields, "the Debugger { .. } constructor expression and its `%s` field" % snap)
    stored = newf.expr(aggs[0]["r"]["ops"][dfields.index(snap)], 12)

    def subst_args(x):
        if not isinstance(x, tuple) or not x:
            return x
        if x[0] == "arg" and isinstance(x[1], int) and x[1] - 1 < len(t["args"]):
            return f.expr(t["args"][x[1] - 1], 10)
        return tuple(subst_args(y) if isinstance(y, tuple) and y and isinstance(y[0], str) else
                     (tuple(subst_args(z) if isinstance(z, tuple) else z for z in y) if isinstance(y, tuple) else y) for y in x)
    e = subst_args(stored)
    while e[0] in ("ref", "deref") and False:
        e = e[1]
    ctx.instance(1, {"snapshot_expr": expr_str(e), "at": sp_file_line(t.get("sp"))})
    is_clone = e[0] == "call" and e[1] is not None and e[1].endswith("core::clone::Clone>::clone") and "RunState" in e[1]
    src = kit.strip_refs(e[2][0]) if is_clone else None
    from_loader = bool(src) and any(c.endswith("RunEnvironment::from_raw") for c in kit.expr_calls(src)) or (
        bool(src) and src[0] == "field" and src[2] == "state")
    ok = is_clone and from_loader
    ctx.oblig(ok, {"snapshot": expr_str(e)}, "Clone::clone of the loader's state")
    if not ok:
        ctx.violation("snapshot-source", sp_file_line(t.get("sp")),
                      "the saved initial state is `%s`, not a clone of the state returned by the loader" % expr_str(e))
    # no execute / mutation between the loader call and the constructor
    loads = [bb for bb, tt, c in f.calls() if c and c.endswith("RunEnvironment::from_raw")]
    ctx.need(loads, "loader call before the debugger construction")
    between = f.reachable(loads[0]) & _can_reach(f, b)
    may_exec = {n2 for n2 in prog.fns if prog.fns[n2].bkind == "fn" and EXEC in ctx.cg.reachable([n2])}
    for bb in sorted(between - {loads[0]}):
        tt = f.term(bb)
        if tt["k"] == "call":
            c = callee_of(tt)
            bad = c in may_exec or c == EXEC
            mut_state = any(a.startswith("&mut") and "RunState" in a for a in tt.get("arg_tys", []))
            ctx.oblig(not (bad or mut_state))
            if bad or mut_state:
                ctx.violation("between-load-and-snapshot|%s" % short(c or "?"), sp_file_line(tt.get("sp")),
                              "`%s` can execute or mutate the machine between loading and taking the snapshot" % short(c or "?"))
    ctx.finish_rule()

    ctx.rule("C12.R3", "RunState::clone is a deep copy by type structure", floor=5)
    rs = prog.adt(RUNSTATE)
    ctx.need(rs, "struct RunState")
    for fld in rs["variants"][0]["fields"]:
        ctx.instance(1, {"field": fld["name"], "ty": fld["ty"]})
        ty = fld["ty"]
        bad = [m for m in SHARED_MARKERS if m in ty]
        # nested local ADTs (e.g. the flag enum) are checked one level down
        if ty in prog.adts or ("lace::" + ty) in prog.adts:
            sub = prog.adts.get(ty) or prog.adts.get("lace::" + ty)
            for v in sub["variants"]:
                for sf in v["fields"]:
                    bad += [m for m in SHARED_MARKERS if m in sf["ty"]]
        ctx.oblig(not bad, None)
        if bad:
            ctx.violation("shared-field|%s" % fld["name"], rs.get("span", "-").rsplit(":", 3)[0],
                          "RunState.%s has type `%s` (%s): a clone would share storage with the live machine, so `reset` "
                          "cannot restore it" % (fld["name"], ty, ", ".join(bad)))
    impls = [i for i in prog.impls if i.get("trait") == "core::clone::Clone" and i.get("self_ty") == "runtime::RunState"]
    ctx.need(len(impls) == 1, "Clone impl for RunState")
    derived = bool(impls[0]["auto_derived"])
    how = "derived"
    if not derived:
        # a hand-written impl is accepted when it is the derive written out: one RunState { .. } whose operand for every field is that
        # field of `self`, copied (Copy types) or passed through Clone::clone - nothing shared, nothing dropped, nothing reset
        cf = [prog.fns[n_] for n_ in prog.fns if re.search(r"<runtime::RunState as core::clone::Clone>::clone$", n_) and prog.fns[n_].bkind == "fn"]
        ok_m = len(cf) == 1
        if ok_m:
            cfn = cf[0]
            ags = [s_ for b_, i_, s_ in cfn.assigns() if s_["r"]["k"] == "agg" and s_["r"].get("adt") == RUNSTATE]
            ok_m = len(ags) == 1 and len(ags[0]["r"]["ops"]) == len(rs["variants"][0]["fields"])
            if ok_m:
                for fld, op in zip(rs["variants"][0]["fields"], ags[0]["r"]["ops"]):
                    e_ = cfn.expr(op, 8)
                    if e_[0] == "call" and str(e_[1]).endswith("core::clone::Clone>::clone") and len(e_[2]) == 1:
                        e_ = e_[2][0]
                    while e_[0] in ("ref", "deref"):
                        e_ = e_[1]
                    ok_m = ok_m and e_[0] == "field" and e_[2] == fld["name"] and kit.strip_refs(e_[1])[0] == "arg"
        derived = ok_m
        how = "hand-written, field by field (equal to the derive)" if ok_m else "hand-written"
    ctx.oblig(derived, {"Clone for RunState": how}, "#[derive(Clone)] or its expansion")
    if not derived:
        ctx.violation("manual-clone", impls[0].get("span", "-"),
                      "RunState has a hand-written Clone that is not the field-by-field copy a derive produces: the saved initial state may share or lose part of the machine")
    ctx.finish_rule()

    ctx.rule("C12.R4", "reset assigns the whole state from a clone of the saved state and nothing after it", floor=1)
    disp, sw_bb, arms, sp, selfp = dbg.dispatcher(ctx)
    region = dbg.arm_region(disp, arms["Reset"])
    ws = eff.site_writes(disp, sp, region)
    whole = [w for w in ws if w[1] == "assign" and w[2] == ()]
    ctx.instance(1, {"reset_arm_writes": [[w[1], ".".join(w[2]) or "*"] for w in ws]})
    ok_src = False
    assign_bbs = set()
    for b in sorted(region):
        for s in disp.stmts(b):
            if s["k"] == "assign" and s["p"]["l"] == sp and s["p"].get("pr") == ["*"]:
                e = disp.rvalue_expr(s["r"], 8)
                if e[0] == "call" and e[1] and e[1].endswith("core::clone::Clone>::clone"):
                    src = kit.strip_refs(e[2][0])
                    if src[0] == "field" and src[2] == snap:
                        ok_src = True
                        assign_bbs.add(b)
    # `state.clone_from(&self.<snap>)` through the *provided* Clone::clone_from (which is `*self = source.clone()`) is the same total assignment;
    # a hand-written clone_from resolves to the type's own method and is not accepted here
    for b, t, c in disp.calls():
        if b in region and c == "core::clone::Clone::clone_from" and (t["f"].get("targs") or [""])[0].endswith("runtime::RunState"):
            dst = disp.expr(t["args"][0], 8)
            src = kit.strip_refs(disp.expr(t["args"][1], 8))
            if any(x[0] == "arg" and x[1] == sp for x in expr_walk(dst)) and src[0] == "field" and src[2] == snap:
                ok_src = True
                assign_bbs.add(b)
                whole = whole or [(b, "call:core::clone::Clone::clone_from", (), t.get("sp"))]
    # or field by field: every field of RunState is overwritten from the same field of the snapshot (a slice copy of the whole
    # memory counts for `mem`), each on every path of the arm - the same total assignment without a fresh allocation
    fieldwise = False
    if not (bool(whole) and ok_src):
        fields_ = [f["name"] for f in prog.adt(RUNSTATE)["variants"][0]["fields"]]
        got_f = {}
        sm0 = disp.succ_map()
        leaving0 = {b for b in region if any(x not in region for x in sm0[b])}
        for b, kind, path, span in ws:
            if len(path) != 1 or path[0] not in fields_:
                got_f = None
                break
            fld = path[0]
            okw = False
            if kind == "assign":
                for s_ in disp.stmts(b):
                    if s_["k"] == "assign" and [e.get("n") for e in s_["p"].get("pr", []) if isinstance(e, dict) and "f" in e][-1:] == [fld]:
                        e = kit.strip_refs(disp.rvalue_expr(s_["r"], 12))
                        while e[0] in ("deref", "ref"):
                            e = e[1]
                        base = e[1] if e[0] == "field" else None
                        while base is not None and base[0] in ("deref", "ref"):
                            base = base[1]
                        okw = e[0] == "field" and e[2] == fld and base is not None and base[0] == "field" and base[2] == snap
            elif kind.startswith("call:") and kind.endswith(("copy_from_slice", "clone_from_slice", "clone_from")):
                t_ = disp.term(b)
                d_ = expr_str(disp.expr(t_["args"][0], 12), 400)
                s2 = expr_str(disp.expr(t_["args"][1], 12), 400)
                okw = ("." + fld) in d_ and ("." + snap) in s2 and ("." + fld) in s2 and "Range" not in d_ and "Range" not in s2
            if not okw:
                got_f = None
                break
            got_f.setdefault(fld, set()).add(b)
        if got_f is not None and set(got_f) == set(fields_):
            fieldwise = all(not ((disp.reachable(arms["Reset"], avoid=bs) & leaving0) - bs) for bs in got_f.values())
            if fieldwise:
                ok_src = True
                whole = whole or [(arms["Reset"], "fieldwise", (), None)]
                assign_bbs |= set.union(*got_f.values())
    ok = bool(whole) and ok_src
    # ... on every path through the arm (a reset that is skipped under some condition is not a reset)
    sm = disp.succ_map()
    leaving = {b for b in region if any(x not in region for x in sm[b])}
    if ok:
        skipping = (disp.reachable(arms["Reset"], avoid=assign_bbs) & leaving) - assign_bbs
        ok_all = not skipping
        ctx.oblig(ok_all, {"reset": "the assignment is on every path of the arm"}, "must-pass-through")
        if not ok_all:
            p = disp.path(arms["Reset"], skipping, avoid=assign_bbs)
            ctx.violation("reset-conditional", sp_file_line(disp.term(arms["Reset"]).get("sp")),
                          "the reset arm can finish without assigning the saved state (a path through the arm avoids `*state = self.%s.clone()`%s)"
                          % (snap, "; lines %s" % disp.path_lines(p) if p else ""))
    ctx.oblig(ok, {"reset": "*state = self.%s.clone()" % snap}, "whole-place assignment from Clone::clone(&saved)")
    if not ok:
        ctx.violation("reset-not-total", sp_file_line(disp.term(arms["Reset"]).get("sp")),
                      "the reset arm does not assign the entire machine state from a clone of the saved initial state "
                      "(writes seen: %s)" % [[w[1], ".".join(w[2]) or "*"] for w in ws])
    others = [] if fieldwise else [w for w in ws if not (w[2] == () and (w[1] in ("assign", "drop") or (w[1] == "call:core::clone::Clone::clone_from" and w[0] in assign_bbs)))]
    ctx.oblig(not others)
    for b, kind, path, span in others:
        ctx.violation("reset-extra-write|%s" % (".".join(path) or "*"), sp_file_line(span),
                      "the reset arm also writes `%s` (%s): the machine is not exactly the loaded one" % (".".join(path) or "*", kind))
    ctx.finish_rule()


def _can_reach(f, target):
    pm = f.pred_map()
    seen = set()
    work = [target]
    while work:
        x = work.pop()
        if x in seen:
            continue
        seen.add(x)
        work.extend(pm[x])
    return seen
