"""C13 — debugger writes are confined to user space and to the named target."""
from ..facts import callee_of, short, sp_file_line, expr_str, expr_walk, op_local, place_is_local
import re
from .. import kit, dbg, formula
from ..effects import Effects

EXPLANATION = (
    "R1 (DOM, same value): every address sink of the command dispatcher (memory store of move, PC store of goto, "
    "breakpoint insert/remove) is dominated by the Some-successor of the user-space guard applied to the same address "
    "definition. R2: the guard's decision structure, read off its CFG, equals `origin <= a < 0xFE00` on every cell of the "
    "joint partition (the guard touches its argument only through comparisons, which is verified, so the cells are "
    "exhaustive). R3 (EFF): the register form of move performs exactly one register write, the memory form exactly one "
    "memory write, nothing else in the arm writes the machine. R4: the location resolver uses no wrapping/saturating "
    "16-bit arithmetic and inspects every checked operation, so an offset that overflows 16 bits cannot wrap into user "
    "space. The inspection arms are read-only (C09.R1). R4 also: the PC-offset resolver adds the offset to the machine PC itself (RunState::pc, directly or handed in by every caller), never to an adjusted value."
)

NOT_DECIDED = "value-level correctness of label resolution (C17's subject)"

ORDER_OPS = ("Lt", "Le", "Gt", "Ge")


def guard_ok_target(fn, gb):
    """block that is entered only when the guard call in block `gb` returned Some/Continue"""
    t = fn.term(gb)
    cur = t.get("t")
    res = t["dest"]["l"]
    for _ in range(4):
        if cur is None:
            return None
        tt = fn.term(cur)
        if tt["k"] == "call" and kit.is_try_branch(callee_of(tt)) and op_local(tt["args"][0]) == res:
            res = tt["dest"]["l"]
            cur = tt.get("t")
            continue
        if tt["k"] == "switch":
            sw = kit.switch_on_discr_of_local(fn, cur)
            if sw and place_is_local(sw[0]) and sw[0]["l"] == res:
                tg = {v: x for v, x in tt["targets"]}
                if sw[1] == "core::ops::control_flow::ControlFlow":
                    return tg.get(0)
                if sw[1] == "core::option::Option":
                    return tg.get(1, tt["otherwise"] if 0 in tg else None)
            return None
        if tt["k"] in ("goto",):
            cur = tt["t"]
            continue
        return None
    return None


def run(ctx):
    prog = ctx.prog
    eff = Effects(prog)
    disp, sw_bb, arms, sp, selfp = dbg.dispatcher(ctx)
    guard, END = dbg.userspace_guard(ctx)

    # ------------------------------------------------------------------ R1
    ctx.rule("C13.R1", "every address sink is dominated by the user-space guard on the same value", floor=4)
    arms_entry = dict(arms)
    sinks = []   # (arm, bb, description, address_expr)
    for arm in ("Move", "Goto", "BreakAdd", "BreakRemove"):
        region = dbg.arm_region(disp, arms[arm])
        for b in sorted(region):
            t = disp.term(b)
            if t["k"] != "call":
                continue
            c = callee_of(t) or ""
            if c.endswith("RunState::mem_mut"):
                sinks.append((arm, b, "memory store", disp.expr(t["args"][1], 12, stop={"named"})))
            elif c.endswith("RunState::pc_mut"):
                # the value stored through the returned reference
                r = t["dest"]["l"]
                val = None
                for bb in sorted(region):
                    for s in disp.stmts(bb):
                        if s["k"] == "assign" and s["p"]["l"] == r and s["p"].get("pr") == ["*"]:
                            val = disp.rvalue_expr(s["r"], 12, stop={"named"})
                sinks.append((arm, b, "PC store", val))
            elif c.endswith("Breakpoints::insert") or c.endswith("Breakpoints::remove"):
                sinks.append((arm, b, "breakpoint " + c.rsplit("::", 1)[1], disp.expr(t["args"][1], 12, stop={"named"})))
        # direct field stores to pc / mem inside the arm (without accessor)
        for b, kind, path, span in eff.site_writes(disp, sp, region):
            if kind == "assign" and path[:1] in (("pc",), ("mem",)):
                already = any(s[0] == arm for s in sinks)
                if not already:
                    sinks.append((arm, b, "direct store to %s" % path[0], None))
    guard_calls = [(b, disp.expr(t["args"][1], 12, stop={"named"})) for b, t, c in disp.calls() if c == guard.name]

    def carriers(gb):
        """locals that hold exactly the value the guard at gb was applied to, or an Option/ControlFlow wrapping it: closure of the
        guard's argument under copies, moves, Some/Ok/Continue wrapping, payload projection and Try::branch (nothing that computes)"""
        a = disp.term(gb)["args"][1]
        start = op_local(a)
        if start is None:
            return set()
        car = {start}
        defs = disp.defs()
        # the argument is usually a temporary copy of the named value: the value it was copied from is the same value
        cur = start
        for _ in range(6):
            sd = disp.single_def(cur)
            if not (sd and sd[0] == "stmt" and sd[3]["r"]["k"] == "use" and sd[3]["r"]["a"].get("p") is not None and not sd[3]["r"]["a"]["p"].get("pr")):
                break
            cur = sd[3]["r"]["a"]["p"]["l"]
            car.add(cur)
        def rv_from(r):
            k = r["k"]
            if k == "use" or k == "ref":
                pl = r["a"].get("p") if k == "use" else r.get("p")
                if pl is None:
                    return None
                if all((e == "*") or (isinstance(e, dict) and ("dc" in e or "downcast" in e or e.get("n") in ("0",) or e.get("f") == 0)) for e in pl.get("pr", [])):
                    return pl["l"]
                return None
            if k == "agg" and r.get("variant") in ("Some", "Ok", "Continue") and len(r["ops"]) == 1:
                return op_local(r["ops"][0])
            return None
        changed = True
        while changed:
            changed = False
            for l, ds in defs.items():
                if l in car:
                    continue
                srcs, ok_all = [], True
                for kind, db, i, node in ds:
                    if kind == "stmt":
                        r = node["r"]
                        if r["k"] == "agg" and r.get("variant") in ("None", "Break", "Err"):
                            continue
                        src = rv_from(r)
                    else:
                        c = callee_of(node) or ""
                        if c.endswith("from_residual"):
                            continue
                        src = op_local(node["args"][0]) if (c.endswith("Try>::branch") and node["args"]) else None
                    if src is None:
                        ok_all = False
                        break
                    srcs.append(src)
                if ok_all and srcs and all(x in car for x in srcs):
                    car.add(l)
                    changed = True
        return car

    for arm, b, what, aexpr in sinks:
        ctx.instance(1)
        subtrees = set(expr_walk(aexpr)) if aexpr else set()
        ok = False
        for gb, gexpr in guard_calls:
            tgt = guard_ok_target(disp, gb)
            if tgt is None:
                continue
            if not disp.dominates(tgt, b):
                # not a dominator in the plain CFG; still fine when every *feasible* path to the sink passes the guard's Some edge
                # (a helper's `return None` joins the success path before the caller's `?` separates them again)
                if b not in disp.reachable(tgt) or kit.feasible_path_avoiding(disp, arms_entry.get(arm, 0), b, {tgt}) is not None:
                    continue
            if gexpr in subtrees and gexpr[0] == "local" and disp.single_def(gexpr[1]):
                ok = True
            elif aexpr is not None:
                car = carriers(gb)
                leaves = [x for x in expr_walk(aexpr) if x[0] == "local"]
                if leaves and all(x[1] in car for x in leaves if disp.local_ty(x[1]) == "u16") and any(disp.local_ty(x[1]) == "u16" for x in leaves):
                    ok = True
        ctx.oblig(ok, {"arm": arm, "sink": what, "address": expr_str(aexpr) if aexpr else "?", "at": sp_file_line(disp.term(b).get("sp"))},
                  "dominated by guard(Some) on the same definition")
        if not ok:
            ctx.violation("sink|arm=%s|%s" % (arm, what), sp_file_line(disp.term(b).get("sp")),
                          "`%s`: the %s (address `%s`) is not dominated by the Some-successor of the user-space guard applied "
                          "to that same value: an address outside [origin, 0xFE00) can be written"
                          % (arm, what, expr_str(aexpr) if aexpr else "?"))
    ctx.finish_rule()

    # ------------------------------------------------------------------ R2
    ctx.rule("C13.R2", "the guard accepts exactly [origin, 0xFE00)", floor=1)
    tree = formula.decision(guard)
    conds = formula.tree_conditions(tree)
    ctx.instance(1, {"guard": short(guard.name), "conditions": [expr_str(c) for c in conds if _mentions_arg(c)]})
    # premise: the argument is only compared (so boundary cells are exhaustive)
    arg_conds = [c for c in conds if _mentions_arg(c)]
    ctx.need(arg_conds, "a condition on the address in the guard")
    cmp_only = all(_comparison_only(c) for c in arg_conds)
    ctx.oblig(cmp_only, {"premise": "address only compared"}, "structure of the conditions")
    if not cmp_only:
        ctx.violation("guard-not-comparison", guard.file_line(),
                      "the user-space guard does more than compare its argument; equivalence with [origin, 0xFE00) cannot be "
                      "decided structurally: %s" % [expr_str(c) for c in arg_conds])
    else:
        bad = None
        ncell = 0
        for orig in (0, 1, 0x0200, 0x3000, 0x7FFF, 0x8000, 0x9000, 0xFDFF, 0xFE00, 0xFFFF):
            pts = set()
            for base in (0, orig, END, 0x7FFF, 0x8000, 0xFFFF):
                for d in (-1, 0, 1):
                    v = base + d
                    if 0 <= v <= 0xFFFF:
                        pts.add(v)
            for a in sorted(pts):
                ncell += 1
                env = {"args": {"address": a, 2: a}, "calls": {"Debugger::orig": lambda *_: orig}, "prog": prog}
                try:
                    lab = formula.eval_decision(tree, env)
                except (formula.Unknown, formula.Overflow) as e:
                    bad = ("?", orig, a, str(e))
                    break
                got = formula.label_variant(lab) == "Some"
                want = orig <= a < 0xFE00
                if got != want:
                    bad = (got, orig, a, "")
                    break
            if bad:
                break
        ctx.oblig(bad is None, {"cells": ncell, "spec": "origin <= a < 0xFE00"}, "decision structure == spec on every boundary cell")
        if bad:
            ctx.violation("guard-interval", guard.file_line(),
                          "the user-space guard disagrees with [origin, 0xFE00): origin=0x%04x address=0x%04x -> guard says %s %s"
                          % (bad[1], bad[2], "accept" if bad[0] is True else ("reject" if bad[0] is False else "unknown"), bad[3]))
    ctx.finish_rule()

    # ------------------------------------------------------------------ R3
    ctx.rule("C13.R3", "move performs exactly one write, on the named target", floor=2)
    region = dbg.arm_region(disp, arms["Move"])
    ws = eff.site_writes(disp, sp, region)
    regw = [w for w in ws if w[2][:1] == ("reg",)]
    memw = [w for w in ws if w[2][:1] == ("mem",)]
    other = [w for w in ws if w[2][:1] not in (("reg",), ("mem",))]
    ctx.instance(2, {"move_arm_writes": [[w[1], ".".join(w[2])] for w in ws]})
    for nm, lst in (("register", regw), ("memory", memw)):
        ok = len(lst) == 1
        ctx.oblig(ok, None)
        if not ok:
            ctx.violation("move-%s-writes=%d" % (nm, len(lst)), sp_file_line(disp.term(arms["Move"]).get("sp")),
                          "the %s form of `move` has %d write sites on the machine (expected exactly 1)" % (nm, len(lst)))
    ctx.oblig(not other)
    for b, kind, path, span in other:
        ctx.violation("move-extra|%s" % ".".join(path), sp_file_line(span),
                      "`move` also writes `%s` (%s): it must change exactly the one register or memory word it names"
                      % (".".join(path) or "*", kind))
    # the register index comes from the parsed Register (3 bits) and the value is the parsed value
    for b in sorted(region):
        t = disp.term(b)
        if t["k"] == "call" and (callee_of(t) or "").endswith("RunState::reg_mut"):
            e = disp.expr(t["args"][1], 6)
            ok = e[0] == "cast" and e[3][0] == "discr"
            ctx.oblig(ok, {"move register index": expr_str(e)}, "discriminant of the parsed Register")
            if not ok:
                ctx.violation("move-reg-index", sp_file_line(t.get("sp")), "`move` indexes the register file with `%s`, not with the parsed register" % expr_str(e))
    # Goto: exactly one write, the PC
    region = dbg.arm_region(disp, arms["Goto"])
    ws = eff.site_writes(disp, sp, region)
    ok = len(ws) == 1 and ws[0][2][:1] == ("pc",)
    ctx.oblig(ok, {"goto_arm_writes": [[w[1], ".".join(w[2])] for w in ws]}, "one PC store")
    if not ok:
        ctx.violation("goto-writes", sp_file_line(disp.term(arms["Goto"]).get("sp")),
                      "`goto` writes %s (expected exactly the PC)" % [[w[1], ".".join(w[2])] for w in ws])
    for arm in ("BreakAdd", "BreakRemove"):
        ws = eff.site_writes(disp, sp, dbg.arm_region(disp, arms[arm]))
        ctx.oblig(not ws)
        for b, kind, path, span in ws:
            ctx.violation("%s-writes|%s" % (arm, ".".join(path)), sp_file_line(span), "`%s` writes machine state `%s`" % (arm, ".".join(path)))
    ctx.finish_rule()

    # ------------------------------------------------------------------ R4
    ctx.rule("C13.R4", "offset arithmetic on addresses cannot wrap silently into user space", floor=2)
    # the resolver: callees of the dispatcher that return Option<u16>, and what they call inside the debugger
    resolvers = set()
    for b, t, c in disp.calls():
        if c in prog.fns and prog.fns[c].d.get("output") == "core::option::Option<u16>":
            resolvers.add(c)
    ctx.need(resolvers, "location resolver (Option<u16>) called by the dispatcher")
    scope = set()
    for r0 in resolvers:
        scope |= {n for n in ctx.cg.reachable([r0]) if n.startswith("lace::debugger::") and prog.fns.get(n) and prog.fns[n].bkind == "fn"
                  and "::command::" not in n}
    nar = 0
    for n in sorted(scope):
        f = prog.fns[n]
        ctx.analysed_fns.add(n)
        for b, t, c in f.calls():
            if c and re.match(r"core::num::<impl [ui]16>::(wrapping_|overflowing_|saturating_)", c):
                nar += 1
                ctx.oblig(False)
                ctx.violation("wrapping|fn=%s|%s" % (short(n), c.rsplit("::", 1)[1]), sp_file_line(t.get("sp")),
                              "`%s` in `%s`: an address + offset that overflows 16 bits wraps (or saturates) into a valid-looking "
                              "address instead of being refused" % (short(c), short(n)))
            elif c and re.match(r"core::num::<impl [ui](16|32|64)>::checked_", c):
                nar += 1
                ok = kit.result_is_consumed(f, b)
                ctx.oblig(ok, {"checked arithmetic": short(c), "in": short(n)}, "Option inspected")
                if not ok:
                    ctx.violation("checked-unused|fn=%s" % short(n), sp_file_line(t.get("sp")), "result of `%s` is not inspected" % short(c))
        for b, i2, s2 in f.assigns():
            r = s2["r"]
            if r["k"] == "bin" and r["op"] in ("Add", "Sub", "AddWithOverflow", "SubWithOverflow", "AddUnchecked", "SubUnchecked"):
                nar += 1
                if r["op"].endswith("Unchecked"):
                    ctx.oblig(False)
                    ctx.violation("unchecked|fn=%s" % short(n), sp_file_line(s2.get("sp")), "unchecked arithmetic on an address in `%s`" % short(n))
                else:
                    ctx.oblig(True)
    # `^offset` names PC + offset, whatever the PC is: the PC-offset resolver hands the machine's PC itself to the checked addition (a PC
    # that was first clamped or otherwise adjusted makes `^1` name a word the user did not name whenever the PC has left user space)
    AO = "lace::debugger::Debugger::add_address_offset"
    ML = "lace::debugger::command::MemoryLocation"
    ctx.fn(AO)
    pcv = prog.discr(ML, "PCOffset") if prog.adt(ML) else None
    ctx.need(pcv is not None, "MemoryLocation::PCOffset variant")
    def is_live_pc(e):
        e = kit.strip_refs(e)
        return e[0] == "call" and str(e[1]).endswith("RunState::pc") and len(e[2]) == 1
    def base_of(g, t2, depth=0):
        """(is the live PC, the base expression) for the second argument of an add_address_offset call in `g`"""
        e = kit.strip_refs(g.expr(t2["args"][1], 10))
        if is_live_pc(e):
            return True, e
        if e[0] == "arg" and depth < 3:
            # the PC is handed in by the caller: every caller passes the machine's PC itself
            ss = [(h, t3) for h in prog.fns.values() if h.bkind == "fn" for b3, t3, c3 in h.calls() if c3 == g.name]
            if ss and all(e[1] - 1 < len(t3["args"]) and is_live_pc(h.expr(t3["args"][e[1] - 1], 10)) for h, t3 in ss):
                return True, e
            if ss:
                return False, kit.strip_refs(ss[0][0].expr(ss[0][1]["args"][e[1] - 1], 10))
        return False, e
    aos = []
    for r0 in sorted(resolvers):
        g = prog.fns[r0]
        for b0, place, targets, other in kit.discr_switches(g, ML):
            if pcv not in targets:
                continue
            arm = kit.dominated_region(g, targets[pcv])
            # the checked addition in the `^offset` arm itself, or in the one debugger routine the arm hands the offset to
            todo, seen_ = [(g, bb, t2, c2) for bb, t2, c2 in g.calls() if bb in arm], set()
            while todo:
                h, bb, t2, c2 = todo.pop()
                if c2 == AO:
                    aos.append((h, t2))
                elif c2 in scope and c2 not in seen_ and c2 != r0:
                    seen_.add(c2)
                    h2 = prog.fns[c2]
                    todo += [(h2, b3, t3, c3) for b3, t3, c3 in h2.calls()]
    ctx.need(len(aos) == 1, "the checked addition of the `^offset` arm (found %d)" % len(aos))
    okb, base = base_of(*aos[0])
    aos = [(None, aos[0][1])]
    ctx.oblig(okb, {"^offset base": expr_str(base, 80)}, "the live PC, unchanged")
    if not okb:
        ctx.violation("pc-offset-base", sp_file_line(aos[0][1].get("sp")), "`^offset` is resolved from `%s`, not from the machine's PC itself: with the PC outside user space the "
                      "location names another word than PC + offset, and a write command acts on a word the user did not name" % expr_str(base, 100))
    ctx.instance(max(nar, len(scope)), {"resolver_functions": sorted(short(x) for x in scope), "arithmetic_sites": nar})
    ctx.note("signed-ordering of addresses (labels >= 0x8000) is decided under C17.R2")
    ctx.finish_rule()


def _mentions_arg(e):
    return any(x[0] == "arg" and x[1] >= 2 for x in expr_walk(e))


def _comparison_only(c):
    """the argument occurs only as a direct operand (possibly by reference) of a comparison or Range::contains"""
    def is_arg(e):
        e = kit.strip_refs(e)
        # a widening of the 16-bit address (`address as i32`, `i32::from(address)`) keeps its value and its order
        while e[0] == "cast" and str(e[1]) == "u16" and str(e[2]) in ("i32", "u32", "i64", "u64", "usize", "isize", "i128", "u128"):
            e = kit.strip_refs(e[3])
        return e[0] == "arg"
    if c[0] == "bin" and c[1] in ("Lt", "Le", "Gt", "Ge", "Eq", "Ne"):
        sides = [c[2], c[3]]
        return any(is_arg(s) for s in sides) and all(is_arg(s) or not _mentions_arg(s) for s in sides)
    if c[0] == "call" and c[1] and c[1].endswith("::contains") and "Range" in c[1]:
        return is_arg(c[2][1]) and not _mentions_arg(c[2][0])
    if c[0] == "un" and c[1] == "Not":
        return _comparison_only(c[2])
    return False
