"""C04 — the assembler accepts exactly the programs whose operands fit."""
import json
import re
import os
from ..facts import callee_of, short, sp_file_line, expr_str, expr_walk, op_local, place_is_local, const_int
from .. import kit, formula, tables
from ..interp import Resolver
from ..extract import VERIF

EXPLANATION = (
    "R1 (INT, guard == interval): the decision structure of the literal range guard (the closure inside expect_lit) is "
    "evaluated for each (signedness, width) constant that reaches it from any call site - constants are followed through "
    "closure captures and enum payloads - on the cells of the joint partition of the guard's and the spec's boundaries "
    "(thorough: all 65,536 raw 16-bit values); it must accept exactly the raw values the statement's interval allows. The "
    "label-distance guard in the PC-relative helper is evaluated likewise over distances around +-2^(w-1) for w = 9, 10, 11. "
    "R2 (TAB): per instruction kind the parser's (signedness, width) equals the encoder's field width. R3: rejections are "
    "propagated - duplicate label, second .orig, undefined label and out-of-range literal all reach the caller as Err, and "
    "the symbol table reports duplicates through insert() returning Some - on every way: no Ok behind Some (a second definition at the same address is still a duplicate) and no Err behind None. R4: the lexer's literal range is the union of the "
    "i16 and u16 parses ([-32768, 65535])."
    " R3 also: behind the failure of a call of one of the lexer's / parser's own fallible routines every way to a return carries an error (no failure is overwritten by a second attempt), and resolving the labels (AsmLine::backpatch, Air::backpatch) fails for an undefined label only - the label distance is judged once, by the guard of R1."
)
NOT_DECIDED = "nothing of substance for the range clauses; well-formedness of whole statements is C01/C05's subject"

P = "lace::parser::AsmParser::"


def spec_accepts(variant, n, raw):
    if variant == "Signed":
        v = raw - 65536 if raw >= 32768 else raw
        return -(1 << (n - 1)) <= v <= (1 << (n - 1)) - 1
    return 0 <= raw <= (1 << n) - 1


def cells(variant, n):
    pts = set()
    base = [0, 1, (1 << (n - 1)) - 1, 1 << (n - 1), (1 << n) - 1, 1 << n, 0x7FFF, 0x8000, 0xFFFF,
            65536 - (1 << (n - 1)), 65536 - (1 << n), 32768 - (1 << (n - 1))]
    for b in base:
        for d in (-1, 0, 1):
            v = b + d
            if 0 <= v <= 0xFFFF:
                pts.add(v)
    return sorted(pts)


def run(ctx):
    prog = ctx.prog
    spec = json.load(open(os.path.join(VERIF, "spec", "isa.json")))
    res = Resolver(ctx)

    # ------------------------------------------------------------------ R1
    ctx.rule("C04.R1", "each range guard accepts exactly the field's interval", floor=9)
    el = ctx.fn(P + "expect_lit")
    # the range check may be a local closure, a helper method or written in line: look at expect_lit with the closure (if any) inlined
    cls = [n for n in prog.fns if n.startswith(P + "expect_lit::{closure") and prog.fns[n].local_ty(0) == "bool"
           and prog.fns[n].arg_count == 2 and prog.fns[n].local_ty(2) == "u16"]
    el2 = kit.inlined_view(prog, el, set(cls))
    BITS = "lace::parser::Bits"
    bsw = list(kit.discr_switches(el2, BITS))
    ctx.need(bsw, "match on Bits (signedness of the field) in expect_lit")
    sb_ = min(bsw, key=lambda x: x[0])[0]
    cf = el2
    # (variant, width) constants reaching the guard
    combos = set()
    bits_struct = res.structs(el, ("arg", 2, "bits"))
    ctx.need(bits_struct, "constant Bits values at the call sites of expect_lit")
    for owner, agg in bits_struct:
        vs = res.values(owner, agg[2][0])
        ctx.need(vs is not None, "constant width in %s" % expr_str(agg))
        for v in vs:
            combos.add((agg[1][2], v))
    tree = formula.decision(el2, start=sb_)
    tree = formula.map_tree(tree, lambda c: kit.resolve_promoteds(prog, c))
    full = ctx.tier == "thorough"
    ncell = 0
    for variant, n in sorted(combos):
        ctx.instance(1)
        vidx = {"Signed": 0, "Unsigned": 1}[variant]

        def subst(e, _n=n, _v=vidx, _raw=[None]):
            if e[0] == "discr" and e[2] == BITS:
                return _v
            if e[0] == "field" and e[2] == "0" and e[1][0] == "downcast" and e[1][2] in ("Signed", "Unsigned"):
                return _n
            if e[0] in ("local", "arg") and e[2] == "val":
                return subst.raw
            return None
        bad = None
        pts = range(0x10000) if full else cells(variant, n)
        for raw in pts:
            ncell += 1
            subst.raw = raw
            try:
                lab = formula.eval_decision(tree, {"subst": subst, "prog": prog})
            except formula.Overflow as ex:
                bad = (raw, "panics: %s" % ex.what)
                break
            except formula.Unknown as ex:
                bad = (raw, "undecidable: %s" % ex)
                break
            got = formula.label_variant(lab) == "Ok"
            want = spec_accepts(variant, n, raw)
            if got != want:
                bad = (raw, "guard %s, statement %s" % ("accepts" if got else "rejects", "accepts" if want else "rejects"))
                break
        ctx.oblig(bad is None, {"guard": "%s(%d)" % (variant, n), "cells": len(list(pts))} if len(ctx.cur.samples) < 4 else None, "== [%s]" % _interval(variant, n))
        if bad:
            raw = bad[0]
            ctx.violation("guard|%s(%d)" % (variant, n), cf.file_line(),
                          "the literal guard for Bits::%s(%d) disagrees with the field's interval %s at raw value 0x%04X (= %d): %s"
                          % (variant, n, _interval(variant, n), raw, raw - 65536 if (variant == "Signed" and raw >= 32768) else raw, bad[1]))
    ctx.note("%d (signedness, width) combinations, %d cells evaluated (%s)" % (len(combos), ncell, "exhaustive" if full else "boundary cells"))
    # label distance guard
    bo = ctx.fn("lace::air::AsmLine::bit_offs")
    btree = formula.decision(bo)
    for w in (9, 10, 11):
        ctx.instance(1)
        lo, hi = -(1 << (w - 1)), (1 << (w - 1)) - 1
        bad = None
        for line in (1, 2, 300, 32767, 32768, 40000, 65535):
            refs = {line + 1 + off for off in (lo - 2, lo - 1, lo, lo + 1, -2, -1, 0, 1, hi - 1, hi, hi + 1, hi + 2)}
            # far pairs: references across the 0xFFFF/0x0000 seam and half a ring away
            refs |= {1, 2, 15, 32767, 32768, 32769, 65520, 65535, (line + 1 + lo) % 65536, (line + 1 + hi) % 65536, (line + 32768) % 65536, (line + 32769) % 65536}
            for ref in sorted(r for r in refs if 1 <= r <= 65535):
                off = ref - line - 1

                def subst(e, _l=line, _r=ref, _w=w):
                    if e[0] == "discr":
                        return 0
                    if e[0] == "field" and e[2] == "line":
                        return _l
                    if e[0] == "field" and e[2] == "0" and e[1][0] == "downcast" and e[1][2] == "Ref":
                        return _r
                    if e[0] == "arg" and e[2] == "bits":
                        return _w
                    return None
                try:
                    lab = formula.eval_decision(btree, {"subst": subst})
                except formula.Overflow as ex:
                    bad = (line, ref, off, "panics: %s" % ex.what)
                    break
                except formula.Unknown as ex:
                    bad = (line, ref, off, "undecidable: %s" % ex)
                    break
                got = formula.label_variant(lab) == "Ok"
                # statement numbers live on the 16-bit ring (literal offsets are stored as line + 1 + v mod 2^16, eval numbers its statement
                # pc - origin mod 2^16, and the VM's PC arithmetic wraps): the distance is the signed 16-bit difference, minus one
                d = ((ref - line) % 65536)
                d = d - 65536 if d >= 32768 else d
                want = lo <= d - 1 <= hi
                if got != want:
                    bad = (line, ref, d - 1, "guard %s, statement %s" % ("accepts" if got else "rejects", "accepts" if want else "rejects"))
                    break
            if bad:
                break
        ctx.oblig(bad is None, {"label distance guard": "w=%d" % w}, "== [%d, %d]" % (lo, hi))
        if bad:
            ctx.violation("distance-guard|w=%d" % w, bo.file_line(),
                          "the label-distance guard for a %d-bit field disagrees with [%d, %d]: line %d referencing line %d (offset %d): %s"
                          % (w, lo, hi, bad[0], bad[1], bad[2], bad[3]))
    ctx.finish_rule()

    # ------------------------------------------------------------------ R2
    ctx.rule("C04.R2", "parser width = encoder width per instruction", floor=12)
    from .c01 import success_walk, OPERAND_FNS
    pi = ctx.fn(P + "parse_instr")
    IK = "lace::symbol::InstrKind"
    psb, pplace, ptargets, poth = max(kit.discr_switches(pi, IK), key=lambda s: len(s[2]))
    knames = {v["idx"]: v["name"] for v in prog.adt(IK)["variants"]}
    WANT = {"Add": [("imm5|reg", 5)], "And": [("imm5|reg", 5)], "Br": [("pcrel", 9)], "Jsr": [("pcrel", 11)], "Ld": [("pcrel", 9)], "Ldi": [("pcrel", 9)],
            "Lea": [("pcrel", 9)], "St": [("pcrel", 9)], "Sti": [("pcrel", 9)], "Ldr": [("Signed", 6)], "Str": [("Signed", 6)]}
    for vi, tb in sorted(ptargets.items()):
        kind = knames[vi]
        got = []
        for b in success_walk(pi, tb):
            t = pi.term(b)
            c = callee_of(t) if t["k"] == "call" else None
            if c == P + "expect_lit_or_label":
                got.append(("pcrel", const_int(t["args"][1])))
            elif c == P + "expect_lit":
                e = pi.expr(t["args"][1], 6)
                got.append((e[1][2], e[2][0][1]) if e[0] == "agg" and e[2] and e[2][0][0] == "const" else ("?", None))
            elif c == P + "expect_lit_or_reg":
                got.append(("imm5|reg", 5))
        want = WANT.get(kind, [])
        ctx.instance(1)
        ok = got == want
        if got and kind in spec["kind_to_stmt"]:
            enc = spec["pcrel_width"].get(spec["kind_to_stmt"][kind])
            if got[0][0] == "pcrel":
                ok = ok and got[0][1] == enc
        ctx.oblig(ok, {"kind": kind, "literal operand": got} if got and kind in ("Add", "Ldr", "Jsr") else None, "== encoder field")
        if not ok:
            ctx.violation("width|%s" % kind, sp_file_line(pi.term(tb).get("sp")), "`%s` range-checks its literal operand as %s, the encoder's field is %s" % (kind.lower(), got, want))
    # expect_lit_or_reg -> Signed(5); expect_lit_or_label -> Signed(bits); trap -> Unsigned(8); .orig -> Unsigned(16)
    for fname, want in ((P + "expect_lit_or_reg", ("Signed", 5)), (P + "parse_trap", ("Unsigned", 8)), (P + "parse", ("Unsigned", 16))):
        f = ctx.fn(fname)
        got = []
        for b, t, c in f.calls():
            if c == P + "expect_lit":
                e = f.expr(t["args"][1], 6)
                if e[0] == "agg" and e[2] and e[2][0][0] == "const":
                    got.append((e[1][2], e[2][0][1]))
        ctx.instance(1)
        ok = got == [want]
        ctx.oblig(ok, {short(fname): got}, str(want))
        if not ok:
            ctx.violation("width|%s" % short(fname), f.file_line(), "`%s` checks its literal as %s (expected %s)" % (short(fname), got, want))
    f = ctx.fn(P + "expect_lit_or_label")
    got = [expr_str(f.expr(t["args"][1], 6, stop={"named"})) for b, t, c in f.calls() if c == P + "expect_lit"]
    ok = len(got) == 1 and "Signed{bits}" in got[0].replace(" ", "")
    ctx.oblig(ok, {"expect_lit_or_label": got}, "Signed(bits)")
    if not ok:
        ctx.violation("width|expect_lit_or_label", f.file_line(), "a literal PC offset is checked as %s (expected Signed(bits))" % got)
    ctx.finish_rule()

    # ------------------------------------------------------------------ R3
    ctx.rule("C04.R3", "rejections are propagated", floor=5)
    pf = ctx.fn(P + "parse")
    for callee, what in (("lace::symbol::Label::insert", "duplicate label"), ("lace::air::Air::set_orig", "second .orig"), (P + "expect_lit", "out-of-range .orig")):
        sites = [(b, t) for b, t, c in pf.calls() if c == callee]
        ctx.need(sites, "call of %s in parse()" % short(callee))
        for b, t in sites:
            ctx.instance(1)
            ok = kit.result_is_consumed(pf, b)
            tgt = kit.ok_target_of_call(pf, b)
            if ok and tgt is not None:
                # the Err edge reaches an error return
                errb = kit.error_blocks(pf)
                ok = bool(pf.reachable(pf.term(b)["t"], avoid={tgt}) & errb)
            ctx.oblig(ok, {what: "Err reaches the caller"}, "result inspected, Err edge returns")
            if not ok:
                ctx.violation("dropped|%s" % what, sp_file_line(t.get("sp")), "the %s error of `%s` does not reach the caller of parse()" % (what, short(callee)))
    # a rejection raised anywhere in the lexer or the parser is handed up, never overwritten by a second attempt: behind the Err outcome of
    # a call of one of their own fallible routines, every way to a return passes a place where an error is put into the return value
    # (`?`, `Err(e) => Err(e)`, the result itself returned)
    nsw = 0
    for n, f in sorted(prog.fns.items()):
        if f.bkind != "fn" or not (n.startswith("lace::lexer::") or n.startswith("lace::parser::")) or "Result<" not in str(f.d.get("output", "")):
            continue
        # where an error value is made: `?` (also the one of a helper written into this function, which first fills the helper's own
        # result) and `Err(..)`
        errb = set(kit.error_blocks(f))
        for b_ in f.live_blocks():
            t_ = f.term(b_)
            if t_["k"] == "call" and kit.is_from_residual(callee_of(t_)):
                errb.add(b_)
            for s_ in f.stmts(b_):
                if s_["k"] == "assign" and s_["r"]["k"] == "agg" and s_["r"].get("adt") == "core::result::Result" and s_["r"].get("variant") == "Err":
                    errb.add(b_)
        rets = {b for b in f.live_blocks() if f.term(b)["k"] == "return"}
        for b, t, c in f.calls():
            g = prog.fns.get(c or "")
            if g is None or not (c.startswith("lace::lexer::") or c.startswith("lace::parser::")) or "miette" not in str(g.d.get("output", "")) \
                    or "Result<" not in str(g.d.get("output", "")) or t.get("t") is None or not place_is_local(t["dest"]) or t["dest"]["l"] == 0:
                continue
            tgt = kit.ok_target_of_call(f, b)
            if tgt is None:
                continue
            nsw += 1
            ctx.analysed_fns.add(n)
            # the result handed back as it is counts as passing the error on
            res = t["dest"]["l"]
            hands_on = {bb for bb in f.live_blocks() for s_ in f.stmts(bb) if s_["k"] == "assign" and s_["p"]["l"] == 0 and place_is_local(s_["p"])
                        and s_["r"]["k"] == "use" and s_["r"]["a"].get("p") is not None and s_["r"]["a"]["p"]["l"] == res}
            lost = f.reachable(t["t"], avoid={tgt} | errb | hands_on) & rets
            ctx.instance(1)
            ctx.oblig(not lost, None)
            if lost:
                ctx.violation("error-overwritten|%s|%s" % (short(n), short(c)), sp_file_line(t.get("sp")),
                              "`%s`: when `%s` fails, a way to the return does not carry an error (the failure is dropped and something else is returned): a source "
                              "the lexer rejects at this token - a stack mnemonic without the feature, a malformed literal - is then accepted or reported as something else"
                              % (short(n), short(c)))
    ctx.oblig(nsw >= 5, {"fallible lexer/parser calls whose outcome is examined": nsw}, "floor 5")
    # resolving the labels rejects a statement for one reason only - its label is not defined; whether the distance fits the field is
    # decided once, by the encoder's distance guard (R1). Every place in AsmLine::backpatch / Air::backpatch that puts an error into the
    # return value is the `?` on the outcome of Label::filled (or on the per-statement result handed up)
    for bn in ("lace::air::AsmLine::backpatch", "lace::air::Air::backpatch"):
        bf = ctx.fn(bn)
        for eb in sorted(kit.error_blocks(bf)):
            te = bf.term(eb)
            ctx.instance(1)
            okb = False
            if te["k"] == "call" and kit.is_from_residual(callee_of(te)):
                src_ = bf.expr(te["args"][0], 10)
                okb = any(x[0] == "call" and x[1] in ("lace::symbol::Label::filled", "lace::air::AsmLine::backpatch") for x in expr_walk(src_)) or \
                    any(x[0] == "call" and re.search(r"Iterator>?::(try_for_each|try_fold)$", str(x[1])) for x in expr_walk(src_))
            ctx.oblig(okb, None)
            if not okb:
                ctx.violation("backpatch-extra-rejection|%s" % short(bn), bf.file_line(),
                              "`%s` can fail for a reason other than an undefined label: a second test of the label distance in front of the encoder's own "
                              "guard can reject a reference the field still holds (or accept one it does not)" % short(bn))
    # Label::insert detects duplicates through HashMap::insert returning Some
    li = [n for n in prog.fns if n.startswith("lace::symbol::Label::insert::{closure")]
    ctx.need(li, "closure of Label::insert")
    lf = prog.fns[li[0]]
    ins = [b for b, t, c in lf.calls() if c and c.endswith("HashMap::<K, V, S, A>::insert")]
    ok = len(ins) == 1
    if ok:
        nb = lf.term(ins[0])["t"]
        sw = kit.switch_on_discr_of_local(lf, nb)
        tt = lf.term(nb)
        tg = {v: x for v, x in tt["targets"]} if tt["k"] == "switch" else {}
        some_t = tg.get(1)
        ok = sw is not None and some_t is not None and any(
            s["k"] == "assign" and s["p"]["l"] == 0 and s["r"]["k"] == "agg" and s["r"].get("variant") == "Err" for bb in lf.reachable(some_t) for s in lf.stmts(bb))
        none_t = tg.get(0, tt.get("otherwise"))
        ok = ok and any(s["k"] == "assign" and s["p"]["l"] == 0 and s["r"]["k"] == "agg" and s["r"].get("variant") == "Ok" for bb in lf.reachable(none_t) for s in lf.stmts(bb))
        # and on every way: no acceptance behind an existing entry (a duplicate at the same address is still a duplicate), no rejection of a new name
        def _res(from_, variant):
            return any(s["k"] == "assign" and s["p"]["l"] == 0 and s["r"]["k"] == "agg" and s["r"].get("variant") == variant
                       for bb in lf.reachable(from_) for s in lf.stmts(bb))
        ok = ok and not _res(some_t, "Ok") and not _res(none_t, "Err")
    ctx.instance(1)
    ctx.oblig(ok, {"Label::insert": "Some(old) -> Err, None -> Ok"}, "decision on HashMap::insert's result")
    if not ok:
        ctx.violation("duplicate-detection", lf.file_line(), "Label::insert does not turn every existing entry (HashMap::insert -> Some) into an error and every new one into Ok")
    so = ctx.fn("lace::air::Air::set_orig")
    tree = formula.decision(so)
    labs = {}
    for case in ("Some", "None"):
        def subst(e, _c=case):
            # the origin recorded so far, however it is examined (`if let Some(_)`, `match`, `.is_some()`, `.is_none()`)
            if e[0] == "field" and e[2] == "orig":
                return ("variant", _c, "core::option::Option", (0x3000,) if _c == "Some" else ())
            if e[0] == "discr":
                return 1 if _c == "Some" else 0
            return None
        try:
            lab = formula.eval_decision(tree, {"subst": subst, "prog": prog})
            labs[case] = formula.label_variant(lab)
        except (formula.Unknown, formula.Overflow) as ex:
            labs[case] = "?%s" % ex
    ctx.instance(1)
    ok = labs == {"Some": "Err", "None": "Ok"}
    ctx.oblig(ok, {"set_orig": labs}, "origin already set -> Err")
    if not ok:
        ctx.violation("double-orig", so.file_line(), "Air::set_orig: origin already set -> %s, not set -> %s (expected Err / Ok)" % (labs.get("Some"), labs.get("None")))
    # Label::filled: a lookup that misses ends in Err. The Option that HashMap::get hands back is followed through copies, Option::map & co.,
    # helper functions and the table accessor's closure until it is either matched (None edge -> Err stored in the return place) or turned
    # into a Result by ok_or / ok_or_else
    FILLED = "lace::symbol::Label::filled"
    ctx.fn(FILLED)
    family = sorted(n for n in (ctx.cg.reachable([FILLED]) | {FILLED}) if n in prog.fns and n.startswith("lace::symbol::"))
    KEEP = re.compile(r"Option::<T>::(map|copied|cloned|as_ref|as_deref|inspect|filter)$|Option::<&T>::(copied|cloned)$")
    TO_RES = re.compile(r"Option::<T>::(ok_or|ok_or_else)$")
    work = []
    for n in family:
        g = prog.fns[n]
        for b_, t_, c_ in g.calls():
            if c_ and c_.endswith("HashMap::<K, V, S, A>::get") and not t_["dest"].get("pr"):
                work.append((n, t_["dest"]["l"]))
    ctx.need(work, "symbol-table lookup (HashMap::get) below Label::filled")
    ok, seen_tr, steps = False, set(), 0
    while work and not ok and steps < 200:
        steps += 1
        n, l0 = work.pop()
        if (n, l0) in seen_tr:
            continue
        seen_tr.add((n, l0))
        g = prog.fns[n]
        al = {l0}
        changed = True
        while changed:
            changed = False
            for bb_, i_, s_ in g.assigns():
                r_ = s_["r"]
                if r_["k"] == "use" and r_["a"].get("p") and r_["a"]["p"]["l"] in al and not r_["a"]["p"].get("pr") and not s_["p"].get("pr") and s_["p"]["l"] not in al:
                    al.add(s_["p"]["l"]); changed = True
            for bb_, t_, c_ in g.calls():
                if c_ and KEEP.search(c_) and t_["args"] and op_local(t_["args"][0]) in al and not t_["dest"].get("pr") and t_["dest"]["l"] not in al:
                    al.add(t_["dest"]["l"]); changed = True
            # a written-out (or lowered) `map`: the None edge of a match on the tracked value stores None in another local
            for bb_ in sorted(g.live_blocks()):
                tt = g.term(bb_)
                if tt["k"] != "switch":
                    continue
                sd_ = kit.switch_on_discr_of_local(g, bb_)
                if not sd_ or sd_[0].get("l") not in al or sd_[0].get("pr"):
                    continue
                tg = {v: x for v, x in tt["targets"]}
                none_t = tg.get(0, tt.get("otherwise"))
                if none_t is None:
                    continue
                for s_ in g.stmts(none_t):
                    if s_["k"] == "assign" and not s_["p"].get("pr") and s_["r"]["k"] == "agg" and s_["r"].get("variant") == "None" and s_["p"]["l"] not in al:
                        al.add(s_["p"]["l"]); changed = True
        # (b) turned into a Result whose Err stands for the miss
        if any(c_ and TO_RES.search(c_) and t_["args"] and op_local(t_["args"][0]) in al for bb_, t_, c_ in g.calls()):
            ok = True
            break
        # (a) matched: the None edge stores Err in the return place
        for bb_ in sorted(g.live_blocks()):
            tt = g.term(bb_)
            if tt["k"] != "switch":
                continue
            sd_ = kit.switch_on_discr_of_local(g, bb_)
            if not sd_ or sd_[0].get("l") not in al or sd_[0].get("pr"):
                continue
            tg = {v: x for v, x in tt["targets"]}
            none_t = tg.get(0, tt.get("otherwise"))
            if none_t is not None and any(s_["k"] == "assign" and s_["p"]["l"] == 0 and s_["r"]["k"] == "agg" and s_["r"].get("variant") == "Err"
                                          for b2 in g.reachable(none_t, avoid={tg.get(1)} if tg.get(1) is not None else set()) for s_ in g.stmts(b2)):
                ok = True
        if ok:
            break
        # handed back to the caller: follow it there
        if 0 in al:
            for m in family:
                h = prog.fns[m]
                for bb_, t_, c_ in h.calls():
                    if t_["dest"].get("pr"):
                        continue
                    cls_ = [x_[3:] if x_.startswith("fn:") else x_ for x_ in t_["f"].get("closures", [])]
                    if c_ == n or (n in cls_ and c_ and (c_.startswith("lace::symbol::") or "LocalKey" in c_)):
                        work.append((m, t_["dest"]["l"]))
    ff = prog.fns[FILLED]
    ctx.instance(1)
    ctx.oblig(ok, {"Label::filled": "unknown label -> Err"}, "decision on HashMap::get's result")
    if not ok:
        ctx.violation("undefined-label", ff.file_line(), "Label::filled does not report a label that is missing from the symbol table")
    ctx.finish_rule()

    # ------------------------------------------------------------------ R4
    ctx.rule("C04.R4", "lexer literal range = i16 parse, then u16 parse", floor=2)
    LX = "lace::lexer::<impl lexer::cursor::Cursor<'_>>::"
    for nm, radix in (("hex", 16), ("dec", 10)):
        f = ctx.fn(LX + nm)
        def parse_calls(g):
            """(block, terminator, integer type, radix) of every integer parse: T::from_str_radix(s, r), and s.parse::<T>() / T::from_str(s), which are radix 10"""
            out = []
            for b_, t_, c_ in g.calls():
                if not c_:
                    continue
                if c_.endswith("from_str_radix") and "<impl " in c_:
                    out.append((b_, t_, c_.split("<impl ")[1].split(">")[0], const_int(t_["args"][1])))
                elif c_.endswith("core::str::<impl str>::parse") or re.search(r"str::traits::FromStr>::from_str$", c_):
                    targs = t_["f"].get("targs") or []
                    ty_ = targs[-1] if targs else (re.search(r"<(\w+) as core::str::traits::FromStr>", c_) or [None, "?"])[1]
                    if re.fullmatch(r"[iu](8|16|32|64|128|size)", str(ty_)):
                        out.append((b_, t_, ty_, 10))
            return out
        calls = parse_calls(f)
        tys = [x[2] for x in calls]
        rad = [x[3] for x in calls]
        ctx.instance(1)
        ok = tys == ["i16", "u16"] and rad == [radix, radix]
        if ok:
            # the second parse is only tried when the first failed
            t1 = kit.ok_target_of_call(f, calls[0][0])
            ok = t1 is not None and (calls[1][0] not in f.reachable(t1) or kit.feasible_path_avoiding(f, t1, calls[1][0], set(), prog=prog) is None)
        if not ok and tys == ["i16"] and rad == [radix]:
            # combinator form: `i16::from_str_radix(..).map(..).or_else(|_| u16::from_str_radix(..))` - the fallback parse lives in a
            # closure that Result::or_else only calls on Err
            for b2, t2, c2 in f.calls():
                if not (c2 and c2.endswith("Result::<T, E>::or_else")):
                    continue
                recv = f.expr(t2["args"][0], 10)
                first_in_recv = any(x[0] == "call" and (str(x[1]).endswith("<impl i16>::from_str_radix") or str(x[1]).endswith("core::str::<impl str>::parse")) for x in expr_walk(recv))
                for cl in t2["f"].get("closures", []):
                    g = prog.fns.get(cl[3:] if cl.startswith("fn:") else cl)
                    if g is None:
                        continue
                    inner = parse_calls(g)
                    if first_in_recv and len(inner) == 1 and inner[0][2] == "u16" and inner[0][3] == radix:
                        ok = True
                        tys, rad = ["i16", "u16 (or_else)"], [radix, radix]
        ctx.oblig(ok, {nm: list(zip(tys, rad))}, "i16 then (on failure) u16, same radix")
        if not ok:
            ctx.violation("lexer-range|%s" % nm, f.file_line(), "`%s` parses its digits as %s with radix %s (expected i16 first, then u16, radix %d)" % (nm, tys, rad, radix))
    ctx.finish_rule()


def _interval(variant, n):
    if variant == "Signed":
        return "[%d, %d]" % (-(1 << (n - 1)), (1 << (n - 1)) - 1)
    return "[0, %d]" % ((1 << n) - 1)
