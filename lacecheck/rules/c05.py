"""C05 — the assembler is total: any text yields an image or a diagnostic."""
import re
from ..facts import callee_of, short, sp_file_line, expr_str, expr_walk, op_local, place_is_local, const_int
from .. import kit, formula, tables
from ..panics import run_ledger

EXPLANATION = (
    "R1 (PANIC): closed ledger of every potential panic site (overflow/bounds assertions, panic!/unreachable!/assert!, "
    "unwrap/expect, str and Vec indexing, RefCell borrows, checked std arithmetic such as abs/pow) in lace's own code "
    "reachable from AsmParser::new/parse, Air::backpatch, AsmLine::emit and the error constructors; each site is "
    "discharged by a checked tactic (constant folding, interval evaluation with dominating guards, guarded subtraction, "
    "peek-then-next, call-site constants through closures and enum payloads) or by a ledger entry that is re-verified "
    "(dominating call, callers dominated, closed set of field writers) or conditional on another rule. R2 (value sets): "
    "the panicking match arms are unreachable because (a) backpatch fills every label-carrying statement kind, (b) the "
    "preprocessor forwards only token kinds the parser handles, (c) the register digit predicate equals the register "
    "table, (d) filtered token kinds equal the kinds matched afterwards. R3: every str slice on the path has bounds that "
    "are cursor positions / span ends (char boundaries); `position - 1` only directly after a single-byte character. "
    "R4 (LOOP): every CFG cycle on the path contains a call that consumes a finite input. R5: the statement counter is "
    "guarded before it can exceed 16 bits."
    " R1's ledger entries may name the match arm that must dominate the site (a slice justified by 'the token is a string literal' must sit inside that arm); thread-local re-entrancy is a ledger site. R6: every label of an assembler diagnostic (LabeledSpan::at / at_offset / new in lace::error) is a token span handed to the constructor or an offset built from the source length that cannot pass its end (len, len of a trimmed part, checked_sub/saturating_sub of it, 0). R2a also: Air::backpatch reaches its returns only through the walk over the whole statement list. R3b: Cursor::new keeps its parameter as the text it walks (src, chars and both sizes are those of the parameter), so spans index the very text the parser and the diagnostics slice."
)

NOT_DECIDED = "termination as such (R4 is its structural part), the wording of diagnostics, memory exhaustion; miette's rendering is external code"

ENTRIES = ["lace::parser::AsmParser::new", "lace::parser::AsmParser::parse", "lace::air::Air::backpatch",
           "lace::air::AsmLine::emit", "lace::air::Air::orig"]
CONSUMERS = re.compile(r"(core::str::iter::Chars<'a> as core::iter::traits::iterator::Iterator>::next$|"
                       r"Peekable<I> as core::iter::traits::iterator::Iterator>::next$|"
                       r"alloc::vec::into_iter::IntoIter<T, A> as core::iter::traits::iterator::Iterator>::next$|"
                       r"core::slice::iter::Iter(Mut)?<'a, T> as core::iter::traits::iterator::Iterator>::next$|"
                       r"core::iter::adapters::enumerate::Enumerate<I> as core::iter::traits::iterator::Iterator>::next$|"
                       r"core::iter::adapters::rev::Rev<I> as core::iter::traits::iterator::Iterator>::next$|"
                       r"core::iter::traits::iterator::Iterator>::next$|"
                       r"core::str::iter::Split<'a, P> as core::iter::traits::iterator::Iterator>::next$|"
                       r"std::collections::hash::map::\w+<'a, K, V> as core::iter::traits::iterator::Iterator>::next$|"
                       r"core::ops::range::Range<\w+> as core::iter::traits::iterator::Iterator>::next$)")


def is_consumer(t, fn=None):
    c = callee_of(t) or ""
    if fn is not None and t.get("args"):
        # advancing a *clone* of the iterator (peeking) consumes nothing
        if any(x and x.endswith("Clone>::clone") for x in kit.expr_calls(fn.expr(t["args"][0], 6))):
            return False
    if not c.endswith("::next") and not c.endswith("Iterator>::next"):
        return False
    aty = (t.get("arg_tys") or [""])[0]
    if "RangeFrom" in aty:
        return False
    if c.endswith("::next"):
        return any(k in aty for k in ("Chars<", "Peekable<", "IntoIter<", "slice::iter::Iter", "Enumerate<", "Rev<", "Split<",
                                       "hash::map::", "ops::range::Range<", "ops::range::RangeInclusive<", "CharIndices<", "Skip<",
                                       "Lines<", "Filter<", "Map<"))
    return False


def must_consume(ctx, fns):
    """least fixpoint: functions all of whose returning paths call a consumer (or such a function)"""
    M = set()
    changed = True
    while changed:
        changed = False
        for n in fns:
            if n in M:
                continue
            f = ctx.prog.fns[n]
            cb = [b for b, t, c in f.calls() if is_consumer(t, f) or c in M]
            if cb and f.must_pass(0, f.exits(), cb):
                M.add(n)
                changed = True
    return M


def run(ctx):
    prog = ctx.prog
    for e in ENTRIES:
        ctx.fn(e)
    L = run_ledger(ctx, "C05.R1", "closed panic ledger of the assembler", ENTRIES, floor=50)

    # ------------------------------------------------------------------ R2a
    ctx.rule("C05.R2a", "backpatch fills every statement kind that carries a label", floor=8)
    adt = prog.adt("lace::air::AirStmt")
    label_variants = {v["name"] for v in adt["variants"] if any(f["ty"] == "symbol::Label" for f in v["fields"])}
    bp = ctx.fn("lace::air::AsmLine::backpatch")
    sws = list(kit.discr_switches(bp, "lace::air::AirStmt"))
    ctx.need(sws, "match on AirStmt in AsmLine::backpatch")
    sb, place, targets, oth = sws[0]
    names = {v["idx"]: v["name"] for v in adt["variants"]}
    handled = {names[i] for i, tb in targets.items() if tb != oth}
    filled = [b for b, t, c in bp.calls() if c == "lace::symbol::Label::filled"]
    ctx.need(filled, "Label::filled call in backpatch")
    reach_fill = {names[i] for i, tb in targets.items() if any(fb in bp.reachable(tb) for fb in filled) and tb != oth}
    ctx.instance(len(label_variants), {"label-carrying variants": sorted(label_variants), "filled by backpatch": sorted(reach_fill)})
    ok = label_variants <= reach_fill
    ctx.oblig(ok, None)
    if not ok:
        ctx.violation("unfilled-variants|%s" % "+".join(sorted(label_variants - reach_fill)), bp.file_line(),
                      "AsmLine::backpatch does not resolve the label of %s: emit then panics with \"Tried to offset unfilled label\" "
                      "(or encodes a stale reference)" % sorted(label_variants - reach_fill))
    # ... and the pass over the statements is not skipped: in Air::backpatch every path to a return goes through the walk over the whole
    # statement list (its `next()` / try_for_each / for_each), so no flag or shortcut can leave a label unresolved
    ab = ctx.fn("lace::air::Air::backpatch")
    walk = {b for b, t, c in ab.calls() if c and (re.search(r"IterMut<'a, T> as core::iter::traits::iterator::Iterator>::(next|try_for_each|for_each)$", c)
                                                 or re.search(r"Iterator>?::(try_for_each|for_each)$", c))}
    rets_ab = {b for b in ab.live_blocks() if ab.term(b)["k"] == "return"}
    ctx.instance(1)
    okw = bool(walk) and not (ab.reachable(0, avoid=walk) & rets_ab)
    ctx.oblig(okw, {"Air::backpatch": "every return behind the walk over the statement list"}, "must-pass-through")
    if not okw:
        pth = ab.path(0, rets_ab, avoid=walk) if walk else None
        ctx.violation("backpatch-skipped", ab.file_line(), "Air::backpatch can return without walking the statement list%s: a label operand stays unfilled and emit panics with "
                      "\"Tried to offset unfilled label\" (or an undefined label goes unreported)" % (" (lines %s)" % ab.path_lines(pth) if pth else ""))
    # the fill result is propagated with `?`
    for fb in filled:
        okc = kit.result_is_consumed(bp, fb)
        ctx.oblig(okc, None)
        if not okc:
            ctx.violation("filled-dropped", sp_file_line(bp.term(fb).get("sp")), "the result of Label::filled is dropped: an undefined label is not reported")
    ctx.finish_rule()

    # ------------------------------------------------------------------ R2b
    ctx.rule("C05.R2b", "the preprocessor forwards only token kinds the parser handles", floor=2)
    pp = ctx.fn("lace::parser::preprocess")
    TK, DK = "lace::lexer::TokenKind", "lace::symbol::DirKind"
    pushes = []
    for b, t, c in pp.calls():
        if c and c.endswith("Vec::<T, A>::push"):
            e = pp.expr(t["args"][1], 3, stop={"named"})
            if e[0] == "local" and pp.local_ty(e[1]) == "lexer::Token":
                pushes.append(b)
    ctx.need(len(pushes) == 1, "the pass-through push of the current token in preprocess (found %d)" % len(pushes))
    P = pushes[0]
    tk_names = {v["idx"]: v["name"] for v in prog.adt(TK)["variants"]}
    dk_names = {v["idx"]: v["name"] for v in prog.adt(DK)["variants"]}
    tsw = max(kit.discr_switches(pp, TK), key=lambda s: len(s[2]), default=None)
    dsw = max(kit.discr_switches(pp, DK), key=lambda s: len(s[2]), default=None)
    ctx.need(tsw and dsw, "matches on TokenKind and DirKind in preprocess")

    def fwd_set(sw, names):
        sb, place, targets, oth = sw
        out = set()
        for i, nm in names.items():
            tb = targets.get(i, oth)
            if P in pp.reachable(tb, avoid={tsw[0], dsw[0]}):
                out.add(nm)
        return out
    t_fwd = fwd_set(tsw, tk_names)
    d_fwd = fwd_set(dsw, dk_names)
    ctx.instance(2, {"token kinds forwarded as they are": sorted(t_fwd), "directives forwarded": sorted(d_fwd)})
    bad_t = t_fwd & {"Whitespace", "Comment", "Eof"}
    ctx.oblig(not bad_t, None)
    if bad_t:
        ctx.violation("forwards|%s" % "+".join(sorted(bad_t)), pp.file_line(), "preprocess can forward %s tokens, which the parser treats as unreachable!" % sorted(bad_t))
    ok = d_fwd == {"Orig"}
    ctx.oblig(ok, None)
    if not ok:
        ctx.violation("forwards-dir|%s" % "+".join(sorted(d_fwd)), pp.file_line(),
                      "preprocess forwards directives %s to the parser, which asserts that only .orig arrives" % sorted(d_fwd))
    # the parser's panicking arms are exactly those kinds
    pf = ctx.fn("lace::parser::AsmParser::parse")
    psw = max(kit.discr_switches(pf, TK), key=lambda s: len(s[2]))
    panic_blocks = {b for b, t, c in pf.calls() if c and c.startswith("core::panicking::") and "unreachable" in " ".join(t.get("mac", []))}
    p_unreach = {tk_names[i] for i, tb in psw[2].items() if any(pb in pf.reachable(tb, avoid={psw[0]}) for pb in panic_blocks)
                 and not any(c2 and c2.startswith("lace::") for b2, t2, c2 in pf.calls() if b2 in kit.dominated_region(pf, tb))}
    ok = p_unreach <= {"Whitespace", "Comment", "Eof"}
    ctx.oblig(ok, {"parser arms ending in unreachable!": sorted(p_unreach)}, "subset of the kinds preprocess never forwards")
    if not ok:
        ctx.violation("parser-unreachable|%s" % "+".join(sorted(p_unreach)), pf.file_line(),
                      "parse() treats %s as unreachable although the preprocessor can deliver them" % sorted(p_unreach - {"Whitespace", "Comment", "Eof"}))
    ctx.finish_rule()

    # ------------------------------------------------------------------ R2c
    ctx.rule("C05.R2c", "register digit predicate = register table", floor=8)
    irn = ctx.fn("lace::lexer::is_reg_num")
    tree = formula.decision(irn)
    acc = set()
    for cp in list(range(0, 256)) + [0x3A, 0x100, 0x7FF, 0x800, 0xFFFF, 0x10000, 0x10FFFF]:
        try:
            lab = formula.eval_decision(tree, {"args": {"c": cp, 1: cp}})
        except (formula.Unknown, formula.Overflow) as ex:
            ctx.need(False, "decidable is_reg_num (%s)" % ex)
        if lab == ("const", 1):
            acc.add(chr(cp))
    fs = ctx.fn("lace::<symbol::Register as core::str::traits::FromStr>::from_str")
    tab = tables.str_table(prog, fs)
    oks = {lit for lit, val, tb, gb in tab if tables.variant_path(val) and tables.variant_path(val).startswith("Ok")}
    ctx.instance(len(oks), {"is_reg_num accepts": sorted(acc), "Register::from_str accepts": sorted(oks)})
    ok = acc == oks and len(oks) == 8
    ctx.oblig(ok, None)
    if not ok:
        ctx.violation("reg-table", irn.file_line(), "is_reg_num accepts %s but Register::from_str accepts %s: the lexer's unwrap() can fail" % (sorted(acc), sorted(oks)))
    # and each digit maps to the register of that number
    adt = prog.adt("lace::symbol::Register")
    for lit, val, tb, gb in tab:
        vp = tables.variant_path(val) or ""
        m = re.match(r"Ok\(R(\d)\)", vp)
        if m:
            okk = m.group(1) == lit and prog.discr("lace::symbol::Register", "R" + m.group(1)) == int(lit)
            ctx.oblig(okk, None)
            if not okk:
                ctx.violation("reg-digit|%s" % lit, sp_file_line(fs.term(gb).get("sp")), "register digit \"%s\" maps to %s" % (lit, vp))
    ctx.finish_rule()

    # ------------------------------------------------------------------ R2d
    ctx.rule("C05.R2d", "token kinds accepted by a filter = kinds matched after it", floor=2)
    ew = ctx.fn("lace::parser::AsmParser::expect_where")
    # (i) expect_where returns Ok only under check(..) == true
    cm = [b for b, t, c in ew.calls() if c and c.endswith("FnMut::call_mut")]
    ctx.need(len(cm) == 1, "predicate call in expect_where")
    nb = ew.term(cm[0])["t"]
    tt = ew.term(nb)
    ctx.need(tt["k"] == "switch", "branch on the predicate")
    tg = {v: x for v, x in tt["targets"]}
    true_t = tt["otherwise"] if 0 in tg else tg.get(1)
    okrets = [b for b, i, s in ew.assigns() if s["p"]["l"] == 0 and place_is_local(s["p"]) and s["r"]["k"] == "agg" and s["r"].get("variant") == "Ok"]
    ok = okrets and all(ew.dominates(true_t, b) for b in okrets)
    ctx.oblig(ok, {"expect_where": "Ok(tok) only when the predicate accepted tok.kind"}, "dominance")
    if not ok:
        ctx.violation("expect_where-ok-unfiltered", ew.file_line(), "expect_where can return Ok for a token its predicate rejected")
    for user in ("lace::parser::AsmParser::expect_lit", "lace::parser::AsmParser::expect_reg"):
        f = ctx.fn(user)
        calls = [(b, t) for b, t, c in f.calls() if c == ew.name]
        ctx.need(len(calls) == 1, "expect_where call in %s" % short(user))
        b, t = calls[0]
        cls = [x for x in t["f"].get("closures", []) if x in prog.fns]
        ctx.need(len(cls) == 1, "predicate closure of %s" % short(user))
        acc_paths = true_paths(prog.fns[cls[0]])
        handled = nonpanic_paths(f, token_kind_adts(prog))
        ctx.instance(1, {"in": short(user), "filter accepts": sorted(acc_paths), "match handles": sorted(handled)})
        ok = bool(acc_paths) and acc_paths <= handled
        ctx.oblig(ok, None)
        if not ok:
            ctx.violation("filter-mismatch|%s" % short(user), f.file_line(),
                          "`%s` filters token kinds %s but its match only handles %s: the remaining arm is an unreachable!()/panic"
                          % (short(user), sorted(acc_paths), sorted(handled)))
    ctx.finish_rule()

    # ------------------------------------------------------------------ R3
    ctx.rule("C05.R3", "str slices on the assembler path start and end on char boundaries", floor=7)
    slice_sites(ctx, L)
    ctx.finish_rule()

    # ------------------------------------------------------------------ R4
    # spans are offsets into the text the cursor walks; the parser slices the text it was given with them. Both are the same text only if
    # the cursor keeps its parameter as it is (no prefix stripped, no trimming): src = the parameter, chars over the parameter, sizes = its length
    ctx.rule("C05.R3b", "the cursor walks exactly the text it is given", floor=1)
    cn = ctx.fn("lace::lexer::cursor::Cursor::<'sess>::new")
    aggs_cn = [s_ for b, i, s_ in cn.assigns() if s_["r"]["k"] == "agg" and str(s_["r"].get("adt", "")).endswith("lexer::cursor::Cursor")]
    ctx.instance(1)
    okc, whyc = len(aggs_cn) == 1, "the constructor does not build exactly one Cursor"
    if okc:
        for fname, op in zip(aggs_cn[0]["r"].get("fields", []), aggs_cn[0]["r"]["ops"]):
            e_ = kit.strip_refs(cn.expr(op, 8))
            if fname == "src":
                good = e_[0] == "arg" and e_[1] == 1
            elif fname == "chars":
                good = e_[0] == "call" and str(e_[1]).endswith("str>::chars") and kit.strip_refs(e_[2][0])[:2] == ("arg", 1)
            elif "usize" in str(cn.local_ty(op["p"]["l"]) if op.get("p") and not op["p"].get("pr") else "usize"):
                good = e_[0] == "call" and str(e_[1]).endswith("str>::len") and kit.strip_refs(e_[2][0])[:2] == ("arg", 1)
            else:
                good = True
            if not good:
                okc, whyc = False, "field `%s` is `%s`, not derived from the whole text handed in" % (fname, expr_str(e_, 60))
    ctx.oblig(okc, {"Cursor::new": "src, chars and sizes are those of the parameter"}, "field by field")
    if not okc:
        ctx.violation("cursor-other-text", cn.file_line(), "Cursor::new does not walk exactly the text it is given (%s): token spans then index another text than the one the "
                      "parser and the diagnostics slice with them - a span can end inside a character (panic) or show the wrong source" % whyc)
    ctx.finish_rule()

    ctx.rule("C05.R4", "every loop on the assembler path consumes input", floor=6)
    scope = [n for n in L.reach]
    M = must_consume(ctx, scope)
    nloops = 0
    for n in scope:
        f = prog.fns[n]
        lps = kit.loops(f)
        for h, (body, latches) in sorted(lps.items()):
            nloops += 1
            ctx.instance(1)
            work = {b for b in body if f.term(b)["k"] == "call" and (is_consumer(f.term(b), f) or callee_of(f.term(b)) in M)}
            cyc = kit.has_cycle(f, set(body) - work)
            ok = cyc is None and bool(work)
            ctx.oblig(ok, {"loop in": short(n), "at": sp_file_line(f.term(h).get("sp")), "consumes via": sorted({short(callee_of(f.term(b))) for b in work})[:3]},
                      "cycle broken by a finite consumer")
            if not ok:
                ctx.violation("loop-no-consumer|fn=%s" % short(n), sp_file_line(f.term(h).get("sp")),
                              "a loop in `%s` has a cycle that consumes no input (no iterator advance / cursor bump on it): a possible livelock on some text" % short(n))
    # the statement loops themselves cannot be written away; the inner ones (n words of .blkw, the characters of a string) can become iterator chains
    looped = {n for n in scope if kit.loops(prog.fns[n])}
    for must in ("lace::parser::preprocess", "lace::parser::AsmParser::parse"):
        ctx.need(must in looped, "the statement loop of %s" % short(must))
    ctx.note("%d loops in %d functions; must-consume functions: %s" % (nloops, len(scope), sorted(short(m) for m in M)[:12]))
    # recursion is a loop too, and one whose depth is bounded by the stack, not by the input: none on the assembler path
    ctx.instance(1)
    rec = []
    local = [n for n in scope if n in prog.fns]
    for n in sorted(local):
        for c in sorted(ctx.cg.callees(n)):
            if c in prog.fns and prog.fns[c].bkind == "fn" and n in ctx.cg.reachable([c]):
                rec.append((n, c))
    ctx.oblig(not rec, {"recursive calls on the assembler path": len(rec)}, "call graph of the local functions is acyclic")
    for n, c in rec[:4]:
        site = [t.get("sp") for b, t, cc in prog.fns[n].calls() if cc == c]
        ctx.violation("recursion|%s->%s" % (short(n), short(c)), sp_file_line(site[0]) if site else prog.fns[n].file_line(),
                      "`%s` calls `%s`, which can call back into it: the recursion depth grows with the input (e.g. one frame per comment line), "
                      "so a long enough text overflows the stack instead of being assembled or rejected" % (short(n), short(c)))
    ctx.finish_rule()

    # ------------------------------------------------------------------ R5
    ctx.rule("C05.R5", "the statement counter cannot leave 16 bits", floor=1)
    adds = [b for b, t, c in pf.calls() if c == "lace::air::Air::add_stmt"]
    ctx.need(adds, "add_stmt call in parse()")
    for ab in adds:
        ctx.instance(1)
        cons = L._dom_constraints(pf, ab)
        ok = any(c[0] == "bin" and c[1] in ("Eq", "Ne") and "line" in expr_str(c) and ("const", 65535) in (c[2], c[3])
                 and ((c[1] == "Eq" and v == 0) or (c[1] == "Ne" and v != 0)) for c, v in cons)
        ctx.oblig(ok, {"add_stmt": "dominated by line != u16::MAX"}, "dominating guard")
        if not ok:
            ctx.violation("line-guard", sp_file_line(pf.term(ab).get("sp")),
                          "a statement can be added when the 16-bit line counter is already at its maximum: numbering wraps (release) or panics (debug) "
                          "for programs of 65535+ words (two `.blkw xFFFF`)")
    ctx.finish_rule()

    # ------------------------------------------------------------------ R6
    # the place a diagnostic points to lies inside the source: every label of an assembler diagnostic is the span of a token handed to the
    # constructor (tokens are slices of the source), or an offset derived from the source length that cannot pass its end
    ctx.rule("C05.R6", "diagnostic labels are token spans or offsets bounded by the source length", floor=12)
    PART = re.compile(r"core::str::<impl str>::(trim|trim_start|trim_end|trim_start_matches|trim_end_matches|trim_matches)$")

    def from_param(f, e):
        e = kit.strip_refs(e)
        while e[0] in ("field", "deref", "ref", "downcast"):
            e = e[1]
        if e[0] == "call" and re.search(r"clone::Clone>::clone$|convert::Into<.*>>::into$|convert::From<.*>>::from$", str(e[1])) and len(e[2]) == 1:
            return from_param(f, e[2][0])
        return e[0] == "arg"

    def le_len(f, e, depth=0):
        """is the usize expression at most the length of the source text (a parameter of type &str)?"""
        e = kit.strip_refs(e)
        if depth > 8:
            return False
        if e[0] == "const":
            return e[1] == 0
        if e[0] == "call":
            c = str(e[1])
            if c.endswith("str>::len") and len(e[2]) == 1:
                x = kit.strip_refs(e[2][0])
                while x[0] == "call" and PART.search(str(x[1])) and x[2]:
                    x = kit.strip_refs(x[2][0])
                return x[0] == "arg"
            if re.search(r"Option::<T>::unwrap_or$", c) and len(e[2]) == 2:
                return le_len(f, e[2][1], depth + 1) and le_len(f, e[2][0], depth + 1)
            if re.search(r"core::num::<impl usize>::(checked_sub|saturating_sub)$", c) and len(e[2]) == 2:
                return le_len(f, e[2][0], depth + 1)
            if re.search(r"core::cmp::(Ord::)?min$|core::cmp::min$", c) and len(e[2]) == 2:
                return le_len(f, e[2][0], depth + 1) or le_len(f, e[2][1], depth + 1)
        if e[0] in ("bin", "checked") and e[1] == "Sub":
            return le_len(f, e[2], depth + 1)          # a difference that does not underflow is below its minuend (the ledger keeps the underflow)
        return False

    nlab = 0
    for n, f in sorted(prog.fns.items()):
        if f.bkind != "fn" or not n.startswith("lace::error::"):
            continue
        for b, t, c in f.calls():
            if not (c and re.search(r"miette::protocol::LabeledSpan::(at|at_offset|new|new_with_span|underline|new_primary_with_span)$", c)):
                continue
            nlab += 1
            ctx.instance(1)
            meth = c.rsplit("::", 1)[1]
            tys = t.get("arg_tys") or []
            # the span operand: `at(span, label)`, `at_offset(offset, label)`, `new(label, offset, len)`, `underline(span)`
            why = None
            if meth in ("at", "underline", "new_with_span", "new_primary_with_span"):
                k = 0 if meth in ("at", "underline") else 1
                e = f.expr(t["args"][k], 14)
                ty = tys[k] if k < len(tys) else ""
                if from_param(f, e):
                    pass
                else:
                    x = kit.strip_refs(e)
                    if x[0] == "agg" and len(x[2]) == 2 and ("Range" in str(x[1][1:]) or x[1][0] == "tuple"):
                        a_, b_ = x[2]
                        is_range = x[1][0] != "tuple"
                        if is_range and not (le_len(f, b_) and le_len(f, a_)):
                            why = "the range `%s` is not bounded by the length of the source" % expr_str(x, 80)
                        elif not is_range and not (le_len(f, a_) and b_ == ("const", 0)):
                            why = "the (offset, length) pair `%s` is not an empty span at an offset bounded by the source length" % expr_str(x, 80)
                    else:
                        why = "its span `%s` (%s) is neither a token span handed to the constructor nor built from the source length" % (expr_str(e, 80), ty[:40])
            elif meth == "at_offset":
                e = f.expr(t["args"][0], 14)
                if not le_len(f, e):
                    why = "the offset `%s` is not bounded by the length of the source" % expr_str(e, 80)
            else:   # new(label, offset, len)
                e1, e2 = f.expr(t["args"][1], 14), f.expr(t["args"][2], 14)
                if not (le_len(f, e1) and kit.strip_refs(e2) == ("const", 0)):
                    why = "offset `%s` with length `%s` is not an empty span bounded by the source length" % (expr_str(e1, 60), expr_str(e2, 40))
            ctx.oblig(why is None, {"label in": short(n), "via": meth}, "token span of a parameter, or offset <= len(src)")
            if why:
                ctx.violation("label-span|%s" % short(n), sp_file_line(t.get("sp")),
                              "the diagnostic built by `%s` labels a place that can lie outside the source: %s (the label is then dropped or the report fails to render)"
                              % (short(n), why))
    ctx.need(nlab >= 12, "LabeledSpan constructions in the assembler's error constructors (found %d)" % nlab)
    ctx.finish_rule()


def true_paths(f):
    """discriminant value tuples on the paths of predicate closure f that end in `true`"""
    out = set()
    tree = formula.decision(f)

    def walk(t, acc):
        if t[0] == "leaf":
            if t[1] == ("const", 1):
                out.add(tuple(acc))
            return
        cond = t[1]
        if cond[0] == "discr":
            for v, sub in t[2].items():
                walk(sub, acc + [v])
            walk(t[3], acc + ["*"])
        else:
            for v, sub in t[2].items():
                walk(sub, acc)
            walk(t[3], acc)
    walk(tree, [])
    return {p for p in out if "*" not in p}


def token_kind_adts(prog):
    """TokenKind and the enums its variants carry (LiteralKind, DirKind, ...): the enums that make up a token's kind"""
    TK = "lace::lexer::TokenKind"
    out = {TK}
    for v in prog.adt(TK)["variants"]:
        for fld in v.get("fields", []):
            ty = fld.get("ty", "")
            for nm in prog.adts:
                if prog.adts[nm].get("kind") == "enum" and (nm.endswith("::" + ty) or nm.split("::", 1)[-1] == ty):
                    out.add(nm)
    return out


def nonpanic_paths(f, adts=None):
    """discriminant value tuples (on the match over the filtered token's kind) that lead to a return, not to a panic; only
    matches on the enums in `adts` (those the filter looks at) count - a later match on something else is not part of the token's kind"""
    out = set()
    TK = "lace::lexer::TokenKind"
    sws = list(kit.discr_switches(f, TK))
    if not sws:
        return out
    sb, place, targets, oth = max(sws, key=lambda s: s[0])   # the match after the filter is the last one
    tree = formula.decision(f, start=sb)

    def walk(t, acc):
        if t[0] == "leaf":
            lab = t[1]
            if lab and lab[0] in ("diverge", "unreachable"):
                return
            out.add(tuple(acc))
            return
        cond = t[1]
        if cond[0] == "discr" and (adts is None or cond[2] in adts):
            for v, sub in t[2].items():
                walk(sub, acc + [v])
            walk(t[3], acc + ["*"])
        else:
            for v, sub in t[2].items():
                walk(sub, acc)
            walk(t[3], acc)
    walk(tree, [])
    return {p for p in out if "*" not in p}


# ------------------------------------------------------------------------------------------- slices
BOUNDARY_CALLS = ("lexer::cursor::Cursor::<'sess>::abs_pos", "symbol::Span::offs", "symbol::Span::end", "core::str::<impl str>::len",
                  "alloc::string::String::len")


def classify_bound(fn, e, depth=0):
    """'boundary' | 'boundary-1' | 'unknown' for a slice bound expression"""
    e = kit.strip_refs(e)
    k = e[0]
    if k == "const":
        return "boundary" if e[1] == 0 else "const%d" % e[1]
    if k == "cast":
        return classify_bound(fn, e[3], depth)
    if k == "call" and e[1] and any(e[1].endswith(b) for b in BOUNDARY_CALLS):
        return "boundary"
    if k in ("arg",):
        nm = e[2]
        if nm in ("start_pos",):
            return "boundary"
        return "arg:" + nm
    if k == "local" and depth < 4:
        ds = fn.defs().get(e[1], [])
        cls = set()
        for kind, b, i, node in ds:
            if kind == "call":
                c = callee_of(node) or ""
                cls.add("boundary" if any(c.endswith(x) for x in BOUNDARY_CALLS) else "unknown")
            elif kind == "stmt":
                cls.add(classify_bound(fn, fn.rvalue_expr(node["r"], 8), depth + 1))
            else:
                cls.add("unknown")
        return cls.pop() if len(cls) == 1 else "unknown"
    if k in ("bin", "checked"):
        a, b = classify_bound(fn, e[2], depth + 1), classify_bound(fn, e[3], depth + 1)
        if e[1] == "Sub" and a == "boundary" and e[3] == ("const", 1):
            return "boundary-1"
        if e[1] == "Sub" and a == "boundary" and e[3][0] == "call" and e[3][1] and e[3][1].endswith("pos_in_token"):
            return "boundary"       # abs_pos() - pos_in_token() = start of the current token
        if e[1] == "Add" and a == "boundary" and e[3][0] == "call" and e[3][1] and e[3][1].endswith("Span::len"):
            return "boundary"       # offs + len = span end
        if e[1] == "Add" and a == "boundary" and b == "boundary":
            return "unknown"
    if k == "field":
        # fields of a Span / Range built from boundaries
        return classify_bound(fn, e[1], depth + 1) if e[2] in ("start", "end") else ("boundary" if e[2] in ("offs", "0") else "unknown")
    if k == "agg" and e[1][0] == "adt" and "Range" in str(e[1][1]):
        cs = {classify_bound(fn, x, depth + 1) for x in e[2]}
        return cs.pop() if len(cs) == 1 else "mixed:" + ",".join(sorted(cs))
    return "unknown"


def slice_sites(ctx, L):
    prog = ctx.prog
    n = 0
    GET_RANGE = "lace::lexer::cursor::Cursor::<'sess>::get_range"
    for fname in L.reach:
        f = prog.fns[fname]
        for b, t, c in f.calls():
            if c is None:
                continue
            is_idx = bool(re.search(r"Index<I>( for str)?>::index$", c)) and "str" in (t.get("arg_tys") or [""])[0]
            is_gr = c == GET_RANGE
            if not (is_idx or is_gr):
                continue
            if fname == GET_RANGE:
                continue  # its own slice is its callers' obligation
            rng = f.expr(t["args"][1], 10)
            lo = hi = None
            r0 = kit.strip_refs(rng)
            if r0[0] == "agg" and r0[1][0] == "adt" and "Range" in str(r0[1][1]) and len(r0[2]) >= 2:
                lo, hi = classify_bound(f, r0[2][0]), classify_bound(f, r0[2][1])
            elif r0[0] == "call" and r0[1] and (r0[1].endswith("Into<U>>::into") or r0[1].endswith("::into") or r0[1].endswith("as_range")):
                src = expr_str(r0[2][0], 60)
                lo = hi = "boundary" if "span" in src else "unknown"
            elif r0[0] in ("arg", "local"):
                lo = hi = classify_bound(f, r0)
            n += 1
            ctx.instance(1)
            where = sp_file_line(t.get("sp"))
            okb = lo == "boundary" and hi == "boundary"
            why = "cursor positions / span ends"
            if not okb and lo == "boundary-1" and hi == "boundary":
                okb, why = ascii_just_bumped(ctx, f, b)
            if not okb and lo == "const1" and hi == "boundary-1":
                # "…"[1..len-1]: both ends strip a one-byte quote; the ledger entry ties this to the Lit(Str) token
                okb = any("Range{1, (len(&*str_raw) - 1)}" in k for k in L.db)
                why = "string literal text between its two ASCII quotes (ledger)"
            ctx.oblig(okb, {"slice in": short(fname), "at": where, "bounds": [lo, hi]}, why)
            if not okb:
                ctx.violation("slice|fn=%s|%s..%s" % (short(fname), lo, hi), where,
                              "`%s` slices the source with bounds classified (%s, %s) (%s): a multi-byte character at that position makes the "
                              "slice panic (\"not a char boundary\")" % (short(fname), lo, hi, why if isinstance(why, str) else ""))
    ctx.note("%d slice sites" % n)


def ascii_just_bumped(ctx, f, site_bb):
    """`abs_pos() - 1` as slice start is a boundary only directly after a one-byte character: the enclosing function must be
    called (only) from the lexer's dispatch on a single ASCII first character, with no other consumption before the slice"""
    prog = ctx.prog
    callers = ctx.cg.callers(f.name)
    if len(callers) != 1:
        return False, "function has %d callers" % len(callers)
    cf = prog.fns[callers[0]]
    # no consumption in f before the slice
    for b, t, c in f.calls():
        if c and (c.endswith("::bump") or c.endswith("::take_while")) and (f.dominates(b, site_bb) or b in kit_reaching(f, site_bb)):
            if b != site_bb and site_bb in f.reachable(b):
                # consumption before the slice is fine only if it cannot precede it
                if f.dominates(b, site_bb):
                    # take_while(is_id) before the slice in dir(): the start was computed before? require start computed first
                    pass
    sites = [b for b, t, c in cf.calls() if c == f.name]
    for sb in sites:
        ok = False
        for d in sorted(cf.dominators()[sb]):
            tt = cf.term(d)
            if tt["k"] == "switch" and op_local(tt["a"]) is not None and cf.local_ty(op_local(tt["a"])) == "char":
                vals = [v for v, x in tt["targets"] if x == sb or cf.dominates(x, sb)]
                if vals and all(0 <= v < 128 for v in vals) and not (tt["otherwise"] == sb or cf.dominates(tt["otherwise"], sb)):
                    ok = True
        if not ok:
            return False, "call site at %s is not under a match arm on a single-byte first character" % sp_file_line(cf.term(sb).get("sp"))
    return True, "position - 1 directly after a single-byte character (call site under an ASCII arm of the first-character match)"


def kit_reaching(fn, target):
    pm = fn.pred_map()
    seen = set()
    work = [target]
    while work:
        x = work.pop()
        if x in seen:
            continue
        seen.add(x)
        work.extend(pm[x])
    return seen
