"""C07 — check, compile and run agree on which sources are valid."""
import re
from ..facts import callee_of, short, sp_file_line, expr_str, expr_walk
from .. import kit
from ..stages import StageAnalysis, STAGES, ALL, EMPTY

EXPLANATION = (
    "Static must-pass-through analysis over the type-checked MIR of the lace binary and library. "
    "R1: for every sub-command arm of main() and every closure it builds, the set of validation "
    "stages (lex+preprocess, parse, backpatch, emit) passed on each *successful* path is computed by an "
    "interprocedural path-set dataflow (Err/Break edges and error returns are not successful; a for-loop over "
    "the AIR counts as emitting every statement); each path must pass none or all four. "
    "R1e: the Result of every stage-reaching call must be inspected. R2: every call from which the feature flag "
    "accessor is reachable is dominated by features::init. R3: the value given to init derives from the parsed "
    "command line. Agreement of the sub-commands follows because they then compute the same function of the source "
    "under the same flag."
    ' R1e also: the Err side of a stage result never reaches an Ok return of a Result-returning command. R2 also: a flag-reading closure is only handed to callees that run it on the initialising thread (core/alloc, std outside std::thread, hotwatch::blocking) unless it initialises the flag itself. R4: the text handed to the assembler is read from the path the command names (field, capture or parameter), not from a path computed elsewhere. R5: behind the test of the file extension against "asm" every success path passes all four stages - a source is never run from a stored object or unassembled. R6: every unit prepares the text it hands to the assembler the same way (the calls between read_to_string and StaticSource::new are the same set everywhere).'
    " R7: from the successful outcome of every read of a source text, every way to a normal return passes a validating call (a unit never answers for a text without assembling it). R1s follows the success message into helpers of the binary."
)
NOT_DECIDED = "nothing of substance: the property is decided by R1-R3 (agreement = same stages, same flag)"

MAIN = "bin::main"
INIT = "lace::features::init"
FLAG_READ = "lace::features::stack"


def command_units(ctx, fn):
    """[(unit_name, entry_block)] for every arm of the Command match in main, plus the bare-path arm"""
    units = []
    sw = list(kit.discr_switches(fn, "bin::Command"))
    ctx.need(len(sw) >= 1, "no match on the binary's Command enum in main()")
    b, place, targets, otherwise = sw[0]
    adt = ctx.prog.adt("bin::Command")
    for v in adt["variants"]:
        if v["idx"] in targets:
            units.append((v["name"], targets[v["idx"]]))
        else:
            ctx.need(False, "Command::%s has no arm in main()" % v["name"])
    # the `None` arm of Option<Command>: the Option switch that dominates the Command switch
    dom = fn.dominators()
    for ob in sorted(dom[b], reverse=True):
        if ob == b:
            continue
        s2 = kit.switch_on_discr_of_local(fn, ob)
        if s2 and s2[1] == "core::option::Option":
            t = fn.term(ob)
            for v, tb in t["targets"]:
                if v == 0:
                    units.append(("<bare path>", tb))
            if not any(u[0] == "<bare path>" for u in units):
                units.append(("<bare path>", t["otherwise"]))
            break
    return units


FIRST_STAGE = "lace::parser::AsmParser::new"


def run(ctx):
    prog = ctx.prog
    main = ctx.fn(MAIN)
    for s in STAGES:
        ctx.fn(s)
    sa = StageAnalysis(ctx)
    units = command_units(ctx, main)

    # ------------------------------------------------------------------ R1
    ctx.rule("C07.R1", "every sub-command that assembles passes all four validation stages on success", floor=5)
    unit_fns = []  # (name, fn, entry)
    for name, entry in units:
        unit_fns.append((name, main, entry))
    # closures built inside main (and inside functions reachable from main in the bin crate) that may reach a stage
    for n, f in sorted(prog.fns.items()):
        # a closure is a unit of its own only if it *starts* an assembly (the watch handler); a closure that merely runs a later
        # stage on behalf of its creator (`map(|s| s.emit())`) is accounted for at the call that drains it
        if f.defkind == "Closure" and n in sa.may and n.startswith("bin::") and (ctx.cg.reachable([n]) & {FIRST_STAGE}):
            unit_fns.append(("closure " + short(n), f, 0))
    assembling = 0
    for name, fn, entry in unit_fns:
        ins, transfer = sa.analyse(fn, start=entry)
        sets = set()
        for b in fn.exits():
            if b in ins:
                o = transfer(b, ins[b])
                if o:
                    sets |= o
        touched = [s for s in sets if s]
        if not touched:
            continue
        assembling += 1
        ctx.instance(1, {"unit": name, "success_path_stage_sets": [sorted(s) for s in sorted(sets, key=sorted)]})
        for s in sorted(sets, key=sorted):
            ok = (s == EMPTY or s == ALL)
            ctx.oblig(ok)
            if not ok:
                missing = sorted(ALL - s)
                ctx.violation("unit=%s|missing=%s" % (name, "+".join(missing)),
                              sp_file_line(fn.term(entry).get("sp", fn.span)),
                              "`%s` can report success after passing only {%s}: stage(s) {%s} never run, so it accepts "
                              "sources that a sub-command running all four stages rejects"
                              % (name, ", ".join(sorted(s)), ", ".join(missing)))
    ctx.note("%d unit(s) analysed, %d reach the assembler" % (len(unit_fns), assembling))
    ctx.finish_rule()

    # ------------------------------------------------------------------ R1s: "Success" is only said behind the four stages
    # a unit may finish without assembling (run of an object file), but where it *says* that the source has no errors, that sentence lies
    # behind all four stages on every path - a remembered verdict of an earlier round, a cache, a shortcut do not count
    ctx.rule("C07.R1s", "the success message is printed only behind all four validation stages", floor=2)
    nsucc = 0
    def says_success(fn, t, c):
        if not (c and c.startswith("bin::") and c.rsplit("::", 1)[-1] in ("message", "file_message")):
            return False
        return any("uccess" in x for a in t["args"] for x in kit.operand_strs(prog, fn, a))
    def sets_before_call_of(callee, depth=0):
        """stage sets that may hold when `callee` (a helper of the binary) is entered, over all its call sites"""
        out = set()
        for name2, g, entry2 in unit_fns + [("fn " + short(n2), g2, 0) for n2, g2 in sorted(prog.fns.items())
                                            if n2.startswith("bin::") and g2.bkind == "fn" and g2 is not main and g2.defkind != "Closure"]:
            ins2, _ = sa.analyse(g, start=entry2)
            for b2, t2, c2 in g.calls():
                if c2 != callee or b2 not in ins2:
                    continue
                here = set(ins2[b2])
                if g is not main and g.defkind != "Closure" and depth < 2 and any(s_ != ALL for s_ in here):
                    up = sets_before_call_of(g.name, depth + 1)
                    here = {frozenset(a_ | b_) for a_ in here for b_ in up} if up else here
                out |= here
        return out
    helper_units = [("fn " + short(n2), g2, 0) for n2, g2 in sorted(prog.fns.items())
                    if n2.startswith("bin::") and g2.bkind == "fn" and g2 is not main and g2.defkind != "Closure"
                    and any(says_success(g2, t, c) for b, t, c in g2.calls())]
    for name, fn, entry in unit_fns + helper_units:
        ins, transfer = sa.analyse(fn, start=entry)
        for b, t, c in fn.calls():
            if b not in ins or not says_success(fn, t, c):
                continue
            nsucc += 1
            ctx.instance(1)
            sets_ = set(ins[b])
            if (name, fn, entry) in helper_units and any(s_ != ALL for s_ in sets_):
                # the sentence sits in a helper: what its callers have passed before handing over counts too
                up = sets_before_call_of(fn.name)
                sets_ = {frozenset(a_ | b_) for a_ in sets_ for b_ in up} if up else sets_
            bad = [s_ for s_ in sets_ if s_ != ALL]
            ctx.oblig(not bad, {"unit": name, "success message at": sp_file_line(t.get("sp")), "stage sets on the ways there": [sorted(s_) for s_ in sorted(sets_, key=sorted)]}, "all four stages")
            if bad:
                ctx.violation("success-without-stages|%s" % name, sp_file_line(t.get("sp")),
                              "`%s` can print its success message after passing only {%s}: the verdict shown is not the result of assembling the text at hand "
                              "(check, compile and run would reject what it calls error-free)" % (name, ", ".join(sorted(bad[0])) or "no stage"))
    ctx.need(nsucc >= 2, "success messages in the assembling units (found %d)" % nsucc)
    ctx.finish_rule()

    # ------------------------------------------------------------------ R1e: results inspected
    ctx.rule("C07.R1e", "the Result of every stage-reaching call is inspected (no dropped validation outcome)", floor=8)
    for n, f in sorted(prog.fns.items()):
        if f.bkind != "fn" or not (n.startswith("bin::") or n.startswith("lace::runtime::RunEnvironment::try_from")):
            continue
        for b, t, c in f.calls():
            if c is None or not (c in STAGES or c in sa.may):
                continue
            dty = f.local_ty(t["dest"]["l"])
            if "core::result::Result<" not in dty:
                continue
            ctx.instance(1)
            ok = kit.result_is_consumed(f, b)
            ctx.oblig(ok, {"call": short(c), "in": short(n), "at": sp_file_line(t.get("sp"))}, "result flows to ?/match/return")
            if not ok:
                ctx.violation("fn=%s|callee=%s" % (short(n), short(c)), sp_file_line(t.get("sp")),
                              "result of `%s` is discarded in `%s`: a failed validation stage goes unnoticed"
                              % (short(c), short(n)))
            # ... and inspected means obeyed: in a function that itself reports through a Result (the one-shot commands), the Err side of that
            # Result never reaches an `Ok(..)` return - a failed stage that is looked at, printed and then followed by "Success" is check
            # accepting what compile rejects
            if "core::result::Result<" in str(f.d.get("output", "")) and not t["dest"].get("pr"):
                okrets = {bb for bb, ii, ss in f.assigns() if ss["p"]["l"] == 0 and not ss["p"].get("pr") and ss["r"]["k"] == "agg" and ss["r"].get("variant") == "Ok"}
                for eb, et in sorted(kit.result_err_edges(f, only_locals={t["dest"]["l"]})):
                    hit = sorted(f.reachable(et) & okrets)
                    ctx.oblig(not hit, None)
                    if hit:
                        ctx.violation("err-then-success|fn=%s|callee=%s" % (short(n), short(c)), sp_file_line(f.term(eb).get("sp")),
                                      "in `%s` the error side of `%s`'s result can still reach a successful return (lines %s): a source that failed a validation stage "
                                      "is reported as accepted by this command" % (short(n), short(c), f.path_lines(f.path(et, set(hit)) or [])))
    ctx.finish_rule()

    # ------------------------------------------------------------------ R1x: no rejection of a sub-command's own after validation
    ctx.rule("C07.R1x", "once the shared validation has succeeded, a sub-command raises no rejection of its own", floor=4)
    from ..stages import adhoc_fns, adhoc_in_call
    adhoc = adhoc_fns(prog)
    for n, f in sorted(prog.fns.items()):
        if f.bkind != "fn" or not n.startswith("bin::") or n == "bin::assemble":
            continue
        for b, t, c in f.calls():
            if c is None or not (c in sa.may and c.startswith("bin::")):
                continue
            okt = kit.ok_target_of_call(f, b)
            if okt is None:
                continue
            ctx.instance(1)
            after = f.reachable(okt)
            bad = []
            for bb in sorted(after):
                tt = f.term(bb)
                if tt["k"] == "call":
                    w = adhoc_in_call(prog, adhoc, tt)
                    if w:
                        bad.append((bb, w))
            ctx.oblig(not bad, {"after `%s` succeeded in" % short(c): short(n), "own rejections": len(bad)}, "no ad-hoc error constructed on the success side")
            for bb, w in bad:
                ctx.violation("own-rejection|fn=%s" % short(n), sp_file_line(f.term(bb).get("sp")),
                              "`%s` constructs an error of its own (%s) after `%s` has accepted the source: this sub-command then rejects "
                              "a source the others accept" % (short(n), short(w), short(c)))
    ctx.finish_rule()

    # ------------------------------------------------------------------ R2: init dominates every flag reader
    ctx.rule("C07.R2", "features::init dominates every call that can reach the feature-flag accessor", floor=4)
    ctx.fn(INIT)
    ctx.fn(FLAG_READ)
    cg = ctx.cg
    may_read = {n for n in prog.fns if prog.fns[n].bkind == "fn" and FLAG_READ in cg.reachable([n])}
    init_blocks = [b for b, t, c in main.calls() if c == INIT]
    dom = main.dominators()
    unit_of = {}
    for name, entry in units:
        for b in kit.dominated_region(main, entry):
            unit_of[b] = name
    for b in sorted(main.live_blocks()):
        t = main.term(b)
        targets = []
        if t["k"] == "call":
            c = callee_of(t)
            if c in may_read or c == FLAG_READ:
                targets.append(c)
            for cl in t["f"].get("closures", []):
                nm = cl[3:] if cl.startswith("fn:") else cl
                if nm in may_read:
                    targets.append(nm)
        for s in main.stmts(b):
            if s["k"] == "assign" and s["r"]["k"] == "agg" and s["r"].get("ak") == "closure" and s["r"]["closure"] in may_read:
                targets.append(s["r"]["closure"])
        def self_inits(fname, depth=0):
            """the callee initialises the flag itself before anything in it can read it (`run(features, ..)` starting with features::init)"""
            g = prog.fns.get(fname)
            if g is None or g.bkind != "fn" or depth > 3:
                return False
            own = [ib for ib, tt, cc in g.calls() if cc == INIT]
            readers = []
            for rb, tt, cc in g.calls():
                hit = cc == FLAG_READ or cc in may_read or any((x_[3:] if x_.startswith("fn:") else x_) in may_read for x_ in tt["f"].get("closures", []))
                if hit:
                    readers.append((rb, cc))
            if not readers:
                return False
            return all(any(g.dominates(ib, rb) and ib != rb for ib in own) or (cc in prog.fns and cc != fname and self_inits(cc, depth + 1)) for rb, cc in readers)
        for c in targets:
            ctx.instance(1)
            ok = any(ib in dom[b] and ib != b for ib in init_blocks) or self_inits(c)
            unit = unit_of.get(b, "?")
            ctx.oblig(ok, {"site": sp_file_line(t.get("sp")), "unit": unit, "reaches_flag_via": short(c)}, "dominated by features::init")
            if not ok:
                p = cg.path(c, lambda x: x == FLAG_READ) or [c]
                ctx.violation("unit=%s|callee=%s" % (unit, short(c)), sp_file_line(t.get("sp")),
                              "`%s` arm: `%s` can reach the feature flag (%s) but no call to features::init dominates it — "
                              "the accessor panics \"before initialization\" for a source using push/pop/call/rets"
                              % (unit, short(c), " -> ".join(short(x) for x in p)))
    # the flag is thread-local: a closure that can read it must run on the thread that initialised it. Whoever receives such a
    # closure is therefore either same-thread by construction (core/alloc have no threads; std outside std::thread; hotwatch's
    # *blocking* watcher calls its handler from `run()` on the calling thread), or the closure initialises the flag itself.
    SAME_THREAD = re.compile(r"^(core::|alloc::|<?&?(mut )?core::|hotwatch::blocking::|std::(?!thread::))")
    nrecv = 0
    for b in sorted(main.live_blocks()):
        t = main.term(b)
        if t["k"] != "call":
            continue
        for cl in t["f"].get("closures", []):
            nm = cl[3:] if cl.startswith("fn:") else cl
            if nm not in may_read or nm not in prog.fns or prog.fns[nm].d.get("defkind") != "Closure":
                continue
            nrecv += 1
            ctx.instance(1)
            c = callee_of(t) or "?"
            cf = prog.fns[nm]
            own_init = [ib for ib, tt, cc in cf.calls() if cc == INIT]
            self_init = bool(own_init) and all(any(cf.dominates(ib, rb) for ib in own_init) for rb, tt, cc in cf.calls() if cc in may_read or cc == FLAG_READ)
            ok = bool(SAME_THREAD.search(c)) or self_init
            ctx.oblig(ok, {"closure": short(nm), "handed to": short(c), "unit": unit_of.get(b, "?")}, "runs on the initialising thread (or initialises the flag itself)")
            if not ok:
                ctx.violation("handler-thread|%s" % short(c), sp_file_line(t.get("sp")),
                              "the closure `%s`, which can reach the thread-local feature flag, is handed to `%s`; that is not known to call it on the thread "
                              "where features::init ran, and the closure does not initialise the flag itself: on another thread the accessor panics "
                              "\"before initialization\" for a source using push/pop/call/rets" % (short(nm), short(c)))
    ctx.note("%d flag-reading closure(s) handed to a callee" % nrecv)
    ctx.finish_rule()

    # ------------------------------------------------------------------ R3: the flag comes from the command line
    ctx.rule("C07.R3", "the argument of every features::init derives from the parsed command line", floor=4)
    parse_locals = set()
    for b, t, c in main.calls():
        if c and c.endswith("Parser::parse") and "clap" in c:
            parse_locals.add(t["dest"]["l"])
    ctx.need(parse_locals, "clap Parser::parse() call in main()")
    for b in init_blocks:
        t = main.term(b)
        ctx.instance(1)
        e = main.expr(t["args"][0])
        roots = [x for x in expr_walk(e) if x[0] == "local"]
        from_cli = any(x[1] in parse_locals for x in roots) or any(
            c.endswith("Parser::parse") and "clap" in c for c in kit.expr_calls(e))
        ok = from_cli and "features" in kit.expr_fields(e)
        ctx.oblig(ok, {"init_arg": expr_str(e), "at": sp_file_line(t.get("sp"))}, "field `features` of the clap result")
        if not ok:
            ctx.violation("unit=%s|arg" % unit_of.get(b, "?"), sp_file_line(t.get("sp")),
                          "features::init(%s) in the `%s` arm does not take its value from the command line; that arm cannot "
                          "agree with `compile -f stack`" % (expr_str(e), unit_of.get(b, "?")))
    # an init that sits in a helper of the binary (`run(features, ..)` starting with features::init(features)) takes a parameter: the value
    # handed in at each call in main is held to the same standard
    for n, f in sorted(prog.fns.items()):
        if f.bkind != "fn" or not n.startswith("bin::") or n == main.name:
            continue
        for ib, it, ic in f.calls():
            if ic != INIT:
                continue
            pe = kit.strip_refs(f.expr(it["args"][0], 6))
            sites = [(b, t) for b, t, c in main.calls() if c == n]
            if pe[0] != "arg" or not sites:
                ctx.instance(1)
                ctx.oblig(False, {"init in": short(n), "argument": expr_str(pe, 60)}, "a parameter filled from the command line")
                ctx.violation("unit=%s|arg" % short(n), sp_file_line(it.get("sp")), "features::init(%s) in `%s` does not take its value from the command line (it is neither "
                              "a parameter handed down from main nor the parsed options)" % (expr_str(pe, 60), short(n)))
                continue
            for b, t in sites:
                ctx.instance(1)
                e = main.expr(t["args"][pe[1] - 1])
                roots = [x for x in expr_walk(e) if x[0] == "local"]
                from_cli = any(x[1] in parse_locals for x in roots) or any(c.endswith("Parser::parse") and "clap" in c for c in kit.expr_calls(e))
                ok = from_cli and "features" in kit.expr_fields(e)
                ctx.oblig(ok, {"init_arg": expr_str(e), "through": short(n), "at": sp_file_line(t.get("sp"))}, "field `features` of the clap result")
                if not ok:
                    ctx.violation("unit=%s|arg" % unit_of.get(b, "?"), sp_file_line(t.get("sp")),
                                  "`%s` initialises the feature flags from its parameter, and the `%s` arm hands it `%s`, which does not come from the command line"
                                  % (short(n), unit_of.get(b, "?"), expr_str(e)))
    # siblings: every sub-command arm computes the value the same way from its own options (an arm that, say, forgets to merge
    # flags given before the sub-command assembles the same file under a different feature set than the others)
    def shape(e):
        if isinstance(e, tuple) and e and e[0] == "downcast" and isinstance(e[2], str) and e[2] not in ("Some", "Ok"):
            return ("ARM",)
        if isinstance(e, tuple):
            return tuple(shape(x) if isinstance(x, tuple) else x for x in e)
        return e
    shapes = {}
    for b in init_blocks:
        e = main.expr(main.term(b)["args"][0])
        sh = shape(e)
        if any(x == ("ARM",) for x in expr_walk(sh)) or sh == ("ARM",):
            shapes.setdefault(repr(sh), []).append((unit_of.get(b, "?"), expr_str(sh, 120)))
    ctx.instance(1)
    ok = len(shapes) <= 1
    ctx.oblig(ok, {"init argument shapes": [v[0][1] for v in shapes.values()]}, "one shape for all sub-command arms")
    if not ok:
        ctx.violation("init-shapes", main.file_line(), "the sub-command arms compute the feature flags differently: %s - the same file is then assembled under different "
                      "feature sets by different sub-commands" % "; ".join("%s: %s" % (sorted({u for u, _ in v}), v[0][1]) for v in shapes.values()))
    # every assembling unit must have its own init (R2 covers the closure through its creation site)
    ctx.finish_rule()

    # ------------------------------------------------------------------ R4: which file is assembled
    # check, compile, run and every re-check of watch judge *the file the command names*: the text handed to the assembler is read from the
    # command line's path (a field of the parsed command, a capture of it, or a parameter handed down) - not from a path computed elsewhere
    ctx.rule("C07.R4", "the assembled text is read from the path the command names", floor=3)
    PASS_THROUGH = re.compile(r"(ops::deref::Deref>::deref|convert::AsRef<.*>>::as_ref|PathBuf::as_path|borrow::Borrow<.*>>::borrow|clone::Clone>::clone)$")
    nread = 0
    for n, f in sorted(prog.fns.items()):
        if f.bkind != "fn" or not n.startswith("bin::"):
            continue
        for b, t, c in f.calls():
            if not (c and re.search(r"std::fs::(read_to_string|read)$", c)):
                continue
            nread += 1
            ctx.instance(1)
            e = f.expr(t["args"][0], 14)
            bad = None
            for x in expr_walk(e):
                if x[0] == "call" and not PASS_THROUGH.search(str(x[1])) and not str(x[1]).endswith("Parser::parse"):
                    bad = "computed by `%s`" % short(str(x[1]))
                    break
                if x[0] == "arg" and f.d.get("defkind") == "Closure" and x[1] != 1:
                    bad = "taken from the closure's own parameter `%s`" % x[2]
                    break
            ctx.oblig(bad is None, {"read in": short(n), "path": expr_str(e, 100)}, "command-line path (field / capture / parameter)")
            if bad:
                ctx.violation("source-path|%s" % short(n), sp_file_line(t.get("sp")),
                              "`%s` reads the text it assembles from a path %s (`%s`), not from the path the command names: it can judge a different file than "
                              "check/compile/run of the same command line do" % (short(n), bad, expr_str(e, 100)))
    ctx.need(nread >= 3, "source reads in the command arms (found %d)" % nread)
    ctx.finish_rule()

    # ------------------------------------------------------------------ R5
    # a source file is never run unassembled: in the function that tells object files from sources by the extension, every success path behind
    # the `"asm"` test passes all four stages (a shortcut that runs a stored object instead lets `run` accept a source that check and compile reject)
    ctx.rule("C07.R5", "behind the \"asm\" extension test every success path assembles the source", floor=1)
    nasm = 0
    for n, f in sorted(prog.fns.items()):
        if f.bkind != "fn" or not n.startswith("bin::"):
            continue
        for gb, lit, true_bb, false_bb in kit.str_eq_guards(prog, f):
            if lit != "asm" or true_bb is None:
                continue
            nasm += 1
            ctx.instance(1)
            ins, transfer = sa.analyse(f, start=true_bb)
            sets = set()
            for b in f.exits():
                if b in ins:
                    o = transfer(b, ins[b])
                    if o:
                        sets |= o
            bad = [s for s in sets if s != ALL]
            ctx.oblig(not bad, {"in": short(n), "success paths behind \"asm\" pass": [sorted(s) for s in sorted(sets, key=sorted)]}, "all four stages")
            if bad:
                ctx.violation("asm-arm-unassembled|%s" % short(n), sp_file_line(f.term(gb).get("sp")),
                              "`%s` can finish successfully for a `.asm` file after passing only {%s}: the source was not assembled (an object stored earlier "
                              "was used, or nothing ran), so run accepts a source that check and compile reject" % (short(n), ", ".join(sorted(bad[0])) or "no stage"))
    ctx.need(nasm >= 1, "test of the file extension against \"asm\" in the binary")
    ctx.finish_rule()

    # ------------------------------------------------------------------ R6
    # every unit that assembles obtains the text the same way: what lies between reading the file and handing the text to the assembler
    # (a helper that normalises it, strips a byte order mark, ...) is the same for check, compile, run and the watch re-check - otherwise
    # one of them judges another text than the others
    ctx.rule("C07.R6", "all assembling units prepare the source text the same way", floor=3)
    PLAIN = re.compile(r"std::fs::read_to_string$|IntoDiagnostic<.*>>::into_diagnostic$|Try>::branch$|FromResidual<.*>>::from_residual$|clone::Clone>::clone$|"
                       r"ops::deref::Deref>::deref$|convert::AsRef<.*>>::as_ref$|convert::Into<.*>>::into$|convert::From<.*>>::from$|clap|Parser::parse$|PathBuf::as_path$")
    shapes6 = {}
    for n, f in sorted(prog.fns.items()):
        if f.bkind != "fn" or not n.startswith("bin::"):
            continue
        for b, t, c in f.calls():
            if not (c and c.endswith("StaticSource::new")):
                continue
            ctx.instance(1)
            e = f.expr(t["args"][0], 12)

            def calls_behind(f_, e_, depth=0, seen=None):
                """callee names in e_, looking through locals that are assigned on several paths (`match text.strip_prefix(..) { Some(r) => .., None => .. }`)"""
                seen = seen if seen is not None else set()
                out = set()
                for x in expr_walk(e_):
                    if x[0] == "call":
                        out.add(str(x[1]))
                    elif x[0] == "local" and depth < 3 and x[1] not in seen:
                        seen.add(x[1])
                        for kind_, db_, i_, node_ in f_.defs().get(x[1], []):
                            if kind_ == "stmt":
                                out |= calls_behind(f_, f_.rvalue_expr(node_["r"], 10), depth + 1, seen)
                            else:
                                out.add(str(callee_of(node_)))
                                for a_ in node_["args"]:
                                    out |= calls_behind(f_, f_.expr(a_, 10), depth + 1, seen)
                return out
            extra = sorted({short(c_) for c_ in calls_behind(f, e) if not PLAIN.search(c_)})
            shapes6.setdefault(tuple(extra), []).append((short(n), sp_file_line(t.get("sp"))))
    ok = len(shapes6) <= 1
    ctx.oblig(ok, {"text preparation": {(", ".join(k) or "read_to_string only"): [w[0] for w in v] for k, v in shapes6.items()}}, "one shape for every unit")
    if not ok:
        minority = min(shapes6.items(), key=lambda kv: len(kv[1]))
        ctx.violation("source-preparation", minority[1][0][1],
                      "the units do not prepare the source text the same way: %s - a file one of them accepts after its own preparation is judged raw by the other(s)"
                      % "; ".join("%s: %s" % ([w[0] for w in v], ", ".join(k) or "the text as read") for k, v in sorted(shapes6.items())))
    ctx.need(sum(len(v) for v in shapes6.values()) >= 3, "StaticSource::new sites in the binary")
    ctx.finish_rule()

    # ------------------------------------------------------------------ R7
    # a text that was read is judged by assembling it, by nothing else: from the successful outcome of every read of a source text, every
    # way to a normal return passes a call that runs the validation (the failure of the read itself is handed up or ends the process).
    # A unit that answers for some texts - the empty one, an unchanged one - without assembling gives a verdict check / compile / run
    # never give
    ctx.rule("C07.R7", "every source text that was read is assembled before the unit answers", floor=3)
    n7 = 0
    for n, f in sorted(prog.fns.items()):
        if f.bkind != "fn" or not n.startswith("bin::"):
            continue
        stage_calls = set()
        for b, t, c in f.calls():
            if c in STAGES or c in sa.may or any((cl[3:] if cl.startswith("fn:") else cl) in sa.may for cl in t["f"].get("closures", [])):
                stage_calls.add(b)
        if not stage_calls:
            continue
        errb = kit.error_blocks(f)
        rets = {b for b in f.live_blocks() if f.term(b)["k"] == "return"}
        for b, t, c in f.calls():
            if not (c and c.endswith("std::fs::read_to_string")) or t.get("t") is None:
                continue
            if not (f.reachable(t["t"]) & stage_calls):
                continue          # a read that has nothing to do with assembling
            n7 += 1
            ctx.instance(1)
            lost = f.reachable(t["t"], avoid=stage_calls | errb) & rets
            pth = f.path(t["t"], lost, avoid=stage_calls | errb) if lost else None
            ctx.oblig(not lost, {"read in": short(n), "at": sp_file_line(t.get("sp"))}, "every return behind a validating call (or the read's own failure)")
            if lost:
                ctx.violation("read-not-assembled|%s" % short(n), sp_file_line(t.get("sp")),
                              "`%s` can answer for a text it has read without assembling it (lines %s): for such a text its verdict is not the one check, compile "
                              "and run give" % (short(n), f.path_lines(pth) if pth else "?"))
    ctx.need(n7 >= 3, "reads of a source text that lead to an assembly (found %d)" % n7)
    ctx.finish_rule()
