"""C10 — stepping commands execute exactly what they promise."""
from ..facts import callee_of, short, sp_file_line, expr_str, place_is_local, op_local, expr_walk
from .. import kit, dbg, formula
from ..linear import lin, show, same

EXPLANATION = (
    "R1: the decision structure of the debugger's instruction classifier (read off its CFG) is compared with the ISA "
    "patterns of RET (JMP with base 7), RETS (1101 10..) and HALT (TRAP x25) on all 65,536 words (finite-domain "
    "equivalence of the extracted formula, not an execution of lace). R2 (LIN): step stores return address PC+1. "
    "R3: step-into's count is max(parsed,1) with default 1 at every construction site and the stepper starts at count-1. "
    "R4: the per-call transitions of the four resuming states, extracted from the pausing code as (condition, status "
    "update, counter update, returned action), equal the specification table; with R3 this gives 'exactly N "
    "instructions' by induction (on paper). R5 (DOM): in the run loop the HALT test lies on every path from Proceed to "
    "execute and its true edge only leads back to the loop head; every resuming command arm passes the HALT check before "
    "changing the status."
    " R3/R4: step into N is decided representation-independently - the one-step outcome of the stepper for every counter value and the rank of every initial counter (N Proceeds, waiting again on the N-th). R5's HALT test is required per cycle of the run loop; the HALT helper is found by role. R6 also: no command arm returns Proceed itself."
)
NOT_DECIDED = ("that the composed machine pauses exactly where the statement says for all programs (breakpoint interplay, "
               "nested subroutines); this is argued on paper from R2-R5")

STATUS = "lace::debugger::Status"
EXEC = "lace::runtime::RunState::execute"


def spec_class(w):
    op = w >> 12
    if op == 0xC and (w >> 6) & 7 == 7:
        return "Return"
    if op == 0xD and (w >> 10) & 3 == 2:
        return "Return"
    if op == 0xF and (w & 0xFF) == 0x25:
        return "Halt"
    return None


def leaf_class(label):
    if label is None:
        return None
    s = expr_str(label)
    if label[0] == "agg" and label[1][0] == "adt" and label[1][2] in ("Ok", "Some"):
        inner = label[2][0]
        if inner[0] == "agg":
            return inner[1][2]
    return None


def arm_paths(fn, entry, stop_blocks, limit=4000):
    """unfold the CFG from `entry`; a path ends at `return` or on entering a block of stop_blocks.
    yields (conds, effects, end) with conds = [(expr, taken_value)], effects = list of ('status', variant) /
    ('store', place_str, expr), end = ('return', expr_of__0) | ('goto', bb)"""
    out = []
    count = [0]

    def walk(b, conds, effs, ret, onpath):
        count[0] += 1
        if count[0] > limit:
            raise RuntimeError("arm too large")
        if b in onpath:
            out.append((conds, effs, ("loop", b)))
            return
        onpath = onpath | {b}
        for s in fn.stmts(b):
            if s["k"] != "assign":
                continue
            flds = [e.get("n") for e in s["p"].get("pr", []) if isinstance(e, dict) and "f" in e]
            if s["p"]["l"] == 0 and place_is_local(s["p"]):
                ret = fn.rvalue_expr(s["r"], 4, stop={"named"})
            elif flds and flds[-1] == "status":
                e = fn.rvalue_expr(s["r"], 4)
                effs = effs + [("status", e[1][2] if e[0] == "agg" else expr_str(e))]
            elif s["p"].get("pr") and s["p"]["pr"][0] == "*" and fn.local_name(s["p"]["l"]):
                effs = effs + [("store", fn.local_name(s["p"]["l"]), fn.rvalue_expr(s["r"], 6, stop={"named"}))]
        t = fn.term(b)
        k = t["k"]
        if k == "return":
            out.append((conds, effs, ("return", ret)))
            return
        if k == "switch":
            c = fn.expr(t["a"], 8, stop={"named"})
            for v, tb in t["targets"]:
                nxt(tb, conds + [(c, v)], effs + [("cond", c, v)], ret, onpath)
            ov = ("else", tuple(v for v, tb in t["targets"]))
            nxt(t["otherwise"], conds + [(c, ov)], effs + [("cond", c, ov)], ret, onpath)
            return
        if k == "call":
            if t["dest"]["l"] == 0 and place_is_local(t["dest"]):
                ret = ("call", callee_of(t), ())
            if t.get("t") is None:
                out.append((conds, effs, ("diverge", callee_of(t))))
                return
            nxt(t["t"], conds, effs + ([("call", callee_of(t))] if (callee_of(t) or "").startswith("lace::debugger::Debugger::") else []), ret, onpath)
            return
        if k in ("goto", "drop", "assert"):
            nxt(t["t"], conds, effs, ret, onpath)
            return
        out.append((conds, effs, ("other", k)))

    def nxt(b, conds, effs, ret, onpath):
        if b in stop_blocks:
            out.append((conds, effs, ("goto", b)))
            return
        walk(b, conds, effs, ret, onpath)

    walk(entry, [], [], None, frozenset())
    return out


def relevant(c):
    s = expr_str(c)
    return not ("is_minimal" in s or "instruction_count" in s)


def summarise(paths):
    """set of (relevant condition outcomes, status effect, counter effect, end kind)"""
    res = set()
    for conds, effs, end in paths:
        rc = tuple(sorted((expr_str(c, 100), "else" if isinstance(v, tuple) else str(v)) for c, v in conds if relevant(c)))
        st = tuple(e[1] for e in effs if e[0] == "status")
        stores = tuple((e[1], show(lin(e[2]))) for e in effs if e[0] == "store")
        calls = tuple(short(e[1]) for e in effs if e[0] == "call")
        if end[0] == "return":
            ek = "return " + (expr_str(end[1]) if end[1] else "?")
        else:
            ek = end[0]
        res.add((rc, st, stores, calls, ek))
    return res


def run(ctx):
    prog = ctx.prog
    disp, sw_bb, arms, sp, selfp = dbg.dispatcher(ctx)
    pz = dbg.pauser(ctx, disp)
    rl = dbg.run_loop(ctx, pz)

    # ------------------------------------------------------------------ R1
    ctx.rule("C10.R1", "the debugger's RET/RETS/HALT classifier equals the ISA patterns on all 65,536 words", floor=1)
    clsf = ctx.fn("lace::<debugger::SignificantInstr as core::convert::TryFrom<u16>>::try_from")
    tree = formula.decision(clsf)
    bad = None
    for w in range(0x10000):
        try:
            lab = formula.eval_decision(tree, {"args": {"instr": w, 1: w}, "prog": prog})
        except (formula.Unknown, formula.Overflow) as e:
            bad = (w, "unknown: %s" % e, spec_class(w))
            break
        got = leaf_class(lab)
        if got != spec_class(w):
            bad = (w, got, spec_class(w))
            break
    ctx.instance(1, {"classifier": short(clsf.name), "words": 65536, "conditions": [expr_str(c) for c in formula.tree_conditions(tree)]})
    ctx.oblig(bad is None, {"words compared": 65536}, "decision structure == ISA patterns")
    if bad:
        ctx.violation("classifier", clsf.file_line(),
                      "the debugger classifies word 0x%04X as %s, the ISA says %s: `step out` / the HALT guard would act on the wrong instruction"
                      % (bad[0], bad[1], bad[2]))
    ctx.finish_rule()

    # ------------------------------------------------------------------ R2 / R3
    ctx.rule("C10.R2", "step stores return address PC + 1", floor=1)
    reg = dbg.arm_region(disp, arms["StepOver"])
    found = 0
    for b in sorted(reg):
        for s in disp.stmts(b):
            if s["k"] == "assign" and s["r"]["k"] == "agg" and s["r"].get("adt") == STATUS and s["r"].get("variant") == "StepOver":
                found += 1
                l = lin(disp.expr(s["r"]["ops"][0], 10))
                ok = same(l, 1, [("pc(", 1)])
                ctx.instance(1)
                ctx.oblig(ok, {"return_addr": show(l)}, "pc + 1")
                if not ok:
                    ctx.violation("return-addr", sp_file_line(s.get("sp")), "`step` records return address `%s`; it must pause at PC + 1" % show(l))
    ctx.need(found == 1, "Status::StepOver construction in the StepOver arm")
    ctx.finish_rule()

    ctx.rule("C10.R3", "step into N: N is at least 1 everywhere it is built, and the stepper's initial counter is a function of N", floor=2)
    reg = dbg.arm_region(disp, arms["StepInto"])
    found = 0
    init_exprs = []
    for b in sorted(reg):
        for s in disp.stmts(b):
            if s["k"] == "assign" and s["r"]["k"] == "agg" and s["r"].get("adt") == STATUS and s["r"].get("variant") == "StepInto":
                found += 1
                e = disp.expr(s["r"]["ops"][0], 10, stop={"named"})
                init_exprs.append((e, s.get("sp")))
                leaves = {x[2] for x in expr_walk(e) if x[0] in ("local", "arg")}
                ctx.instance(1)
                ok = len(leaves) == 1
                ctx.oblig(ok, {"initial counter": expr_str(e, 60)}, "a function of the command's count only (its value is decided together with the stepper, R4)")
                if not ok:
                    ctx.violation("initial-counter", sp_file_line(s.get("sp")), "`step into N` starts its counter at `%s`, which is not a function of N alone" % expr_str(e, 60))
    ctx.need(found == 1, "Status::StepInto construction in the StepInto arm")
    # every construction of Command::StepInto takes its count from the clamping reader
    n_cons = 0
    for n, f in sorted(prog.fns.items()):
        if f.bkind != "fn":
            continue
        for b, i, s in f.assigns():
            if s["r"]["k"] == "agg" and s["r"].get("adt") == dbg.COMMAND_ADT and s["r"].get("variant") == "StepInto":
                n_cons += 1
                ctx.instance(1)
                e = f.expr(s["r"]["ops"][0], 12)
                calls = kit.expr_calls(e)
                readers = [c for c in calls if c and c.startswith("lace::debugger::command::parse::") and c in prog.fns]
                ok = False
                why = expr_str(e)
                for r0 in readers:
                    okr, why = clamps_to_one(ctx, prog.fns[r0])
                    ok = ok or okr
                ctx.oblig(ok, {"Command::StepInto.count": expr_str(e, 120), "clamp": why}, "max(value, 1) with default 1")
                if not ok:
                    ctx.violation("count-not-clamped|fn=%s" % short(n), sp_file_line(s.get("sp")),
                                  "Command::StepInto is built with count `%s` which is not clamped to >= 1 (%s): `step into 0` would "
                                  "underflow the stepper (count - 1)" % (expr_str(e, 100), why))
    ctx.need(n_cons >= 1, "construction site of Command::StepInto")
    ctx.finish_rule()

    # ------------------------------------------------------------------ R4
    ctx.rule("C10.R4", "per-call transitions of the resuming states equal the specification table", floor=4)
    sts = list(kit.discr_switches(pz, STATUS))
    ctx.need(sts, "match on Status in the pausing function")
    dbb, place, targets, oth = sts[0]
    vnames = {v["idx"]: v["name"] for v in prog.adt(STATUS)["variants"]}
    # blocks that re-enter the dispatch: the loop header of the dispatch loop
    lps = kit.loops(pz)
    heads = [h for h, (body, l) in lps.items() if dbb in body]
    ctx.need(heads, "dispatch loop in the pausing function")
    head = min(heads, key=lambda h: len(lps[h][0]))
    stop = {head, dbb}
    got = {}
    for vi, tb in targets.items():
        got[vnames[vi]] = summarise(arm_paths(pz, tb, stop))
    # roles: which Status variant each resuming command installs (found from the dispatcher, so a renamed variant keeps its role)
    disp4, sw_bb4, arms4, sp4, selfp4 = dbg.dispatcher(ctx)
    role_of = {}
    for cmd, role in (("Continue", "continue"), ("StepOver", "stepover"), ("StepInto", "stepinto"), ("StepOut", "finish")):
        ctx.need(cmd in arms4, "`%s` arm of the dispatcher" % cmd)
        reg4 = dbg.arm_region(disp4, arms4[cmd])
        vs = set()
        for b4, i4, s4 in disp4.assigns():
            if b4 in reg4 and [e.get("n") for e in s4["p"].get("pr", []) if isinstance(e, dict) and "f" in e][-1:] == ["status"]:
                e4 = disp4.rvalue_expr(s4["r"], 4)
                if e4[0] == "agg" and e4[1][0] == "adt":
                    vs.add(e4[1][2])
                else:
                    src4 = op_local(s4["r"].get("a", {})) if s4["r"]["k"] == "use" else None
                    vs |= {s5["r"].get("variant") for b5, i5, s5 in disp4.assigns() if src4 is not None and place_is_local(s5["p"]) and s5["p"]["l"] == src4
                           and s5["r"]["k"] == "agg" and s5["r"].get("adt") == STATUS}
        if len(vs) == 1:
            role_of[vs.pop()] = role
    ctx.need(len(role_of) == 4, "the four resuming commands install four distinct Status variants (found %s)" % role_of)
    idx_of = {v: k for k, v in vnames.items()}

    INSTRS = {"none": ("variant", "None", "core::option::Option", ()),
              "ret": ("variant", "Some", "core::option::Option", (("variant", "Return", "lace::debugger::SignificantInstr", ()),)),
              "halt": ("variant", "Some", "core::option::Option", (("variant", "Halt", "lace::debugger::SignificantInstr", ()),))}

    def run_arm(paths, env0, cfield="count"):
        """outcomes of the arm under a concrete (count, at_ret, instr): every path whose evaluable conditions hold. The events of a
        path are replayed in order, so a test that follows `*count -= 1` reads the decremented counter."""
        outs = set()
        for conds, effs, end in paths:
            env = dict(env0)

            def sub(e, env=env):
                if (e[0] in ("local", "arg") and e[2] == cfield) or (e[0] == "field" and e[2] == cfield and e[1][0] == "downcast"):
                    return env["count"]
                if (e[0] in ("local", "arg") and e[2] == "return_addr") or (e[0] == "field" and e[2] == "return_addr" and e[1][0] == "downcast"):
                    return 0x4000
                if e[0] == "call" and str(e[1]).endswith("RunState::pc"):
                    return 0x4000 if env["at_ret"] else 0x3000
                if e[0] in ("local", "arg") and e[2] == "instr":
                    return INSTRS[env["instr"]]
                if e[0] == "local" and e[1] not in env.setdefault("_open", set()):
                    # some other named temporary (`let remaining = ..`): look through it
                    env["_open"].add(e[1])
                    try:
                        full = pz.local_expr(e[1], 10)
                        if full != e:
                            return formula.evaluate(kit.resolve_promoteds(prog, full), {"subst": sub, "prog": prog})
                    except (formula.Unknown, formula.Overflow):
                        return None
                    finally:
                        env["_open"].discard(e[1])
                return None
            ok_path = True
            st, stores = [], []
            for ev in effs:
                if ev[0] == "cond":
                    c, v = ev[1], ev[2]
                    try:
                        val = formula.evaluate(kit.resolve_promoteds(prog, c), {"subst": sub, "prog": prog})
                    except formula.Overflow:
                        ok_path = False           # the checked operation this condition guards fails: not a path of the transition
                        break
                    except formula.Unknown:
                        continue                      # a condition on something else (output mode, statistics): either way
                    if isinstance(val, bool):
                        val = 1 if val else 0
                    if isinstance(v, tuple):
                        if val in v[1]:
                            ok_path = False
                    elif val != v:
                        ok_path = False
                    if not ok_path:
                        break
                elif ev[0] == "status":
                    st.append(ev[1])
                elif ev[0] == "store":
                    try:
                        nv = formula.evaluate(ev[2], {"subst": sub, "prog": prog})
                        stores.append((ev[1], nv))
                        if ev[1] == cfield and isinstance(nv, int):
                            env["count"] = nv
                    except (formula.Unknown, formula.Overflow):
                        stores.append((ev[1], "?"))
            if not ok_path:
                continue
            if end[0] == "return":
                ek = "Proceed" if end[1] is not None and "Proceed" in expr_str(end[1]) else "return " + (expr_str(end[1]) if end[1] else "?")
            elif end[0] in ("goto", "loop"):
                ek = "redispatch"
            else:
                ek = end[0]
            outs.add((tuple(st), tuple(stores), ek))
        return outs

    def want(role, env):
        if role == "continue":
            return ((), (), "Proceed")
        if role == "stepinto":
            return ((), (("count", env["count"] - 1),), "Proceed") if env["count"] > 0 else (("WaitForAction",), (), "Proceed")
        if role == "stepover":
            return (("WaitForAction",), (), "redispatch") if env["at_ret"] else ((), (), "Proceed")
        if role == "finish":
            return (("WaitForAction",), (), "Proceed") if env["instr"] == "ret" else ((), (), "Proceed")

    for vname, role in sorted(role_of.items(), key=lambda kv: kv[1]):
        ctx.need(vname in idx_of and idx_of[vname] in targets, "arm for Status::%s in the pausing function" % vname)
        paths = arm_paths(pz, targets[idx_of[vname]], stop)
        ctx.instance(1, {"state": vname, "role": role, "paths": len(paths)})
        bad = None
        ncell = 0
        if role == "stepinto":
            # representation-independent: whatever the counter stores (instructions left after / including the next one), `step into N`
            # must answer Proceed exactly N times and go back to waiting on the N-th - replayed on the extracted transition for small N
            # (and 65,535 in the thorough tier), for every instruction class and return-address state
            vfields = [f_["name"] for v_ in prog.adt(STATUS)["variants"] if v_["name"] == vname for f_ in v_.get("fields", [])]
            ctx.need(len(vfields) == 1 and len(init_exprs) == 1, "the one counter field of Status::%s and its initial value" % vname)
            cfield = vfields[0]
            init_e = init_exprs[0][0]
            # one-step outcome for every counter value (instruction class and return-address state must not matter: checked on small values)
            step = {}

            def one(c, at_ret=0, instr="none"):
                outs = run_arm(paths, {"count": c, "at_ret": at_ret, "instr": instr}, cfield)
                if len(outs) != 1:
                    return ("ambiguous", sorted(outs))
                st_, stores_, ek_ = list(outs)[0]
                nxt_ = [nv_ for nm_, nv_ in stores_ if nm_ == cfield]
                if any(not isinstance(v_, int) for v_ in nxt_):
                    return ("overflow", sorted(outs))
                if ek_ != "Proceed" or st_ not in ((), ("WaitForAction",)):
                    return ("other", sorted(outs))
                return ("wait" if st_ else "go", nxt_[-1] if nxt_ else c)
            for c in range(0x10000):
                step[c] = one(c)
            ncell += 0x10000
            for c in (0, 1, 2, 3, 65535):
                for at_ret in (0, 1):
                    for instr in ("none", "ret", "halt"):
                        ncell += 1
                        if one(c, at_ret, instr) != step[c] and bad is None:
                            bad = ({"counter": c, "at_ret": at_ret, "instr": instr}, [one(c, at_ret, instr)], "the same step as for any other instruction: %s" % (step[c],))
            # rank: how many Proceeds follow from counter c until the debugger waits again (None: never / leaves the well-behaved set)
            rank = {}
            for c in range(0x10000):
                chain = []
                x = c
                while x not in rank and x not in chain and step.get(x, ("other",))[0] == "go":
                    chain.append(x)
                    x = step[x][1]
                if x in rank:
                    base = rank[x]
                elif step.get(x, ("other",))[0] == "wait":
                    rank[x] = 1
                    base = 1
                else:
                    base = None
                    if x not in rank:
                        rank[x] = None
                for y in reversed(chain):
                    base = None if base is None else base + 1
                    rank[y] = base
            for N in range(1, 0x10000):
                if bad:
                    break
                try:
                    c0 = formula.evaluate(init_e, {"subst": lambda e_: N if e_[0] in ("local", "arg") else None})
                except (formula.Unknown, formula.Overflow) as exn:
                    bad = ({"N": N}, ["initial counter: %s" % exn], "a value")
                    break
                if rank.get(c0) != N:
                    bad = ({"N": N, "initial counter": c0}, ["lets %s instruction(s) through%s" % (rank.get(c0), "" if rank.get(c0) is not None else " (runs into %s)" % (step.get(c0),))], "N Proceeds, waiting on the N-th")
            ctx.stepinto_ok = bad is None
            ctx.oblig(bad is None, {"state": vname, "visits replayed": ncell, "initial counter": expr_str(init_e, 40)}, "N Proceeds, waiting again on the N-th")
            if bad:
                ctx.violation("transition|%s" % role, sp_file_line(pz.term(targets[idx_of[vname]]).get("sp")),
                              "`step into N`: with %s the `%s` state does %s; N instructions must be let through and the debugger must wait again on the N-th (expected %s)"
                              % (bad[0], vname, bad[1], bad[2]))
            continue
        for count in (0, 1, 2, 65535):
            for at_ret in (0, 1):
                for instr in ("none", "ret", "halt"):
                    env = {"count": count, "at_ret": at_ret, "instr": instr}
                    ncell += 1
                    outs = run_arm(paths, env)
                    w = want(role, env)
                    if outs != {w}:
                        bad = ({k: v for k, v in env.items() if not k.startswith("_")}, sorted(outs), w)
                        break
                if bad:
                    break
            if bad:
                break
        ctx.oblig(bad is None, {"state": vname, "cells": ncell}, "transition function == specification on every (count, at return address, instruction class) cell")
        if bad:
            ctx.violation("transition|%s" % role, sp_file_line(pz.term(targets[idx_of[vname]]).get("sp")),
                          "the `%s` state (installed by the %s command) with %s does %s; the specification says %s (status writes, counter store, then Proceed / re-dispatch)"
                          % (vname, role, bad[0], bad[1], bad[2]))
    # the waiting state reads a command: returns the action if one is raised, otherwise dispatches again
    wname = "WaitForAction"
    ctx.need(wname in idx_of and idx_of[wname] in targets, "arm for Status::WaitForAction")
    wp = summarise(arm_paths(pz, targets[idx_of[wname]], stop))
    ctx.instance(1)
    okw = all(any("run_command" in x for x in ca) and not st for c, st, so, ca, e in wp) and {("goto" if e in ("goto", "loop") else "return") for c, st, so, ca, e in wp if True} <= {"goto", "return"} \
        and any(e.startswith("return") for c, st, so, ca, e in wp) and any(e in ("goto", "loop") for c, st, so, ca, e in wp)
    ctx.oblig(okw, {"WaitForAction": sorted(e for c, st, so, ca, e in wp)}, "run_command, then return its action or dispatch again")
    if not okw:
        ctx.violation("transition|wait", sp_file_line(pz.term(targets[idx_of[wname]]).get("sp")), "the waiting state does not read a command and then either return its action or dispatch again: %s" % sorted(wp)[:3])
    ctx.finish_rule()

    # ------------------------------------------------------------------ R5
    ctx.rule("C10.R5", "HALT is never executed while the debugger is attached", floor=5)
    ex = [b for b, t, c in rl.calls() if c == EXEC]
    pzb = [b for b, t, c in rl.calls() if c == pz.name]
    ctx.need(len(ex) == 1 and len(pzb) == 1, "execute / pausing call in the run loop")
    # the HALT test of the run loop: after a Proceed, a branch on "the word at the PC is HALT" whose HALT side cannot reach execute in this cycle
    pt_, exb_, skips_ = dbg.run_loop_skips(ctx, rl)
    halts = [x for x in skips_ if x[1] == "halt"]
    ctx.instance(1, {"halt test": [expr_str(x[2], 160) for x in halts]})
    ok = len(halts) == 1
    ctx.oblig(ok, {"run loop": "one HALT test between Proceed and execute"}, "classification of the skipping branches")
    if not ok:
        ctx.violation("halt-test-missing", rl.file_line(), "between the debugger's Proceed and execute the run loop has %d test(s) of `word at PC is HALT` (expected one): "
                      "HALT could be executed while the debugger is attached" % len(halts))
    else:
        swb = halts[0][0]
        # within this cycle of the run loop (a `continue` that skips execute starts a new cycle, with a new question to the debugger)
        heads_ = {h for h, (body, latches) in kit.loops(rl).items() if exb_ in body}
        ok = exb_ not in rl.reachable(pt_, avoid={swb} | heads_)
        ctx.instance(1)
        ctx.oblig(ok, {"Proceed -> execute": "passes the HALT test"}, "must-pass")
        if not ok:
            ctx.violation("proceed-skips-halt-test", sp_file_line(rl.term(exb_).get("sp")), "a Proceed from the debugger can reach execute without the HALT test")
    # every resuming arm passes check_halt before changing the status
    # the helper by role: the Option<()>-returning method of the debugger that every resuming arm calls (it may be handed the decoded
    # instruction, or the machine state to decode the word at the PC itself)
    halt_checks = [n for n, f in prog.fns.items() if f.bkind == "fn" and n.startswith("lace::debugger::Debugger::")
                   and f.d.get("output") == "core::option::Option<()>"
                   and all(any(c == n and b in dbg.arm_region(disp, arms[a_]) for b, t, c in disp.calls()) for a_ in ("Continue", "StepOver", "StepInto", "StepOut"))]
    ctx.need(len(halt_checks) == 1, "HALT check helper (the Option<()> method every resuming arm calls)")
    hc = halt_checks[0]
    hf = prog.fns[hc]
    ctx.analysed_fns.add(hc)
    # helper: None exactly when the instruction at the PC is HALT
    htree = formula.decision(hf)
    hconds = [kit.resolve_promoteds(prog, c) for c in formula.tree_conditions(htree) if relevant(c)]
    st_params = [i_ for i_ in range(1, hf.arg_count + 1) if "RunState" in hf.local_ty(i_)]
    subject_ok = len(hconds) == 1 and ("instr" in expr_str(hconds[0]) and any("SignificantInstr" in x_ for x_ in hf.d.get("inputs", []))
                                       or any(dbg.reads_live_word(hf, hf.expr(hf.term(b_)["a"], 14) if False else hconds[0], p_) for p_ in st_params for b_ in [0]))
    if len(hconds) == 1 and not subject_ok and st_params:
        # the condition is over a local that was decoded from the live word earlier in the helper
        full = [hf.expr(hf.term(b_)["a"], 16) for b_ in sorted(hf.live_blocks()) if hf.term(b_)["k"] == "switch"]
        subject_ok = any(dbg.reads_live_word(hf, e_, p_) for e_ in full for p_ in st_params)
    ok = len(hconds) == 1 and "Halt" in expr_str(hconds[0]) and subject_ok
    ctx.oblig(ok, {"check_halt condition": [expr_str(c)[:120] for c in hconds]}, "instr == Some(Halt)")
    if not ok:
        ctx.violation("halt-helper-cond", hf.file_line(), "the HALT check helper tests %s" % [expr_str(c)[:120] for c in hconds])
    for arm in ("Continue", "StepOver", "StepInto", "StepOut"):
        reg = dbg.arm_region(disp, arms[arm])
        sets = [b for b in reg for s in disp.stmts(b) if s["k"] == "assign"
                and [e.get("n") for e in s["p"].get("pr", []) if isinstance(e, dict) and "f" in e][-1:] == ["status"]]
        guards = [b for b, t, c in disp.calls() if b in reg and c == hc]
        ctx.instance(1)
        ok = bool(sets) and all(any(kit.ok_target_of_call(disp, g) is not None and disp.dominates(kit.ok_target_of_call(disp, g), s) for g in guards) for s in sets)
        ctx.oblig(ok, {"arm": arm, "status updates": len(sets), "HALT checks": len(guards)}, "dominated by check_halt(Some)")
        if not ok:
            ctx.violation("resume-without-halt-check|%s" % arm, sp_file_line(disp.term(arms[arm]).get("sp")),
                          "`%s` changes the debugger status without first passing the HALT check: parked on HALT it would resume and the "
                          "run loop would skip forever / report nothing" % arm)
        # the instr given to the check is decoded from mem[pc] *after* the command was read
        for g in guards:
            ee = disp.expr(disp.term(g)["args"][0], 14)
            e = expr_str(ee, 300)
            okk = dbg.reads_live_word(disp, ee, sp)
            if not okk and st_params:
                # the helper decodes the word itself: it must be handed the live machine state (the dispatcher's own RunState parameter)
                okk = False
                for a_ in disp.term(g)["args"]:
                    x_ = disp.expr(a_, 6)
                    while x_[0] in ("ref", "deref"):
                        x_ = x_[1]
                    okk = okk or (subject_ok and x_[0] == "arg" and x_[1] == sp)
            ctx.oblig(okk, None)
            if not okk:
                ctx.violation("halt-check-arg|%s" % arm, sp_file_line(disp.term(g).get("sp")), "`%s` checks HALT on `%s`, not on the word at the current PC" % (arm, e[:120]))
    ctx.finish_rule()

    # ------------------------------------------------------------------ R6
    ctx.rule("C10.R6", "each resuming command installs exactly its own stepping state", floor=4)
    # ... and leaves the decision to proceed to the state dispatch: a command arm that answers `Proceed` itself skips the first look at the
    # instruction under the PC (the RET that `step out` is waiting for, the breakpoint and HALT tests of that cycle)
    ctx.instance(1)
    own_proceed = []
    for b_, i_, s_ in disp.assigns():
        e_ = disp.rvalue_expr(s_["r"], 6)
        if s_["p"]["l"] == 0 and any(x[0] == "agg" and x[1][0] == "adt" and str(x[1][1]).endswith("debugger::Action") and x[1][2] == "Proceed" for x in expr_walk(e_)):
            own_proceed.append(s_)
    ctx.oblig(not own_proceed, {"dispatcher returns Proceed itself": len(own_proceed)}, "never")
    for s_ in own_proceed:
        ctx.violation("dispatcher-proceeds", sp_file_line(s_.get("sp")), "a command arm returns `Proceed` itself instead of handing the installed state to the state dispatch: "
                      "the instruction under the PC is executed without having been examined (a RET under `step out`, a breakpoint, a HALT)")
    # which variant belongs to which command was derived for R4 (role_of); a command that may install two different states has no entry there
    WANT = {{"continue": "Continue", "stepover": "StepOver", "stepinto": "StepInto", "finish": "StepOut"}[r]: v for v, r in role_of.items()}
    for arm, want in sorted(WANT.items()):
        ctx.need(arm in arms, "`%s` arm of the dispatcher" % arm)
        region = dbg.arm_region(disp, arms[arm])
        writes = []
        for b, i, s_ in disp.assigns():
            if b in region and [e.get("n") for e in s_["p"].get("pr", []) if isinstance(e, dict) and "f" in e][-1:] == ["status"]:
                e = disp.rvalue_expr(s_["r"], 4)
                if e[0] == "agg" and e[1][0] == "adt":
                    writes.append((b, e[1][2], s_.get("sp")))
                    continue
                # a value chosen earlier (`let st = if .. {A} else {B}; self.status = st`): every variant it may hold
                src = op_local(s_["r"].get("a", {})) if s_["r"]["k"] == "use" else None
                vs = sorted({s2["r"].get("variant") for b2, i2, s2 in disp.assigns()
                             if src is not None and place_is_local(s2["p"]) and s2["p"]["l"] == src and s2["r"]["k"] == "agg" and s2["r"].get("adt") == STATUS})
                for v in vs or [expr_str(e, 40)]:
                    writes.append((b, v, s_.get("sp")))
        ctx.instance(1)
        wrong = [w for w in writes if w[1] != want]
        # every path on which the HALT pre-check passed reaches the assignment
        sm = disp.succ_map()
        leaving = {b for b in region if any(x not in region for x in sm[b])}
        wb_ = {w[0] for w in writes if w[1] == want}
        skipped = set()
        for g in [b for b, t, c in disp.calls() if b in region and c and c.endswith("Debugger::check_halt")]:
            okt = kit.ok_target_of_call(disp, g)
            if okt is not None:
                skipped |= (disp.reachable(okt, avoid=wb_) & leaving) - wb_
        ok = bool(writes) and not wrong and not skipped
        ctx.oblig(ok, {"arm": arm, "status :=": sorted({w[1] for w in writes})}, "only Status::%s, on every path past the HALT pre-check" % want)
        if not ok:
            ctx.violation("arm-state|%s" % arm, sp_file_line((wrong[0][2] if wrong else None) or disp.term(arms[arm]).get("sp")),
                          "`%s` must put the debugger into Status::%s on every path that passes the HALT pre-check; it assigns %s%s: the command then "
                          "executes something other than what it promises for some instructions"
                          % (arm, want, sorted({w[1] for w in writes}) or "nothing", " and has a path that assigns nothing" if skipped else ""))
    ctx.finish_rule()


def _clamps_by_evaluation(ctx, f):
    """the same question for a reader written out (`let v = reader(.., Ok(d))?; Ok(if v == 0 { 1 } else { v })`): its decision
    structure is evaluated with the inner reader's value bound to 0, 1, 2, 7 and 65535; the answer must be Ok(max(value, 1)), and the
    default handed to the inner reader must be >= 1. None when the function has no such shape (the caller reports)."""
    from .. import formula
    prog = ctx.prog
    readers = []
    for b, t, c in f.calls():
        if c and c.startswith("lace::debugger::command::parse::") and c in prog.fns and "Result<u16" in str(prog.fns[c].d.get("output", "")):
            readers.append((b, t, c))
    if len(readers) != 1:
        return None
    b0, t0, rname = readers[0]
    d_ok = False
    for a in t0["args"]:
        for x in expr_walk(f.expr(a, 8)):
            if x[0] == "agg" and x[1][0] == "adt" and x[1][2] == "Ok" and x[2] and x[2][0][0] == "const":
                d_ok = x[2][0][1] >= 1
    try:
        tree = formula.decision(f)
    except formula.NotATree:
        return None
    for v in (0, 1, 2, 7, 65535):
        def sub(e, _v=v):
            if e[0] == "call" and str(e[1]).endswith("Try>::branch") and len(e[2]) == 1 and e[2][0][0] == "call" and e[2][0][1] == rname:
                return ("variant", "Continue", "core::ops::control_flow::ControlFlow", (_v,))
            if e[0] == "call" and e[1] == rname:
                return ("variant", "Ok", "core::result::Result", (_v,))
            return None
        env = {"subst": sub, "prog": prog}
        try:
            lab = formula.eval_decision(tree, env)
            got = formula.evaluate(lab, env) if lab is not None else None
        except (formula.Unknown, formula.Overflow) as ex:
            return False, "the value returned for an inner result of %d cannot be decided (%s)" % (v, ex)
        want = max(v, 1)
        if not (isinstance(got, tuple) and got[:2] == ("variant", "Ok") and got[3] == (want,)):
            return False, "an inner result of %d comes out as %s, not Ok(%d)" % (v, got, want)
    return d_ok, "default>=1: %s, evaluated: Ok(max(value, 1)) for 0, 1, 2, 7, 65535" % d_ok


def clamps_to_one(ctx, f):
    """does reader function f return Result::map(reader(.., Ok(d)), |v| max(v, m)) with d >= 1 and m >= 1 ?"""
    ctx.analysed_fns.add(f.name)
    e = f.local_expr(0, 12)
    if not (e[0] == "call" and e[1] and e[1].endswith("Result::<T, E>::map")):
        alt = _clamps_by_evaluation(ctx, f)
        if alt is not None:
            return alt
        return False, "result is `%s`, not a mapped reader result" % expr_str(e, 80)
    inner, clo = e[2][0], e[2][1]
    # default value
    d_ok = False
    for x in expr_walk(inner):
        if x[0] == "agg" and x[1][0] == "adt" and x[1][2] == "Ok" and x[2] and x[2][0][0] == "const":
            d_ok = x[2][0][1] >= 1
    cl = None
    for x in expr_walk(clo):
        if x[0] == "agg" and x[1][0] == "closure":
            cl = x[1][1]
    if cl is None or cl not in ctx.prog.fns:
        return False, "no closure passed to map"
    cf = ctx.prog.fns[cl]
    ce = cf.local_expr(0, 8)
    m_ok = ce[0] == "call" and ce[1] and ce[1].endswith("::max") and any(a[0] == "const" and a[1] >= 1 for a in ce[2]) and any(a[0] == "arg" for a in ce[2])
    return (d_ok and m_ok), "default>=1: %s, closure: %s" % (d_ok, expr_str(ce, 60))
