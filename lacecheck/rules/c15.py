"""C15 — eval executes the instruction it is given, here and now."""
import re
from ..facts import callee_of, short, sp_file_line, expr_str, expr_walk, place_is_local, op_local
from .. import kit, dbg, formula
from ..linear import lin, show, same

EXPLANATION = (
    "R1 (DOM/TAB): in eval the arms for BR*, RTI and the refused traps cannot reach execute; the set of trap vectors that "
    "can (decision structure over the 256 vectors) equals the VM's trap dispatch set minus HALT. R2 (CG): the word comes "
    "from the assembler's emit and is applied by the VM's execute - eval has no private encoder or interpreter. R3 (LIN): "
    "the temporary statement is numbered pc - origin, which is what makes `label - line - 1` denote the label's address "
    "at the current PC. R4: after the statement is parsed, a remaining token leads to an Err return - not to a panic and "
    "not to acceptance (checked on the dev and release MIR). R5: closed ledger of process-exit sites reachable from eval, "
    "each discharged by R1 / C18 or stated as a limitation."
)
NOT_DECIDED = "the ISA effect of the evaluated instruction (C02's subject); literal PC offsets and link values (left unspecified by the property)"

EVAL = "lace::debugger::eval::eval_inner"
EXEC = "lace::runtime::RunState::execute"
EMIT = "lace::air::AsmLine::emit"
AIRSTMT = "lace::air::AirStmt"
TRAP = "lace::runtime::RunState::trap"


def vm_trap_set(ctx):
    tf = ctx.fn(TRAP)
    best = None
    for b in sorted(tf.live_blocks()):
        t = tf.term(b)
        if t["k"] == "switch":
            e = tf.expr(t["a"], 6)
            if e[0] == "bin" and e[1] == "BitAnd" and ("const", 255) in (e[2], e[3]) and len(t["targets"]) >= 4:
                best = (b, t)
    ctx.need(best, "trap vector dispatch (switch on instr & 0xFF) in the VM")
    b, t = best
    return {v for v, x in t["targets"]}, b, t


def run(ctx):
    prog = ctx.prog
    # the routine that parses, checks, encodes and executes the line: eval_inner, or eval itself where the two are one piece of code
    # (a helper that only assembles is written into its caller by the inliner)
    if EVAL not in prog.fns and "lace::debugger::eval::eval" in prog.fns and any(c == EXEC for b, t, c in prog.fns["lace::debugger::eval::eval"].calls()):
        ev = ctx.fn("lace::debugger::eval::eval")
    else:
        ev = ctx.fn(EVAL)
    exs = [b for b, t, c in ev.calls() if c == EXEC]
    ctx.need(len(exs) == 1, "one execute call in eval")
    E = exs[0]

    ctx.rule("C15.R1", "refused instructions cannot reach execute; allowed traps = VM traps minus HALT", floor=3)
    sws = list(kit.discr_switches(ev, AIRSTMT))
    ctx.need(sws, "match on the parsed AirStmt in eval")
    sb, place, targets, oth = max(sws, key=lambda s: len(s[2]))
    vnames = {v["idx"]: v["name"] for v in prog.adt(AIRSTMT)["variants"]}
    by_name = {vnames[i]: tb for i, tb in targets.items()}
    def can_reach_exec(start):
        # feasible paths only: a helper's `return true` (refused) must be matched with the caller's early return
        return E in ev.reachable(start) and kit.feasible_path_avoiding(ev, start, E, set()) is not None
    default_reaches = can_reach_exec(oth)
    for v in ("Branch", "Interrupt"):
        ctx.instance(1)
        tb = by_name.get(v)
        reaches = can_reach_exec(tb) if tb is not None else default_reaches
        ctx.oblig(not reaches, {"refused": v}, "execute unreachable from the arm")
        if reaches:
            ctx.violation("refusal-missing|%s" % v, sp_file_line(ev.term(sb).get("sp")),
                          "eval lets `%s` statements reach execute: %s" % (v, "BR* would silently not branch (CC none) / RTI hits todo!()"))
    # raw words must not be executable through eval
    tb = by_name.get("RawWord")
    reaches = can_reach_exec(tb) if tb is not None else default_reaches
    ctx.oblig(not reaches, {"refused": "RawWord"}, "execute unreachable")
    if reaches:
        ctx.violation("refusal-missing|RawWord", sp_file_line(ev.term(sb).get("sp")), "eval can execute a raw data word")
    # traps: decision over the vector
    ctx.need("Trap" in by_name, "Trap arm in eval")
    tree = formula.decision(ev, start=by_name["Trap"], leaf_of_block=lambda b: ("exec",) if b == E else None)
    tree = formula.map_tree(tree, lambda c: kit.resolve_promoteds(prog, c))
    allowed = set()
    unknown = None

    def subst_for(v):
        def sub(e):
            if e[0] == "field" and e[2] == "trap_vect":
                return v
            return None
        return sub
    for v in range(256):
        try:
            labs = formula.eval_decision_set(tree, {"subst": subst_for(v)})
        except formula.Overflow as ex:
            unknown = (v, str(ex))
            break
        if ("exec",) in labs:
            allowed.add(v)
    ctx.need(unknown is None, "decidable trap refusal structure in eval (%s)" % (unknown,))
    vm, vb, vt = vm_trap_set(ctx)
    want = vm - {0x25}
    ctx.instance(1, {"allowed trap vectors": sorted(hex(x) for x in allowed), "VM dispatch": sorted(hex(x) for x in vm)})
    ok = allowed == want
    ctx.oblig(ok, None)
    if not ok:
        extra = sorted(allowed - want)
        missing = sorted(want - allowed)
        ctx.violation("trap-set", sp_file_line(ev.term(by_name["Trap"]).get("sp")),
                      "eval executes trap vectors %s that it must refuse (HALT / vectors the VM answers with exit 0xEE) and refuses %s "
                      "that the VM implements" % ([hex(x) for x in extra], [hex(x) for x in missing]))
    ctx.finish_rule()

    ctx.rule("C15.R2", "eval uses the assembler's encoder and the VM's interpreter", floor=2)
    cal = {c for b, t, c in ev.calls()}
    for want_c, what in ((EMIT, "AsmLine::emit"), (EXEC, "RunState::execute"), ("lace::parser::AsmParser::parse_simple", "the assembler's statement parser"),
                         ("lace::air::AsmLine::backpatch", "label resolution")):
        ctx.instance(1)
        ctx.oblig(want_c in cal, {"calls": what}, "direct callee")
        if want_c not in cal:
            ctx.violation("missing-callee|%s" % what, ev.file_line(), "eval does not go through %s" % what)
    # the executed word is emit's result
    e = ev.expr(ev.term(E)["args"][1], 10)
    ok = any(c == EMIT for c in kit.expr_calls(e))
    if not ok:
        # the word travels through a result that is built in several places (`Ok(Some(word))` on the success path, `Ok(None)` / the
        # re-raised error elsewhere): every place that can supply the payload which is executed must supply emit's result
        def resolve(x, depth=0):
            x = kit.strip_refs(x)
            if depth > 8:
                return [x]
            if x[0] == "field" and str(x[2]) == "0" and x[1][0] == "downcast":
                out_ = []
                for c_ in resolve(x[1][1], depth + 1):
                    c_ = kit.strip_refs(c_)
                    if c_[0] == "agg" and c_[1][0] == "adt" and c_[1][2] == x[1][2] and len(c_[2]) == 1:
                        out_ += resolve(c_[2][0], depth + 1)
                    elif c_[0] == "agg" and c_[1][0] == "adt":
                        continue          # another variant: it cannot be the one whose payload is taken
                    elif c_[0] == "call" and kit.is_from_residual(str(c_[1])):
                        continue          # the re-raised error / None
                    else:
                        out_.append(("field", ("downcast", c_, x[1][2]), "0"))          # the payload of a call's result: as it stands
                return out_
            if x[0] == "local" and len(ev.defs().get(x[1], [])) > 1:
                out_ = []
                for d_ in ev.defs()[x[1]]:
                    if d_[0] == "stmt":
                        out_ += resolve(ev.rvalue_expr(d_[3]["r"], 10), depth + 1)
                    elif d_[0] == "call":
                        out_.append(("call", callee_of(d_[3]) or "<indirect>", tuple(ev.expr(a_, 6) for a_ in d_[3]["args"])))
                return out_
            return [x]
        cands = resolve(e)
        ctx.note("executed word resolved through %d place(s): %s" % (len(cands), [expr_str(c_, 50) for c_ in cands][:6]))
        ok = bool(cands) and all(any(c == EMIT for c in kit.expr_calls(c_)) for c_ in cands)
    ctx.oblig(ok, {"executed word": expr_str(e, 100)}, "the result of emit")
    if not ok:
        ctx.violation("executed-word", sp_file_line(ev.term(E).get("sp")), "eval executes `%s`, which is not the word produced by AsmLine::emit" % expr_str(e, 100))
    ctx.finish_rule()

    ctx.rule("C15.R3", "the evaluated statement is numbered pc - origin", floor=1)
    news = [(b, t) for b, t, c in ev.calls() if c == "lace::air::AsmLine::new"]
    ctx.need(len(news) == 1, "AsmLine::new in eval")
    b, t = news[0]
    l = lin(ev.expr(t["args"][0], 10))
    # the machine's PC and origin, read through their accessors or - in a helper of RunState that was inlined here - as the fields themselves
    ok = same(l, 0, [((lambda s_: "pc(" in s_ or re.search(r"\bstate\.pc\b|\bself\.pc\b", s_) is not None), 1), ("orig", -1)])
    ctx.instance(1)
    ctx.oblig(ok, {"line of the temporary statement": show(l)}, "pc - origin")
    if not ok:
        ctx.violation("eval-line", sp_file_line(t.get("sp")),
                      "eval numbers its temporary statement `%s`; label operands are encoded as label - line - 1 and executed at the current "
                      "PC, so unless line = pc - origin a label denotes label + (pc - origin) - (%s)" % (show(l), show(l)))
    ctx.finish_rule()

    ctx.rule("C15.R4", "text that is not exactly one instruction is refused with an error", floor=2)
    ps = ctx.fn("lace::parser::AsmParser::parse_simple")
    stmt_calls = [b for b, t, c in ps.calls() if c in ("lace::parser::AsmParser::parse_instr", "lace::parser::AsmParser::parse_trap")]
    ctx.need(len(stmt_calls) >= 2, "parse_instr / parse_trap calls in parse_simple")
    for sbk in stmt_calls:
        ctx.instance(1)
        start = kit.ok_target_of_call(ps, sbk)
        ctx.need(start is not None, "success continuation of the statement parser call")
        tree = formula.decision(ps, start=start)
        res = {}
        for case in ("Some", "None"):
            def hook(*a, _c=case):
                return ("variant", _c, "core::option::Option", (0,))
            env = {"calls": {"Iterator>::next": hook, "Peekable<I>::peek": hook, "Peekable<I>::next_if": hook}, "subst": _const_true}
            try:
                lab = formula.eval_decision(tree, env)
                res[case] = formula.label_variant(lab) or (lab[0] if lab else "?")
                if lab and lab[0] == "diverge":
                    res[case] = "panic"
            except (formula.Unknown, formula.Overflow) as ex:
                res[case] = "unknown(%s)" % ex
        ok = res.get("Some") == "Err" and res.get("None") == "Ok"
        ctx.oblig(ok, {"after statement": res}, "leftover token -> Err, none -> Ok")
        if not ok:
            what = {"panic": "panics (debug_assert)", "Ok": "is silently accepted"}.get(res.get("Some"), "ends in %s" % res.get("Some"))
            ctx.violation("leftover-token|%s" % res.get("Some"), sp_file_line(ps.term(sbk).get("sp")),
                          "after one statement is parsed, a surplus token %s instead of being refused with an error "
                          "(e.g. `eval add r1 r1 #1 r2`)" % what)
    # the token pre-pass of eval hands the parser *all* tokens up to the end of the text: only Eof ends its loop
    pps = ctx.fn("lace::parser::preprocess_simple")
    TK = "lace::lexer::TokenKind"
    tsw = list(kit.discr_switches(pps, TK))
    ctx.need(tsw, "match on TokenKind in preprocess_simple")
    tb_, tplace, ttargets, toth = max(tsw, key=lambda x: len(x[2]))
    tnames = {v["idx"]: v["name"] for v in prog.adt(TK)["variants"]}
    lp = [(h, body) for h, (body, latches) in kit.loops(pps).items() if tb_ in body]
    ctx.need(lp, "token loop in preprocess_simple")
    h_, body_ = min(lp, key=lambda x: len(x[1]))
    errb_ = kit.error_blocks(pps)
    def leaves_ok(start):
        """can control leave the loop from `start` (without an error / panic) before coming back to its head?"""
        for b in pps.reachable(start, avoid={h_}):
            if b not in body_ and b not in errb_ and pps.term(b)["k"] in ("return", "goto", "call", "switch", "drop"):
                if any(pps.term(x)["k"] == "return" for x in pps.reachable(b)):
                    return True
        return False
    enders = sorted(tnames[vi] for vi, t_ in ttargets.items() if leaves_ok(t_))
    if toth is not None and leaves_ok(toth):
        enders.append("<any other kind>")
    ctx.instance(1)
    ok = enders == ["Eof"]
    ctx.oblig(ok, {"token kinds that end eval's pre-pass": enders}, "Eof only")
    if not ok:
        ctx.violation("prepass-enders", sp_file_line(pps.term(tb_).get("sp")), "eval's token pre-pass stops at %s: whatever follows such a token never reaches the single-statement "
                      "check, so surplus text after it is executed instead of refused" % enders)
    ctx.finish_rule()

    ctx.rule("C15.R6", "the eval command changes the machine only by executing the instruction", floor=1)
    from .. import dbg as _dbg
    from ..effects import Effects as _Eff
    disp_, sw_bb_, arms_, sp_, selfp_ = _dbg.dispatcher(ctx)
    ctx.need("Eval" in arms_, "Eval arm of the dispatcher")
    ws_ = _Eff(prog).site_writes(disp_, sp_, _dbg.arm_region(disp_, arms_["Eval"]))
    ctx.instance(1)
    evn = "lace::debugger::eval::eval"
    other = [w for w in ws_ if w[1] != "call:" + evn]
    ok = bool(ws_) and not other
    ctx.oblig(ok, {"writes of the Eval arm": sorted({w[1] for w in ws_})}, "only through eval()")
    for b, kind, path, span in other:
        ctx.violation("eval-arm-write|%s" % (".".join(path) or "*"), sp_file_line(span),
                      "the Eval arm writes `%s` itself (%s), besides executing the instruction: the machine after `eval` is not what executing that instruction here and now yields"
                      % (".".join(path) or "*", kind))
    if not ws_:
        ctx.violation("eval-arm-no-eval", disp_.file_line(), "the Eval arm does not execute through eval()")
    ctx.finish_rule()

    ctx.rule("C15.R5", "nothing on the eval path ends the session (closed ledger of exit sites)", floor=2)
    evw = ctx.fn("lace::debugger::eval::eval")
    reach = ctx.cg.reachable([evw.name])
    exits = sorted(n for n in reach if n in prog.fns and "std::process::exit" in ctx.cg.callees(n))
    ACCEPT = {
        "lace::runtime::RunState::trap": "unknown trap vector: excluded by R1 (allowed set is a subset of the VM's dispatch set)",
        "lace::runtime::RunState::stack": "stack feature off: the lexer refuses push/pop/call/rets then (C18.R1), so opcode 0xD cannot be produced by eval",
        "lace::runtime::read_byte_stdin": "limitation (stated): end of input during `eval getc` / `eval in` ends the process like in a plain run",
        "lace::<term::Key as core::convert::TryFrom<crossterm::event::KeyEvent>>::try_from": "Ctrl+C on the interactive terminal",
    }
    for n in exits:
        ctx.instance(1)
        ok = n in ACCEPT
        ctx.oblig(ok, {"exit site": short(n), "discharged": ACCEPT.get(n)}, "reviewed ledger", assumed=(n == "lace::runtime::read_byte_stdin"))
        if not ok:
            p = ctx.cg.path(evw.name, lambda x: x == n)
            ctx.violation("exit|%s" % short(n), prog.fns[n].file_line(), "`%s` can end the process and is reachable from eval (%s)"
                          % (short(n), " -> ".join(short(x) for x in p or [])))
    # eval's caller prints the error and carries on
    errs = [b for b, t, c in evw.calls() if c == EVAL]
    if ev is evw:
        # one piece of code: the assembling part's failures end in the report on stderr
        errs = [b for b, t, c in evw.calls() if c and c.endswith("std::io::stdio::_eprint")]
        ctx.need(errs, "error report in eval")
        ok = True
    else:
        ctx.need(errs, "eval -> eval_inner")
        ok = kit.result_is_consumed(evw, errs[0])
    ctx.oblig(ok, {"eval_inner result": "inspected by eval"}, "if let Err(..) => report")
    if not ok:
        ctx.violation("eval-result-dropped", sp_file_line(evw.term(errs[0]).get("sp")), "eval drops eval_inner's error without reporting it")
    ctx.finish_rule()


def _const_true(e):
    # `cfg!(debug_assertions)` folded into a constant switch operand evaluates by itself; nothing to substitute
    return None
