"""C20 — the interactive line editor keeps its cursor inside the line."""
import re
from ..facts import callee_of, short, sp_file_line, expr_str, expr_walk, place_is_local
from .. import kit
from ..dim import Dim
from ..panics import run_ledger

EXPLANATION = (
    "R1 (DIM): byte offsets and character counts are tracked as dimensions of usize values (sources: str::len, "
    "char_indices offsets, len_utf8, find = bytes; chars().count(), enumerate over chars = characters; function results "
    "and parameters get summaries); no byte-dimension value may reach the character cursor field, a char-index parameter "
    "or a chars().nth argument. R2 (DOM): every decrement of the cursor is dominated by cursor > 0, every increment by "
    "cursor < chars().count() of the current line or directly follows an insertion at the cursor; other assignments are 0, "
    "a count, or a character-dimension helper result. R3 (PANIC): closed panic ledger of the key handler and the command "
    "splitter; sites needing 0 <= cursor <= count are conditional on R1+R2. R4: Enter returns only after the focused "
    "history line was copied into the buffer; the splitter slices at find(';') offsets. R5 (DOM): Up/Down step history.index only under "
    "a guard on it (or clamp it), and reset the cursor only under such a guard - a history key that does not change the focused entry leaves "
    "the cursor alone, as a plain editor does."
    ' R1 also checks byte-index sinks (String::insert/remove/...: the position must be a boundary-safe byte offset). R4 also: update_next returns only with the draft focused (copy and focus reset on every path). R8: clearing the edit buffer is followed by cursor := 0 on every path to the return. R2 also: the count a step is guarded by is that of the line on show - get_current(), or the buffer once update_next dominates -, not of the hidden draft. R9: no function of the editor narrows a `char` to u8/u16 (`ch as u8`) outside an is_ascii test of that character. R10: no blank line is submitted - from the blank side of the draft test no `complete` answer is reachable, and the history list is only pushed to by TerminalHistory::push (from read_line, behind the raw read, with the buffer) and by the history-file loader behind a `trim().is_empty()` test. The scope of R3 is the whole terminal reader (read, read_line, the raw read, the prompt, the history push, the splitter); lace::output and lace::term are the environment side (not entered), a failed write to the terminal is assumption A7, and the non-blank assertion of read_line is conditional on R10. R6 also: the keys that only move (Left, Right, Ctrl+Left/Right, Up, Down) never call update_next. R10 also: the condition in front of the history push, read for an empty list, comes out on the pushing side (the first line is remembered).'
    " R10 also: the routine that is handed the submitted line puts it into the in-memory list on every way to its return."
    " R2 also: a removal that follows a step to the left is reached only when the old cursor was at least 1 (a test cursor > 0, or a checked step)."
)

NOT_DECIDED = "equality with a reference editor for all key sequences; that helper results are <= the character count (value-level)"

T = "lace::debugger::command::reader::terminal::"
HK = T + "Terminal::handle_key"


def fields_of(p):
    return [e.get("n") for e in p.get("pr", []) if isinstance(e, dict) and "f" in e]


def run(ctx):
    prog = ctx.prog
    hk = ctx.fn(HK)
    # the character cursor by role: usize field of Terminal compared with chars().count()
    cands = set()
    for b in sorted(hk.live_blocks()):
        t = hk.term(b)
        if t["k"] == "switch":
            c = hk.expr(t["a"], 8, stop={"named"})
            for x in expr_walk(c):
                if x[0] == "bin" and x[1] in ("Lt", "Le", "Gt", "Ge"):
                    for side, other in ((x[2], x[3]), (x[3], x[2])):
                        if any(y[0] == "call" and y[1] and y[1].endswith("::count") for y in expr_walk(other)):
                            fs = [y[2] for y in expr_walk(side) if y[0] == "field"]
                            cands |= set(fs[-1:])
    ctx.need(len(cands) == 1, "character cursor field (compared with chars().count()) in the key handler: %s" % sorted(cands))
    cur = cands.pop()
    D = Dim(ctx, cursor_fields={cur})

    # ------------------------------------------------------------------ R1
    ctx.rule("C20.R1", "no byte-dimension value reaches the character cursor or a char-index sink", floor=8)
    for n, f in sorted(prog.fns.items()):
        if f.bkind != "fn" or not n.startswith(T):
            continue
        for b, i, s in f.assigns():
            fl = fields_of(s["p"])
            if fl and fl[-1] == cur:
                e = f.rvalue_expr(s["r"], 10, stop={"named"})
                d = D.dim(f, e)
                ctx.instance(1)
                ok = d in ("C", "K")
                ctx.oblig(ok, {"cursor :=": expr_str(e, 80), "dimension": d, "at": sp_file_line(s.get("sp"))}, "character count / constant")
                if not ok:
                    callee = [c for c in kit.expr_calls(e) if c in prog.fns]
                    ctx.violation("cursor-dim|fn=%s|%s" % (short(n), short(callee[0]).rsplit("::", 1)[-1] if callee else expr_str(e, 40)), sp_file_line(s.get("sp")),
                                  "the character cursor is assigned `%s`, whose dimension is %s (%s): with a multi-byte character on the line the cursor "
                                  "leaves [0, chars().count()] and the next edit trips a bounds assertion"
                                  % (expr_str(e, 80), d, {"B": "a byte offset/length", "MIX": "bytes mixed with characters", "U": "unclassified"}.get(d, d)))
        # sinks: char_index parameters of the edit helpers and chars().nth
        for b, t, c in f.calls():
            if c in (T + "insert_char_index", T + "remove_char_index"):
                e = f.expr(t["args"][1], 10, stop={"named"})
                d = D.dim(f, e)
                ctx.instance(1)
                ok = d in ("C", "K")
                ctx.oblig(ok, {"char index argument": expr_str(e, 60), "dimension": d}, "character count")
                if not ok:
                    ctx.violation("charindex-dim|fn=%s|%s" % (short(n), short(c).rsplit("::", 1)[-1]), sp_file_line(t.get("sp")),
                                  "`%s` is given `%s` (dimension %s) as a character index" % (short(c), expr_str(e, 60), d))
            elif c and re.search(r"alloc::string::String::(insert|remove|insert_str|truncate|split_off|drain|replace_range)$", c) and len(t["args"]) >= 2:
                # byte-index sinks: the position must be a byte offset obtained from the string itself at a character boundary
                # (len, find, char_indices offsets, sums of len_utf8) - not an index counted over raw bytes or characters
                e = f.expr(t["args"][1], 10, stop={"named"})
                d = D.dim(f, e)
                ctx.instance(1)
                ok = d in ("B", "K")
                ctx.oblig(ok, {"byte index argument": expr_str(e, 60), "of": short(c).rsplit("::", 1)[-1], "dimension": d}, "byte offset at a character boundary")
                if not ok:
                    ctx.violation("byteindex-dim|fn=%s|%s" % (short(n), short(c).rsplit("::", 1)[-1]), sp_file_line(t.get("sp")),
                                  "`%s` is given `%s`, whose dimension is %s (%s): with a multi-byte character on the line the position can fall inside a character and "
                                  "the edit panics" % (short(c), expr_str(e, 60), d, {"C": "a character count", "MIX": "bytes mixed with characters", "U": "not a boundary-safe byte offset"}.get(d, d)))
            elif c and c.endswith("Iterator::nth") and "Chars" in (t.get("arg_tys") or [""])[0]:
                e = f.expr(t["args"][1], 10, stop={"named"})
                d = D.dim(f, e)
                ctx.instance(1)
                ok = d in ("C", "K")
                ctx.oblig(ok, None)
                if not ok:
                    ctx.violation("nth-dim|fn=%s" % short(n), sp_file_line(t.get("sp")), "chars().nth(%s): the argument has dimension %s, not characters" % (expr_str(e, 60), d))
    ctx.finish_rule()

    # ------------------------------------------------------------------ R2
    ctx.rule("C20.R2", "cursor steps are guarded", floor=4)
    from ..panics import Ledger
    L0 = Ledger(ctx, [HK])
    # the edit buffer by role: the String field handed to the character-index helpers
    bufs = set()
    for bb_, t_, c_ in hk.calls():
        if c_ in (T + "insert_char_index", T + "remove_char_index"):
            fs_ = [y[2] for y in expr_walk(hk.expr(t_["args"][0], 6, stop={"named"})) if y[0] == "field"]
            bufs |= set(fs_[-1:])
    un_blocks = [b2 for b2, t2, c2 in hk.calls() if c2 == T + "Terminal::update_next"]

    def is_count(x, at=None):
        """the number of characters of the line on show: chars().count() of get_current() - or of the edit buffer once update_next
        has made the buffer the line on show -, directly or through a named temporary"""
        y = x
        while y[0] in ("ref", "deref", "cast"):
            y = y[3] if y[0] == "cast" else y[1]
        if "count(" not in expr_str(x, 200):
            if not (y[0] == "local" and "count(" in expr_str(hk.local_expr(y[1], 8), 300)):
                return False
            x = hk.local_expr(y[1], 10)
        for c_ in expr_walk(x):
            if c_[0] == "call" and str(c_[1]).endswith("::count") and len(c_[2]) == 1:
                calls_ = [str(z[1]) for z in expr_walk(c_[2][0]) if z[0] == "call"]
                if T + "Terminal::get_current" in calls_:
                    return True
                fs_ = [z[2] for z in expr_walk(c_[2][0]) if z[0] == "field"]
                if fs_ and fs_[-1] in bufs:
                    # the hidden draft: only the line on show after update_next
                    return at is not None and any(hk.dominates(ub, at) for ub in un_blocks)
                return False
        return False

    def at_least_one(cons):
        for c, v in cons:
            if c[0] == "bin" and v != 0 and cur in expr_str(c[2]) and c[3][0] == "const":
                if (c[1] == "Gt" and c[3][1] >= 0) or (c[1] == "Ge" and c[3][1] >= 1) or (c[1] == "Ne" and c[3][1] == 0):
                    return True
        return False

    def below_count(cons, op, at=None):
        return any(c[0] == "bin" and c[1] == op and v != 0 and cur in expr_str(c[2]) and is_count(c[3], at) for c, v in cons)

    for b, i, s in hk.assigns():
        fl = fields_of(s["p"])
        if not (fl and fl[-1] == cur):
            continue
        e = hk.rvalue_expr(s["r"], 10, stop={"named"})
        if e[0] in ("bin", "checked") and e[1] in ("Add", "Sub") and e[3] == ("const", 1) and cur in expr_str(e[2]):
            ctx.instance(1)
            cons = L0._dom_constraints(hk, b)
            if e[1] == "Sub":
                ok = at_least_one(cons)
                why = "dominated by cursor > 0"
            else:
                lt = below_count(cons, "Lt", b)
                ins = any(c == T + "insert_char_index" and hk.dominates(bb, b) and cur in expr_str(hk.expr(t["args"][1], 6, stop={"named"}))
                          for bb, t, c in hk.calls())
                ok = lt or ins
                why = "dominated by cursor < chars().count()" if lt else "follows an insertion at the cursor"
            ctx.oblig(ok, {"step": expr_str(e, 50), "at": sp_file_line(s.get("sp"))}, why)
            if not ok:
                ctx.violation("unguarded-step|%s" % e[1], sp_file_line(s.get("sp")),
                              "the cursor is %s without the guard that keeps it inside the line (%s)"
                              % ("decremented" if e[1] == "Sub" else "incremented", "cursor > 0" if e[1] == "Sub" else "cursor < chars().count() of the line on show - get_current(), or the buffer after update_next -, or an insertion just before"))
    # removal is guarded: remove_char_index calls are dominated by cursor < count (Delete) or by cursor > 0 && cursor <= count (Backspace, after the decrement)
    for bb, t, c in hk.calls():
        if c == T + "remove_char_index":
            ctx.instance(1)
            cons = L0._dom_constraints(hk, bb, stable=False)
            lt = below_count(cons, "Lt", bb)
            le = below_count(cons, "Le", bb)
            dec = any(fields_of(s["p"])[-1:] == [cur] and hk.dominates(b2, bb) and hk.rvalue_expr(s["r"], 6, stop={"named"})[1:2] == ("Sub",)
                      for b2, i2, s in hk.assigns())
            ok = lt or (le and dec)
            # a removal behind a step to the left (Backspace) takes the character in front of the old cursor: there is one only when the old
            # cursor was at least 1. A clamped step (`saturating_sub(1)`) without that test removes the first character at cursor 0.
            def steps_left(s_):
                e_ = kit.strip_refs(hk.rvalue_expr(s_["r"], 10, stop={"named"}))
                if e_[0] in ("bin", "checked") and e_[1] == "Sub":
                    return "plain"
                if e_[0] == "call" and re.search(r"<impl usize>::(saturating|wrapping)_sub$", str(e_[1])):
                    return "clamped"
                f_ = kit.strip_refs(hk.rvalue_expr(s_["r"], 12))
                if f_[0] == "field" and str(f_[2]) == "0" and f_[1][0] == "downcast" and f_[1][2] == "Some" and \
                        kit.strip_refs(f_[1][1])[0] == "call" and str(kit.strip_refs(f_[1][1])[1]).endswith("<impl usize>::checked_sub"):
                    return "checked"
                return None
            lefts = [(b2, s_, steps_left(s_)) for b2, i2, s_ in hk.assigns() if fields_of(s_["p"])[-1:] == [cur] and hk.dominates(b2, bb) and steps_left(s_)]
            if ok and lefts:
                ok = all(kind_ == "checked" or at_least_one(L0._dom_constraints(hk, b2)) for b2, s_, kind_ in lefts)
                if not ok:
                    ctx.oblig(False, {"removal behind a step to the left": sp_file_line(t.get("sp"))}, "old cursor >= 1")
                    ctx.violation("remove-at-line-start", sp_file_line(t.get("sp")), "a character is removed behind a step to the left that is not guarded by cursor > 0 "
                                  "(a clamped step): at the start of the line the key removes the first character instead of doing nothing, and the line that is "
                                  "submitted is not the line a plain editor holds")
                    ok = True          # reported under its own key
            ctx.oblig(ok, {"removal": "guarded", "at": sp_file_line(t.get("sp"))}, "cursor < count, or (cursor <= count and decremented first)")
            if not ok:
                ctx.violation("unguarded-remove", sp_file_line(t.get("sp")), "a character is removed at the cursor without the guard cursor < chars().count()")
            # the guard talks about the current line and the removal about the buffer: update_next must come first
            un = [b2 for b2, t2, c2 in hk.calls() if c2 == T + "Terminal::update_next" and hk.dominates(b2, bb)]
            ctx.oblig(bool(un), None)
            if not un:
                ctx.violation("edit-without-update_next", sp_file_line(t.get("sp")), "the buffer is edited without first copying the focused history line into it")
    for bb, t, c in hk.calls():
        if c == T + "insert_char_index":
            un = [b2 for b2, t2, c2 in hk.calls() if c2 == T + "Terminal::update_next" and hk.dominates(b2, bb)]
            ctx.oblig(bool(un), {"insertion": "after update_next"}, "dominance")
            if not un:
                ctx.violation("edit-without-update_next|insert", sp_file_line(t.get("sp")), "a character is inserted without first copying the focused history line into the buffer")
    ctx.finish_rule()

    # ------------------------------------------------------------------ R3
    # scope: everything the terminal reader runs between being asked for a command and handing one back (read -> read_line -> raw read ->
    # prompt, key handler, history push; the splitter). The output layer and the raw-mode wrapper (lace::output, lace::term) are the
    # environment's side and are not entered; a failed write to the terminal is assumption A7
    READ = "lace::<debugger::command::reader::terminal::Terminal as debugger::command::reader::Read>::read"
    ctx.fn(READ)
    env_side = sorted(n for n in prog.fns if n.startswith("lace::output::") or n.startswith("lace::term::") or n.startswith("lace::<output::"))
    def io_result(st):
        tys = st.fn.term(st.bb).get("arg_tys") or [""]
        return st.kind == "unwrap" and "std::io::error::Error" in tys[0]
    run_ledger(ctx, "C20.R3", "closed panic ledger of the terminal reader: prompt, key handler, history, command splitter",
               [HK, T + "Terminal::get_next_command", READ], stop=env_side, floor=20, only=(lambda st: st.fn.name not in set(env_side) and not any(st.fn.name.startswith(e_ + "::") for e_ in env_side)),
               conditional=[(lambda st: st.fn.name.startswith(T) and io_result(st), "A7",
                             "assumption A7: the terminal (stderr) and the history file accept output; a failed write is an environment fault, not a key sequence"),
                            (lambda st: st.fn.name.startswith(T + "Terminal::read_line") and st.kind.startswith("panic:") and "non-empty" in st.desc, "C20.R10",
                             "a finished raw read leaves a non-blank buffer: blank drafts are refused and no blank line is ever in the history (C20.R10)")])

    # ------------------------------------------------------------------ R4
    ctx.rule("C20.R4", "submission and splitting", floor=2)
    # Enter returns true only after update_next
    # the "line is complete" answer of the key handler: `true`, or ControlFlow::Break(..) where the handler answers with a ControlFlow
    trues = [b for b, i, s in hk.assigns() if s["p"]["l"] == 0 and place_is_local(s["p"])
             and (hk.rvalue_expr(s["r"], 2) == ("const", 1) or (s["r"]["k"] == "agg" and s["r"].get("variant") == "Break" and str(s["r"].get("adt", "")).endswith("ControlFlow")))]
    ctx.need(trues, "`return true` in the key handler")
    for b in trues:
        ctx.instance(1)
        ok = any(c == T + "Terminal::update_next" and hk.dominates(bb, b) for bb, t, c in hk.calls())
        ctx.oblig(ok, {"Enter": "update_next before returning true"}, "dominance")
        if not ok:
            ctx.violation("enter-without-update_next", sp_file_line(hk.stmts(b)[0].get("sp")), "Enter can submit without copying the focused history line into the buffer: a stale line would be executed")
    # update_next itself: it returns either because the draft already has the focus, or after it has copied the focused history line into
    # the draft *and* moved the focus back to the draft - on every path (the edit that follows writes the draft and must be seen)
    un = ctx.fn(T + "Terminal::update_next")
    isn = [(b, t) for b, t, c in un.calls() if c == T + "Terminal::is_next"]
    early = set()
    for b, t in isn:
        tt = un.term(t["t"]) if t.get("t") is not None else None
        if tt and tt["k"] == "switch":
            tg = {v: x for v, x in tt["targets"]}
            early.add(tt["otherwise"] if 0 in tg else tg.get(1))
    idx_w = {b for b, i, s_ in un.assigns() if [e.get("n") for e in s_["p"].get("pr", []) if isinstance(e, dict) and "f" in e][-1:] == ["index"]}
    buf_w = {b for b, i, s_ in un.assigns() if [e.get("n") for e in s_["p"].get("pr", []) if isinstance(e, dict) and "f" in e][-1:] == ["buffer"]} | \
            {b for b, t, c in un.calls() if c and (c.endswith("clone_from") or c.endswith("String::push_str") or c.endswith("clone_into")) and "buffer" in expr_str(un.expr(t["args"][0], 6), 120)}
    rets_un = {b for b in un.live_blocks() if un.term(b)["k"] == "return"}
    ctx.instance(1)
    ok = bool(idx_w) and bool(buf_w) and not (un.reachable(0, avoid=idx_w | {x for x in early if x is not None}) & rets_un) \
        and not (un.reachable(0, avoid=buf_w | {x for x in early if x is not None}) & rets_un)
    ctx.oblig(ok, {"update_next": "draft focused already, or (copy + focus back) on every path", "focus writes": len(idx_w), "draft writes": len(buf_w)}, "must-pass-through")
    if not ok:
        ctx.violation("update_next-partial", un.file_line(), "update_next can return with a history line still focused without having copied it into the draft and moved the "
                      "focus back: the following edit changes the hidden draft while the history line stays on screen, and the cursor leaves the shown line")
    gn = ctx.fn(T + "Terminal::get_next_command")
    # the cut is where the first ';' is: str::find(';'), or split_once(';'), which cuts there itself
    finds = [b for b, t, c in gn.calls() if c and re.search(r"str>::(find|split_once)$", c)]
    ctx.instance(1)
    ok = len(finds) == 1 and gn.term(finds[0])["args"][1].get("int") == ord(";")
    ctx.oblig(ok, {"splitter": "find(';')"}, "call argument")
    if not ok:
        ctx.violation("splitter-delim", gn.file_line(), "the terminal reader does not split the submitted line at ';'")
    ctx.finish_rule()

    # ------------------------------------------------------------------ R7
    ctx.rule("C20.R7", "word motions classify every character with the same predicates, forwards and backwards", floor=2)
    cls_used = {}
    for nm_ in ("find_word_next", "find_word_back"):
        f_ = ctx.fn(T + nm_)
        cls_used[nm_] = sorted({short(c).rsplit("::", 1)[-1] for b, t, c in f_.calls() if c and re.search(r"<impl char>::is_\w+$", c)})
    for nm_, got in sorted(cls_used.items()):
        ctx.instance(1)
        ok = got == ["is_alphanumeric", "is_whitespace"]
        ctx.oblig(ok, {nm_: got}, "word class = is_alphanumeric, gap class = is_whitespace")
        if not ok:
            ctx.violation("word-class|%s" % nm_, ctx.fn(T + nm_).file_line(), "`%s` classifies characters with %s; the first character of a motion and the characters it scans must be "
                          "judged by the same predicates (is_alphanumeric / is_whitespace, as in the other direction), otherwise a motion starting on a digit stops in the middle of a word" % (nm_, got))
    ctx.finish_rule()

    # ------------------------------------------------------------------ R6
    ctx.rule("C20.R6", "editing keys adopt the focused history line whether or not they change it", floor=2)
    KEY = "lace::term::Key"
    knames = {v["idx"]: v["name"] for v in prog.adt(KEY)["variants"]}
    ksw = list(kit.discr_switches(hk, KEY))
    ctx.need(ksw, "match on Key in the key handler")
    kb, kplace, ktargets, koth = max(ksw, key=lambda x: len(x[2]))
    un_blocks = {b for b, t, c in hk.calls() if c == T + "Terminal::update_next"}
    for vi, tb in sorted(ktargets.items()):
        if knames.get(vi) not in ("Backspace", "Delete"):
            continue
        reg = kit.dominated_region(hk, tb)
        sm = hk.succ_map()
        leaving = {b for b in reg if any(x not in reg for x in sm[b]) or hk.term(b)["k"] == "return"}
        skip = (hk.reachable(tb, avoid=un_blocks) & leaving) - un_blocks
        ctx.instance(1)
        ctx.oblig(not skip, {knames[vi]: "update_next on every path"}, "must-pass-through")
        if skip:
            ctx.violation("edit-key-no-adopt|%s" % knames[vi], sp_file_line(hk.term(tb).get("sp")),
                          "%s can finish without update_next() (lines %s): a plain editor treats the recalled history line as the line being edited as soon as an editing key "
                          "is pressed, even if nothing is removed; here the old draft stays in place and later Up/Down/Enter act on another text"
                          % (knames[vi], hk.path_lines(hk.path(tb, skip, avoid=un_blocks))))
    # ... and the keys that only move (Left, Right, Ctrl+Left/Right, Up, Down) leave the focus where it is: adopting the history line on a mere
    # cursor movement makes the next Up/Down start from the draft instead of from the recalled entry
    NAV = {"Left", "Right", "CtrlLeft", "CtrlRight", "Up", "Down"}
    for vi in sorted(ktargets):
        if knames.get(vi) not in NAV:
            continue
        ctx.instance(1)
        reg_ = kit.dominated_region(hk, ktargets[vi])
        hit_ = [b for b in un_blocks if b in reg_]
        ctx.oblig(not hit_, {"key": knames[vi], "update_next": "not called"}, "arm region scan")
        if hit_:
            ctx.violation("navigation-adopts|%s" % knames[vi], sp_file_line(hk.term(hit_[0]).get("sp")),
                          "the %s key calls update_next: a key that only moves the cursor or the focus turns the recalled history line into the draft, and the next "
                          "history key starts from the wrong entry" % knames[vi])
    ctx.finish_rule()

    # ------------------------------------------------------------------ R8
    # emptying the line puts the cursor at 0: wherever the editor clears its buffer, the cursor is reset before the function hands control back
    # (a blank line submitted with the cursor behind its spaces would otherwise leave "cursor 3 of 0 characters" for the next key)
    ctx.rule("C20.R8", "clearing the edit buffer resets the cursor", floor=1)
    nclear = 0
    for n, f in sorted(prog.fns.items()):
        if f.bkind != "fn" or not n.startswith(T):
            continue
        resets = {b for b, i, s_ in f.assigns() if fields_of(s_["p"])[-1:] == [cur] and s_["r"]["k"] == "use" and s_["r"]["a"].get("int") == 0}
        rets_f = {b for b in f.live_blocks() if f.term(b)["k"] == "return"}
        for b, t, c in f.calls():
            if not (c and c.endswith("alloc::string::String::clear") and "buffer" in expr_str(f.expr(t["args"][0], 6), 120)):
                continue
            nclear += 1
            ctx.instance(1)
            nxt = t.get("t")
            esc = sorted(f.reachable(nxt, avoid=resets) & rets_f) if nxt is not None else []
            ok = not esc
            ctx.oblig(ok, {"clear in": short(n), "at": sp_file_line(t.get("sp"))}, "cursor := 0 on every path to the return")
            if not ok:
                ctx.violation("clear-without-cursor-reset|%s" % short(n), sp_file_line(t.get("sp")),
                              "`%s` empties the edit buffer and can return without putting the cursor back to 0 (lines %s): the cursor then lies behind the end of "
                              "the empty line and the next printable key trips the bounds assertion" % (short(n), f.path_lines(f.path(nxt, set(esc), avoid=resets) or [])))
    ctx.need(nclear >= 1, "buffer.clear() in the line editor")
    ctx.finish_rule()

    # ------------------------------------------------------------------ R5
    ctx.rule("C20.R5", "history keys move the cursor only when they change the focused entry", floor=2)
    hist_writes = [(b, s) for b, i, s in hk.assigns() if fields_of(s["p"])[-2:] == ["history", "index"]]
    ctx.need(len(hist_writes) >= 2, "writes of history.index in the key handler (Up and Down)")
    dom = hk.dominators()
    def index_guards(bb):
        """conditions of dominating branches (with a unique edge towards bb) that mention history.index"""
        out = []
        for c, v in L0._dom_constraints(hk, bb, stable=False):
            if "history.index" in expr_str(c, 400):
                out.append((c, v))
        return out
    for b, s in hist_writes:
        e = hk.rvalue_expr(s["r"], 10, stop={"named"})
        ctx.instance(1)
        step = e[0] in ("bin", "checked") and e[1] in ("Add", "Sub") and e[3] == ("const", 1) and "history.index" in expr_str(e[2])
        clamp = e[0] == "call" and any(str(e[1]).endswith(x) for x in ("saturating_sub", "saturating_add", "::min", "::max"))
        g = index_guards(b)
        # `if let Some(p) = history.index.checked_sub(1) { history.index = p }`: the checked step is its own guard
        full = kit.strip_refs(hk.rvalue_expr(s["r"], 12))
        if full[0] == "field" and str(full[2]) == "0" and full[1][0] == "downcast" and full[1][2] == "Some":
            cs = kit.strip_refs(full[1][1])
            if cs[0] == "call" and re.search(r"<impl usize>::checked_(sub|add)$", str(cs[1])) and len(cs[2]) == 2 and cs[2][1] == ("const", 1) \
                    and "history.index" in expr_str(cs[2][0], 200):
                clamp = True
        ok = (step and bool(g)) or clamp
        ctx.oblig(ok, {"history.index :=": expr_str(e, 60), "guards": [expr_str(c, 60) for c, v in g]}, "step guarded by a comparison on history.index (or clamped)")
        if not ok:
            ctx.violation("history-step|%s" % (e[1] if step else "other"), sp_file_line(s.get("sp")),
                          "history.index is assigned `%s` without a guard on history.index: the focus leaves [0, list.len()]" % expr_str(e, 60))
    # cursor resets in the history arms: only under a guard on history.index (i.e. when the entry really changes)
    arms_with_hist = {}
    for sb, place, targets, oth in kit.discr_switches(hk, "lace::term::Key"):
        for vi, tb in targets.items():
            reg = kit.dominated_region(hk, tb)
            if any(b in reg for b, s in hist_writes):
                arms_with_hist[vi] = reg
    ctx.need(len(arms_with_hist) >= 2, "Key arms that write history.index (found %d)" % len(arms_with_hist))
    for vi, reg in sorted(arms_with_hist.items()):
        for b, i, s in hk.assigns():
            if b in reg and fields_of(s["p"])[-1:] == [cur]:
                ctx.instance(1)
                g = index_guards(b)
                ok = bool(g)
                ctx.oblig(ok, {"cursor reset at": sp_file_line(s.get("sp")), "under": [expr_str(c, 60) for c, v in g]}, "control-dependent on a comparison on history.index")
                ev_ = expr_str(hk.rvalue_expr(s["r"], 12), 300)
                ok2 = "get_current(" in ev_ and "count(" in ev_
                ctx.oblig(ok2, {"cursor :=": ev_[:80]}, "length of the line now shown (get_current), not of the draft")
                if not ok2:
                    ctx.violation("history-cursor-line", sp_file_line(s.get("sp")),
                                  "after a history key the cursor is set to `%s`; it must be the character count of the line now shown (get_current()): "
                                  "with a draft of another length the cursor is off the end of, or in the middle of, the recalled line" % ev_[:100])
                if not ok:
                    ctx.violation("history-cursor-unconditional", sp_file_line(s.get("sp")),
                                  "a history key moves the cursor even when the focused entry does not change (no guard on history.index): "
                                  "pressing Up at the oldest entry jumps the cursor to the end of the line, and the next edit lands there")
    ctx.finish_rule()


    # ------------------------------------------------------------------ R9
    # a typed character is judged and stored as a `char`: narrowing it to a byte (`ch as u8`) keeps only the low bits of the code point, so a
    # multi-byte character is then taken for whatever ASCII character shares them (U+1F600 for NUL, U+2014 for DC4) - unless the narrowing sits
    # under an is_ascii test of that character
    ctx.rule("C20.R9", "characters are not narrowed to bytes in the line editor", floor=1)
    ncast = 0
    for n, f in sorted(prog.fns.items()):
        if not n.startswith(T):
            continue
        ctx.instance(1)
        for b, i, s in f.assigns():
            r = s["r"]
            if r["k"] == "cast" and r.get("from") == "char" and r.get("ty") in ("u8", "i8", "u16", "i16"):
                ncast += 1
                src = f.expr(r["a"], 4, stop={"named"})
                guarded = False
                for c, v in L0._dom_constraints(f, b):
                    if v not in (0, ("not", [1])) and c[0] == "call" and re.search(r"char::methods::<impl char>::is_ascii\w*$", str(c[1])) and any(kit.strip_refs(a) == kit.strip_refs(src) for a in c[2]):
                        guarded = True
                ctx.oblig(guarded, {"narrowing of a char in": short(n), "at": sp_file_line(s.get("sp"))}, "under is_ascii of the same character")
                if not guarded:
                    ctx.violation("char-narrowed|%s|%s" % (short(n), r.get("ty")), sp_file_line(s.get("sp")),
                                  "`%s` narrows a typed character to %s (`%s as %s`) without an is_ascii test: only the low bits of the code point survive, so a "
                                  "multi-byte character is taken for an unrelated ASCII one" % (short(n), r.get("ty"), expr_str(src, 40), r.get("ty")))
    ctx.finish_rule()

    # ------------------------------------------------------------------ R10
    # a finished read never hands on a blank line (read_line asserts it): the key handler answers "complete" only for a line that is not
    # blank - a draft is tested on the spot, a focused history entry is non-blank because nothing blank ever enters the history list:
    # (a) from the blank side of the draft test no "complete" answer is reachable; (b) the list is only pushed to by TerminalHistory::push,
    # called from read_line behind the raw read with the buffer itself, and by the loader of the history file, which must skip blank lines
    ctx.rule("C20.R10", "no blank line is ever submitted: blank drafts are refused, blank lines never enter the history", floor=3)
    blank_tests = []
    for bb_, t_, c_ in hk.calls():
        if c_ and c_.endswith("str>::is_empty") and t_.get("t") is not None:
            e_ = expr_str(hk.expr(t_["args"][0], 8), 200)
            if "trim" in e_ and any(bf in e_ for bf in bufs):
                sw_ = hk.term(t_["t"])
                if sw_["k"] == "switch":
                    tg_ = {v: x for v, x in sw_["targets"]}
                    blank_tests.append((bb_, sw_["otherwise"] if 0 in tg_ else tg_.get(1)))
    ctx.instance(1)
    ok = bool(blank_tests) and all(bt is not None and not (set(trues) & hk.reachable(bt)) for bb_, bt in blank_tests)
    ctx.oblig(ok, {"blank draft": "no `complete` answer behind the blank side of the test", "tests": len(blank_tests)}, "reachability")
    if not ok:
        ctx.violation("blank-draft-submitted", hk.file_line(), "the key handler can answer `line complete` for a draft that is blank (no test of `buffer.trim().is_empty()` "
                      "keeps Enter from submitting it): read_line's assertion fails and an empty command is executed")
    HIST = T + "TerminalHistory::"
    pushers = []
    for n, f in sorted(prog.fns.items()):
        if not n.startswith(T) or f.bkind != "fn":
            continue
        for bb_, t_, c_ in f.calls():
            if c_ and c_.endswith("Vec::<T, A>::push") and "Vec<alloc::string::String>" in (t_.get("arg_tys") or [""])[0]:
                pushers.append((n, f, bb_, t_))
    # the submitted line is remembered unless it repeats the newest entry - in particular the very first line of an empty history is: the
    # condition in front of the push is read for the case `list.last() == None` and must come out on the pushing side
    rlf = ctx.fn(T + "Terminal::read_line")
    hp = [b for b, t, c in rlf.calls() if c == HIST + "push"]
    ctx.instance(1)
    def none_case(c):
        c = kit.strip_refs(c)
        if c[0] == "un" and c[1] == "Not":
            v = none_case(c[2])
            return None if v is None else 1 - v
        if c[0] == "call":
            nm = str(c[1])
            about_last = any(x[0] == "call" and re.search(r"(\[T\]>|Vec::<T, A>|VecDeque<.*>)::last$|::back$", str(x[1])) for x in expr_walk(c))
            if not about_last:
                return None
            if nm.endswith("Option::<T>::is_none_or") or nm.endswith("Option::<T>::is_none"):
                return 1
            if nm.endswith("Option::<T>::is_some_and") or nm.endswith("Option::<T>::is_some"):
                return 0
            if re.search(r"PartialEq(<.*>)?>?::ne$", nm):
                return 1
            if re.search(r"PartialEq(<.*>)?>?::eq$", nm):
                return 0
            if nm.endswith("Option::<T>::map_or") and len(c[2]) == 3 and kit.strip_refs(c[2][1])[0] == "const":
                return 1 if kit.strip_refs(c[2][1])[1] else 0
        return None
    ok_first, why_first = False, "no condition on the newest history entry in front of the push"
    for pb in hp:
        for d_ in sorted(rlf.dominators().get(pb, ())):
            tt_ = rlf.term(d_)
            if d_ == pb or tt_["k"] != "switch":
                continue
            v_ = none_case(rlf.expr(tt_["a"], 10))
            if v_ is None:
                continue
            tg_ = {v: x for v, x in tt_["targets"]}
            tgt_ = tg_.get(v_, tt_["otherwise"])
            if tgt_ == pb or pb in rlf.reachable(tgt_):
                ok_first = True
            else:
                why_first = "with an empty history the test in front of the push comes out on the side that does not push"
    if hp and not any(rlf.term(d_)["k"] == "switch" and none_case(rlf.expr(rlf.term(d_)["a"], 10)) is not None for pb in hp for d_ in rlf.dominators().get(pb, ()) if d_ != pb):
        ok_first = bool(hp)          # the push is unconditional (or its condition does not consult the list): the first line is remembered
    ctx.oblig(ok_first, {"first line of an empty history": "remembered"}, "condition read for last() == None")
    if not ok_first:
        ctx.violation("first-line-not-remembered", rlf.file_line(), "read_line does not remember the line submitted on an empty history (%s): Up then recalls nothing, "
                      "and the history file stays empty for good" % why_first)
    ctx.need(len(pushers) >= 2, "pushes into a list of history lines (found %d)" % len(pushers))
    for n, f, bb_, t_ in pushers:
        ctx.instance(1)
        val = kit.strip_refs(f.expr(t_["args"][1], 6, stop={"named"}))
        why = None
        if val[0] == "arg":
            # the line comes from the caller: only read_line may call, behind the raw read, with the edit buffer itself
            for cn in sorted(ctx.cg.callers(n)):
                g = prog.fns.get(cn)
                if g is None:
                    continue
                for b2, t2, c2 in g.calls():
                    if c2 != n:
                        continue
                    a_ = expr_str(g.expr(t2["args"][val[1] - 1], 8), 200)
                    # ... the raw read, or - where it was written into its caller - the key loop itself (it is left only when the handler says complete)
                    raw = [b3 for b3, t3, c3 in g.calls() if c3 in (T + "Terminal::read_line_raw", HK) and g.dominates(b3, b2)]
                    if not (any(bf in a_ for bf in bufs) and raw):
                        why = "`%s` pushes `%s` into the history without it being the buffer a finished raw read left behind" % (short(cn), a_[:60])
        else:
            # a line read from somewhere else (the history file): it must have been tested for blankness
            cons = L0._dom_constraints(f, bb_, stable=False)
            okc = any(v == 0 and c[0] == "call" and str(c[1]).endswith("str>::is_empty") and "trim" in expr_str(c, 200) for c, v in cons) or \
                  any(v != 0 and c[0] == "un" and c[1] == "Not" and "is_empty" in expr_str(c, 200) and "trim" in expr_str(c, 200) for c, v in cons)
            if not okc:
                why = "`%s` stores a line in the history list without testing that it is not blank" % short(n)
        if why is None and val[0] == "arg":
            # ... and the routine that is handed the submitted line remembers it whatever else it does with it (the history file may be
            # missing or unwritable): no way from its entry to a return goes round the push into the list
            rets_ = {b3 for b3 in f.live_blocks() if f.term(b3)["k"] == "return"}
            if f.reachable(0, avoid={bb_}) & rets_:
                why = "`%s` can return without having put the line it was handed into the list (the in-memory history then depends on the history file being writable)" % short(n)
        ctx.oblig(why is None, {"history push in": short(n), "at": sp_file_line(t_.get("sp"))}, "buffer of a finished read, or tested non-blank")
        if why:
            ctx.violation(("history-push-skipped|%s" if "can return without" in why else "blank-history-line|%s") % short(n), sp_file_line(t_.get("sp")),
                          ("%s: Up and Down then recall nothing or an older line, and the line on screen is no longer the line that is edited and submitted" if "can return without" in why else "%s: with a blank line in the history (an edited or damaged history file), Up then Enter submits it - read_line's `should have read "
                          "characters until non-empty` assertion panics in a debug build and an empty command is run otherwise") % why)
    ctx.finish_rule()
