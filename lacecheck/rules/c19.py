"""C19 — assembling is a pure function of the source text."""
from ..facts import callee_of, short, sp_file_line, expr_str
from .. import kit
from ..glob import Globals
from ..stages import STAGES

EXPLANATION = (
    "R1 (GLOB): inventory of all process-global state (thread-local keys, statics); W = globals that code reachable from "
    "the four assembler stages may write, R = globals that code reachable from reset_state clears; required W is a subset "
    "of R, and the feature flag is written by features::init only. R2: reset_state clears the whole symbol map on every "
    "path. R3: no static item with interior mutability exists in the library besides the thread-local keys. R4: in the "
    "watch handler reset_state is on every path from the assemble call to the handler's return (Ok and Err alike), and the "
    "reclaimed source is not used afterwards. R5: StaticSource has no Clone/Copy impl (type-checked fact; the documented "
    "guard against a double free)."
    ' R2 accepts HashMap::clear passed by name as the reset callback.'
)
NOT_DECIDED = "nothing of substance; hidden state inside dependencies (miette/fxhash) is outside the analysed crates"

RESET = "lace::symbol::reset_state"


def run(ctx):
    prog = ctx.prog
    g = Globals(ctx)
    cg = ctx.cg

    ctx.rule("C19.R1", "every global written while assembling is cleared by reset_state", floor=5)
    stage_reach = cg.reachable(list(STAGES))
    reset_reach = cg.reachable([RESET])
    ctx.fn(RESET)
    W, R = set(), set()
    inv = []
    for k in g.keys:
        ctx.instance(1)
        ws = sorted(g.writers[k])
        w_stage = [w for w in ws if w in stage_reach or any(cl in stage_reach for (c, cl) in g.write_sites[k] if c == w)]
        w_reset = [w for w in ws if w in reset_reach]
        if w_stage:
            W.add(k)
        if w_reset:
            R.add(k)
        inv.append({"key": short(k), "writers": [short(w) for w in ws], "written_while_assembling": bool(w_stage), "cleared_by_reset": bool(w_reset)})
    for row in inv[:6]:
        ctx.cur.samples.append(row)
    for k in sorted(W):
        ok = k in R
        ctx.oblig(ok, None)
        if not ok:
            ws = sorted(w for w in g.writers[k] if w in stage_reach)
            ctx.violation("not-reset|%s" % short(k), prog.fns[k].file_line(),
                          "global `%s` is written while assembling (by %s) but reset_state does not clear it: the next assembly in "
                          "the same process (every re-check of `lace watch`) sees stale state" % (short(k), [short(w) for w in ws]))
    ctx.oblig(bool(W), {"W": sorted(short(k) for k in W), "R": sorted(short(k) for k in R)}, "W subset of R, W non-empty (the symbol table)")
    if not W:
        ctx.violation("no-assembler-global", "-", "no global is seen to be written while assembling — the symbol table anchor is lost")
    # the feature flag: written by init only
    fk = [k for k in g.keys if k.endswith("features::FEATURES")]
    ctx.need(fk, "FEATURES thread-local key")
    fw = sorted(g.writers[fk[0]])
    ok = fw == ["lace::features::init"]
    ctx.oblig(ok, {"writers of the feature flag": [short(x) for x in fw]}, "init only")
    if not ok:
        ctx.violation("flag-writers", prog.fns[fk[0]].file_line(), "the feature flag is written by %s (expected features::init only)" % [short(x) for x in fw])
    ctx.finish_rule()

    ctx.rule("C19.R2", "reset_state clears the whole symbol table unconditionally", floor=1)
    rf = ctx.fn(RESET)
    cls = [x for b, t, c in rf.calls() for x in t["f"].get("closures", [])]
    cls = [x[3:] if x.startswith("fn:") else x for x in cls]
    direct_clear = len(cls) == 1 and cls[0].endswith("HashMap::<K, V, S, A>::clear")      # `with_symbol_table(SymbolTable::clear)`: the method itself is the callback
    ctx.need(len(cls) == 1 and (cls[0] in prog.fns or direct_clear), "the closure (or HashMap::clear itself) reset_state passes to the symbol-table accessor")
    # the accessor call is on every path of reset_state
    acc_blocks = [b for b, t, c in rf.calls() if t["f"].get("closures")]
    ok = rf.must_pass(0, rf.exits(), acc_blocks)
    ctx.instance(1)
    ctx.oblig(ok, {"reset_state": "accessor call on every path"}, "must-pass")
    if not ok:
        ctx.violation("reset-conditional", rf.file_line(), "reset_state can return without touching the symbol table")
    if direct_clear:
        ctx.oblig(True, {"callback": "HashMap::clear itself"}, "the whole table, unconditionally")
    else:
        cf = prog.fns[cls[0]]
        clears = [b for b, t, c in cf.calls() if c and c.endswith("HashMap::<K, V, S, A>::clear")]
        ok = bool(clears) and cf.must_pass(0, cf.exits(), clears)
        ctx.oblig(ok, {"closure": "HashMap::clear on every path"}, "must-pass")
        if not ok:
            ctx.violation("reset-partial", cf.file_line(), "reset_state's closure does not call HashMap::clear on every path: stale labels can survive")
        if clears:
            e = expr_str(cf.expr(cf.term(clears[0])["args"][0], 4))
            ok = e in ("sym", "&*sym", "*sym") or "sym" in e
            ctx.oblig(ok, {"cleared object": e}, "the table itself")
    ctx.finish_rule()

    ctx.rule("C19.R3", "no other mutable global state in the library", floor=1)
    ctx.instance(1, {"thread_local keys": [short(k) for k in g.keys], "other statics": [short(s) for s in g.statics]})
    lib_statics = [s for s in g.statics if s.startswith("lace::")]
    ctx.oblig(not lib_statics, None)
    for s in lib_statics:
        ctx.violation("static|%s" % short(s), prog.fns[s].file_line(), "static item `%s` (%s) is process-global state outside the reset protocol"
                      % (short(s), prog.fns[s].d.get("const_ty")))
    # thread-local keys written on the assemble path were handled in R1; keys only *read* there must be constant after init
    for k in g.keys:
        rs = [r for r in g.readers[k] if r in stage_reach]
        if rs and k not in W:
            ok = k.endswith("features::FEATURES") or k.endswith("IS_MINIMAL") or k.endswith("IS_LINE_START")
            ctx.oblig(ok, {"read while assembling": short(k)}, "constant after start-up / output bookkeeping")
            if not ok:
                ctx.violation("reads-global|%s" % short(k), prog.fns[k].file_line(), "assembling reads global `%s`, which is not part of the reviewed set" % short(k))
    ctx.finish_rule()

    ctx.rule("C19.R4", "watch resets the state on every path after assembling", floor=1)
    # functions of the bin crate from which a validation stage is reachable ("assembling" calls), and those that reset on
    # *every* path to their return ("always resets": a helper wrapping reset_state counts, one that resets only on success does not)
    stage_reach = {n for n in prog.fns if n.startswith("bin::") and prog.fns[n].bkind == "fn" and (ctx.cg.reachable([n]) & set(STAGES))}
    always_resets = {RESET}
    changed = True
    while changed:
        changed = False
        for n, g in prog.fns.items():
            if n in always_resets or g.bkind != "fn" or g.defkind == "Closure" or not n.startswith("bin::"):
                continue
            rb_ = [b for b, t, c in g.calls() if c in always_resets]
            if rb_ and not (g.reachable(0, avoid=set(rb_)) & set(g.exits())):
                always_resets.add(n)
                changed = True
    def is_asm_call(c):
        return c is not None and (c in STAGES or c in stage_reach)
    handlers = []
    for n, f in prog.fns.items():
        if f.defkind == "Closure" and n.startswith("bin::") and any(is_asm_call(c) for b, t, c in f.calls()) \
                and ("lace::parser::AsmParser::new" in ctx.cg.reachable([n])):
            handlers.append(f)
    ctx.need(handlers, "watch handler closure calling the assembler")
    for f in handlers:
        ctx.analysed_fns.add(f.name)
        asm_b = [b for b, t, c in f.calls() if is_asm_call(c)]
        rst = [b for b, t, c in f.calls() if c in always_resets]
        for ab in asm_b:
            ctx.instance(1)
            # the assembling callee may itself reset on every path
            ok = callee_of(f.term(ab)) in always_resets or (bool(rst) and f.must_pass(ab, f.exits(), rst))
            if not ok and rst:
                # the other discipline: the state is cleaned right before every assembly of the handler (the first assembly of the process starts
                # from fresh thread-locals anyway) - every path from the handler's entry to the assembling call passes reset_state, and nothing
                # that touches the assembler runs between the reset and that call
                before = not (ab in f.reachable(0, avoid=set(rst))) and ab not in rst
                between_clean = True
                for rb in rst:
                    mid = (f.reachable(rb, avoid={ab}) - {rb}) & {x for x in f.live_blocks() if ab in f.reachable(x)}
                    if any(is_asm_call(c2) for b2, t2, c2 in f.calls() if b2 in mid):
                        between_clean = False
                ok = before and between_clean
            ctx.oblig(ok, {"handler": short(f.name), "reset on every path after assemble": ok}, "must-pass")
            if not ok:
                p = f.path(ab, set(f.exits()), avoid=set(rst))
                ctx.violation("watch-no-reset", sp_file_line(f.term(ab).get("sp")),
                              "the watch handler can return after assembling (`%s`) without reset_state having run on that path (path lines %s): the next "
                              "re-check would trip over the previous run's labels" % (short(callee_of(f.term(ab)) or "?"), f.path_lines(p)))
        # the reclaimed source is not used afterwards
        rec = [b for b, t, c in f.calls() if c and c.endswith("StaticSource::reclaim")]
        for rb in rec:
            after = f.reachable(rb) - {rb}
            uses = [b for b, t, c in f.calls() if b in after and c and (c.endswith("StaticSource::src") or is_asm_call(c))]
            ctx.oblig(not uses, {"after reclaim": "source not used"}, "no src()/assemble call reachable")
            if uses:
                ctx.violation("use-after-reclaim", sp_file_line(f.term(uses[0]).get("sp")), "the watch handler uses the source text after reclaiming it")
            ok = all(f.dominates(x, rb) for x in rst) if rst else False
            ctx.oblig(ok, None)
    ctx.finish_rule()

    ctx.rule("C19.R5", "StaticSource cannot be cloned or copied", floor=1)
    bad = [i for i in prog.impls if i.get("self_ty") == "symbol::StaticSource" and i.get("trait") in ("core::clone::Clone", "core::marker::Copy")]
    ctx.instance(1, {"impls for StaticSource": [i.get("trait") for i in prog.impls if i.get("self_ty") == "symbol::StaticSource"]})
    ctx.oblig(not bad, None)
    for i in bad:
        ctx.violation("staticsource-%s" % i["trait"].rsplit("::", 1)[1], i.get("span", "-"), "StaticSource implements %s: two owners could reclaim (free) the same source text" % i["trait"])
    ctx.need("lace::symbol::StaticSource" in prog.adts, "struct StaticSource")
    ctx.finish_rule()

    ctx.rule("C19.R6", "the assembler only looks labels up by key: nothing on the assemble path depends on the symbol table's iteration order", floor=2)
    import re as _re
    reach_a = ctx.cg.reachable(list(STAGES))
    KEYED = ("get", "get_mut", "insert", "contains_key", "remove", "entry", "len", "is_empty", "clear", "get_key_value", "new", "default", "with_hasher", "with_capacity_and_hasher")
    uses = []
    for n in sorted(reach_a):
        f_ = prog.fns.get(n)
        if f_ is None:
            continue
        for b, t, c in f_.calls():
            m = _re.search(r"collections::hash::(map::HashMap|set::HashSet)(::)?<.*>::(\w+)$", c or "") or _re.search(r"hashbrown::.*::(\w+)$", c or "")
            if m:
                uses.append((n, m.group(m.lastindex), t.get("sp")))
            elif c and _re.search(r"IntoIterator>::into_iter$", c) and "HashMap" in (t.get("arg_tys") or [""])[0]:
                uses.append((n, "into_iter", t.get("sp")))
    ctx.need(uses, "hash-map operations on the assemble path")
    for n, meth, sp_ in uses:
        ctx.instance(1)
        ok = meth in KEYED
        ctx.oblig(ok, {"in": short(n), "operation": meth}, "keyed access")
        if not ok:
            ctx.violation("symtab-order|fn=%s|%s" % (short(n), meth), sp_file_line(sp_),
                          "`%s` iterates the symbol table (%s) while assembling: the order of a hash table depends on its capacity, which reset_state's clear() keeps from "
                          "earlier assemblies, so the outcome is no longer a function of the source text alone" % (short(n), meth))
    ctx.finish_rule()

