"""C01 — the assembled image is the ISA encoding of the source."""
import json
import os
import re
from ..facts import callee_of, short, sp_file_line, expr_str, expr_walk, op_local, op_place, place_is_local, const_int
from .. import kit, bits, formula, tables
from ..bits import BV, ArmEval
from ..linear import lin, show, same
from ..extract import VERIF

EXPLANATION = (
    "R1 (TAB+BITS): for each instruction kind the parser's operand-consuming calls are ordered along the arm's success path "
    "and traced into the AirStmt field each result is stored in; for each of the 22 AirStmt arms of the encoder a forward "
    "known-bits evaluation yields the layout of the returned word (constant bits, and for each operand the bit range it "
    "lands in); the composition must equal the ISA's operand-k -> bits map and opcode constants (spec/isa.json). "
    "R2: every OR-ed operand is no wider than its field and fields do not overlap. R3 (LIN): the PC-relative helper returns "
    "(ref - line - 1) masked to the width given at each call site, and the widths equal the ISA's. R4: literal offsets are "
    "stored as line + 1 + value. R5: statements are numbered index+1; the parser's line counter starts at 1, advances by one "
    "exactly when a statement is added, and is what a prefix label is bound to. R6 (TAB): mnemonic, trap, vector, directive "
    "and escape tables. R7: the compared identifier is lower-cased; literal prefixes accept both cases. R8: .fill/.blkw/"
    ".stringz expansion. R9: both consumers of the AIR emit origin then every statement in order with the same default origin."
    ' R7 also: a register token is r/R plus exactly one digit 0-7. R8 is decided on emission summaries (push, counted loop, repeat/take, chars/map) with the .blkw count being the unsigned reinterpretation of the literal.'
    " R10: the source holder every command wraps the file contents in stores the String it is given (boxed / leaked, nothing computed from it) and hands back a view of that text; the escape table is also read off a helper returning an Option by evaluating each arm down to its first push."
)
NOT_DECIDED = ("equality of entire images for all programs (follows on paper from R1-R9 by induction over statements); "
               "insensitivity to re-layout beyond the lower-casing, separator and comment rules of the lexer")

P = "lace::parser::AsmParser::"
EMIT = "lace::air::AsmLine::emit"
OPERAND_FNS = {P + "expect_reg": "reg", P + "expect_lit_or_reg": "imm5|reg", P + "expect_lit_or_label": "pcrel", P + "expect_lit": "lit",
               P + "expect": "label"}


def success_walk(fn, entry, limit=400, variant=None):
    """blocks along the straight success path from entry (takes the Continue edge of every `?`); with variant=(adt, idx) a further match on
    that enum inside the arm (`Push | Pop => { ..; match kind { Push => .., Pop => .. } }`) is followed along the edge of that variant"""
    out = []
    b = entry
    seen = set()
    while b is not None and b not in seen and len(out) < limit:
        seen.add(b)
        out.append(b)
        t = fn.term(b)
        k = t["k"]
        if k in ("goto", "assert", "drop"):
            b = t["t"]
        elif k == "call":
            b = t.get("t")
        elif k == "switch":
            sw = kit.switch_on_discr_of_local(fn, b)
            if sw and sw[1] == "core::ops::control_flow::ControlFlow":
                b = {v: x for v, x in t["targets"]}.get(0)
            elif sw and variant is not None and sw[1] == variant[0]:
                b = {v: x for v, x in t["targets"]}.get(variant[1], t["otherwise"])
            else:
                break
        else:
            break
    return out


def origin_call(fn, op, depth=30, tuple_idx=None):
    """block of the operand-consuming call an operand's value comes from"""
    p = op_place(op)
    # tuple_idx: which element of a tuple the traced value is (`let (a, b) = helper()?`)
    while p is not None and depth > 0:
        depth -= 1
        l = p["l"]
        fs_ = [e_["f"] for e_ in p.get("pr", []) if isinstance(e_, dict) and "f" in e_]
        if any(isinstance(e_, dict) and "dc" in e_ for e_ in p.get("pr", [])):
            fs_ = fs_[1:]          # the first field behind a downcast is the variant's payload
        if fs_ and tuple_idx is None and ("(" in fn.local_ty(l)):
            tuple_idx = fs_[-1]
        sd = fn.single_def(l)
        if sd is None:
            # the result place of an inlined helper: `Ok(value)` on its success path, the re-raised residual on the others
            ds = [d_ for d_ in fn.defs().get(l, []) if not (d_[0] == "call" and kit.is_from_residual(callee_of(d_[3])))
                  and not (d_[0] == "stmt" and d_[3]["r"]["k"] == "agg" and d_[3]["r"].get("variant") in ("Err", "None"))]
            if len(ds) == 1:
                sd = ds[0]
            else:
                return None
        kind, b, i, node = sd
        if kind == "call":
            c = callee_of(node)
            if c in OPERAND_FNS:
                return b
            if kit.is_try_branch(c) or (c and (c.endswith("Label::try_fill") or c.endswith("get_span"))):
                # try_fill(get_span(label_tok.span)): the token came from expect(Label)
                nxt = None
                for a in node["args"]:
                    q = op_place(a)
                    if q is not None:
                        r = origin_call(fn, a, depth, tuple_idx)
                        if r is not None:
                            return r
                return nxt
            return None
        r = node["r"]
        if r["k"] in ("use", "cast"):
            p = op_place(r["a"])
        elif r["k"] == "ref":
            p = r["p"]
        elif r["k"] == "agg" and r.get("variant") in ("Ok", "Some") and len(r.get("ops", [])) == 1:
            p = op_place(r["ops"][0])          # Ok(value) handed back by an inlined helper
        elif r["k"] == "agg" and r.get("ak") == "tuple" and tuple_idx is not None and tuple_idx < len(r.get("ops", [])):
            p = op_place(r["ops"][tuple_idx])          # the element of the pair the helper packed
            tuple_idx = None
        else:
            return None
    return None


def run(ctx):
    prog = ctx.prog
    spec = json.load(open(os.path.join(VERIF, "spec", "isa.json")))
    emit = ctx.fn(EMIT)
    pi = ctx.fn(P + "parse_instr")
    AIRSTMT, IK = "lace::air::AirStmt", "lace::symbol::InstrKind"

    # ------------------------------------------------------------------ encoder layouts (used by R1, R2)
    def call_summary(c, t, ev):
        c = c or ""
        if c.endswith("ImmediateOrReg::bits"):
            return BV.field(ev.source_name(_arg_place(ev.fn, t["args"][0])), _fn_width(ctx, c))
        if c.endswith("Flag::bits"):
            return BV.field(ev.source_name(_arg_place(ev.fn, t["args"][0])), _fn_width(ctx, c))
        if c.endswith("AsmLine::bit_offs"):
            w = const_int(t["args"][2])
            return BV.field(ev.source_name(_arg_place(ev.fn, t["args"][1])), w if w is not None else 16)
        return None

    sws = list(kit.discr_switches(emit, AIRSTMT))
    ctx.need(sws, "match on AirStmt in emit")
    sb, place, targets, oth = max(sws, key=lambda s: len(s[2]))
    vnames = {v["idx"]: v["name"] for v in prog.adt(AIRSTMT)["variants"]}
    layouts = {}
    overl = {}
    for vi, tb in targets.items():
        ev = ArmEval(ctx, emit, call_summary)
        res = ev.run(tb)
        layouts[vnames[vi]] = res
        overl[vnames[vi]] = ev.overlaps

    ctx.rule("C01.R1", "operand k of each instruction lands in the ISA's bit field; constant bits = opcode and fixed bits", floor=40)
    # (a) encoder arms
    for name in sorted(vnames.values()):
        sp = spec["encode"].get(name)
        ctx.need(sp is not None, "spec row for AirStmt::%s" % name)
        res = layouts.get(name)
        ctx.instance(1)
        if res is None:
            ctx.oblig(False)
            ctx.violation("emit-arm|%s" % name, emit.file_line(), "could not evaluate the encoder arm for %s (no Ok(word) found on its path)" % name)
            continue
        ones, fields, unk = res.layout()
        want_ones = int(sp["ones"], 16)
        got_f = {k: (v[0], v[2]) if v[0] != "scattered" else v for k, v in fields.items()}
        want_f = {k: tuple(v) for k, v in sp["fields"].items()}
        # position and width must both equal the ISA's: a wider operand spills (also R2), a narrower one drops the sign/high bits
        # of values the parser accepts for that field (C04.R2 ties the parser's width to the same table)
        ok_pos = set(got_f) == set(want_f) and all(got_f[k] == want_f[k] for k in want_f if got_f[k][0] != "scattered")
        ok_align = all(fields[k][1] == 0 for k in fields if fields[k][0] != "scattered")
        ok = ones == want_ones and ok_pos and ok_align and unk == 0
        ctx.oblig(ok, {"stmt": name, "ones": hex(ones), "fields": {k: list(v) for k, v in got_f.items()}} if name in ("Add", "LoadOffs", "Call") else None, "layout == ISA")
        if not ok:
            ctx.violation("layout|%s" % name, _arm_line(emit, targets, vnames, name),
                          "emit(%s) produces constant bits %s and operand fields %s (unknown bits %s); the ISA says constant %s and %s"
                          % (name, hex(ones), {k: "bits %d..%d" % (v[0] + v[1] - 1, v[0]) if v[0] != "scattered" else "scattered" for k, v in got_f.items()},
                             hex(unk), hex(want_ones), {k: "bits %d..%d" % (v[0] + v[1] - 1, v[0]) for k, v in want_f.items()}))
    # (b) parser arms: source operand order -> AirStmt field
    sws = list(kit.discr_switches(pi, IK))
    ctx.need(sws, "match on InstrKind in parse_instr")
    psb, pplace, ptargets, poth = max(sws, key=lambda s: len(s[2]))
    knames = {v["idx"]: v["name"] for v in prog.adt(IK)["variants"]}
    parser_widths = {}
    for vi, tb in sorted(ptargets.items()):
        kind = knames[vi]
        ctx.instance(1)
        path = success_walk(pi, tb, variant=(IK, vi))
        order = {}
        for b in path:
            t = pi.term(b)
            if t["k"] == "call" and callee_of(t) in OPERAND_FNS:
                order[b] = len(order)
                if callee_of(t) == P + "expect_lit_or_label":
                    parser_widths.setdefault(kind, []).append(("pcrel", const_int(t["args"][1])))
                elif callee_of(t) == P + "expect_lit":
                    e = pi.expr(t["args"][1], 6)
                    if e[0] == "agg" and e[2] and e[2][0][0] == "const":
                        parser_widths.setdefault(kind, []).append((e[1][2], e[2][0][1]))
                elif callee_of(t) == P + "expect_lit_or_reg":
                    parser_widths.setdefault(kind, []).append(("imm5|reg", 5))
        agg = None
        for b in path:
            for s in pi.stmts(b):
                if s["k"] == "assign" and s["r"]["k"] == "agg" and s["r"].get("adt") == AIRSTMT:
                    agg = s["r"]
        ctx.need(agg is not None, "AirStmt aggregate in the %s arm of parse_instr" % kind)
        want_stmt = spec["kind_to_stmt"][kind]
        got_order = [None] * len(order)
        consumed = set()
        for fname, op in zip(agg.get("fields", []), agg["ops"]):
            ob = origin_call(pi, op)
            if ob is not None and ob in order:
                got_order[order[ob]] = fname
                consumed.add(ob)
        want_order = spec["operand_order"][kind]
        # `br*` carries its flag from the mnemonic, not from an operand
        ok = agg.get("variant") == want_stmt and got_order == want_order
        ctx.oblig(ok, {"kind": kind, "operands->fields": got_order} if kind in ("Add", "Str", "Ldr") else None, "source operand order == ISA")
        if not ok:
            ctx.violation("operand-order|%s" % kind, sp_file_line(pi.term(tb).get("sp")),
                          "`%s` stores its source operands into %s::%s, the ISA's operand order is %s::%s"
                          % (kind.lower(), agg.get("variant"), got_order, want_stmt, want_order))
    ctx._c01_parser_widths = parser_widths
    ctx.finish_rule()

    # ------------------------------------------------------------------ R2
    ctx.rule("C01.R2", "every operand fits its field; fields do not overlap", floor=22)
    for name in sorted(vnames.values()):
        res = layouts.get(name)
        if res is None:
            continue
        ctx.instance(1)
        sp = spec["encode"][name]
        ones, fields, unk = res.layout()
        bad = []
        for k, v in fields.items():
            if v[0] == "scattered":
                bad.append("%s scattered" % k)
                continue
            want = sp["fields"].get(k)
            if want and v[2] > want[1]:
                bad.append("%s is %d bits wide, its field has %d" % (k, v[2], want[1]))
        for i, a, b in overl.get(name, []):
            bad.append("bit %d receives both %s and %s" % (i, _bitname(a), _bitname(b)))
        ctx.oblig(not bad, None)
        if bad:
            ctx.violation("field-fit|%s" % name, _arm_line(emit, targets, vnames, name),
                          "emit(%s): %s — an operand value with those bits set spills into the neighbouring field (e.g. a negative 6-bit offset "
                          "kept as 8 bits corrupts the base register)" % (name, "; ".join(sorted(set(bad)))))
    # the helper summaries used above
    for hn, want in (("lace::air::ImmediateOrReg::bits", {"Reg": (0, 0, 3), "Imm5": (0x20, 0, 5)}),):
        hf = ctx.fn(hn)
        hsw = list(kit.discr_switches(hf, "lace::air::ImmediateOrReg"))
        ctx.need(hsw, "match in ImmediateOrReg::bits")
        hn_ = {v["idx"]: v["name"] for v in prog.adt("lace::air::ImmediateOrReg")["variants"]}
        for vi, tb in hsw[0][2].items():
            ev = ArmEval(ctx, hf, lambda c, t, e: None)
            res = _run_plain(ev, tb)
            ones, fields, unk = res.layout() if res else (None, {}, None)
            w = want[hn_[vi]]
            f = list(fields.values())
            ok = res is not None and ones == w[0] and len(f) == 1 and f[0][0] == w[1] and f[0][2] == w[2]
            ctx.oblig(ok, {"ImmediateOrReg::%s" % hn_[vi]: {"ones": ones, "fields": {k: list(v) for k, v in fields.items()}}}, "mode bit + 5-bit immediate / 3-bit register")
            if not ok:
                ctx.violation("immreg|%s" % hn_[vi], hf.file_line(), "ImmediateOrReg::bits(%s) yields ones=%s fields=%s (expected ones=%s, one field at bit %d of width %d)"
                              % (hn_[vi], ones, fields, hex(w[0]), w[1], w[2]))
    ctx.finish_rule()

    # ------------------------------------------------------------------ R3
    ctx.rule("C01.R3", "PC-relative fields: (ref - line - 1) masked to the ISA's width", floor=8)
    bo = ctx.fn("lace::air::AsmLine::bit_offs")
    oks = [s for b, i, s in bo.assigns() if s["p"]["l"] == 0 and place_is_local(s["p"]) and s["r"]["k"] == "agg" and s["r"].get("variant") == "Ok"]
    ctx.need(len(oks) == 1, "Ok(..) result of bit_offs")
    e = bo.expr(oks[0]["r"]["ops"][0], 14)
    ok = e[0] == "bin" and e[1] == "BitAnd"
    maskok = False
    linok = False
    if ok:
        val, mask = e[2], e[3]
        # mask = 2^bits - 1
        try:
            mv = [formula.evaluate(mask, {"args": {"bits": w, 3: w}}) for w in (9, 10, 11)]
            maskok = mv == [(1 << w) - 1 for w in (9, 10, 11)]
        except (formula.Unknown, formula.Overflow):
            maskok = False
        l = lin(val, name=lambda x: "label" if (x[0] == "field" and str(x[2]) == "0" and x[1][0] == "downcast" and x[1][2] == "Ref") else None)
        linok = same(l, -1, [("label", 1), ("line", -1)]) or same(lin(val), -1, [("ref_label", 1), ("line", -1)])
        ldesc = show(l)
    else:
        ldesc = expr_str(e)
    ctx.instance(1, {"bit_offs returns": expr_str(e, 140)})
    ctx.oblig(ok and maskok, {"mask": "2^bits - 1"}, "evaluated for bits = 9, 10, 11")
    if not (ok and maskok):
        ctx.violation("pcrel-mask", bo.file_line(), "bit_offs does not mask its result with 2^bits - 1: `%s`" % expr_str(e, 120))
    ctx.oblig(linok, {"offset": ldesc}, "label - line - 1")
    if not linok:
        ctx.violation("pcrel-form", bo.file_line(), "bit_offs computes `%s`; a PC-relative field must be target line - own line - 1" % ldesc)
    # call-site widths
    nsites = 0
    for vi, tb in targets.items():
        name = vnames[vi]
        reg = kit.dominated_region(emit, tb)
        for b, t, c in emit.calls():
            if b in reg and c == bo.name:
                nsites += 1
                ctx.instance(1)
                w = const_int(t["args"][2])
                want = spec["pcrel_width"].get(name)
                ok = w == want
                ctx.oblig(ok, {"stmt": name, "width": w} if name in ("JumbSub", "Call") else None, "ISA width")
                if not ok:
                    ctx.violation("pcrel-width|%s" % name, sp_file_line(t.get("sp")), "emit(%s) encodes its label with %s bits, the ISA field has %s" % (name, w, want))
    ctx.finish_rule()

    # ------------------------------------------------------------------ R4
    ctx.rule("C01.R4", "a literal PC offset v is stored as the line line + 1 + v", floor=1)
    ll = ctx.fn(P + "expect_lit_or_label")
    refs = [s for b, i, s in ll.assigns() if s["r"]["k"] == "agg" and s["r"].get("adt") == "lace::symbol::Label" and s["r"].get("variant") == "Ref"]
    ctx.need(len(refs) == 1, "Label::Ref construction in expect_lit_or_label")
    l = lin(ll.expr(refs[0]["r"]["ops"][0], 12, stop={"named"}))
    ok = same(l, 1, [("line", 1), ("val", 1)])
    if not ok:
        # by what the terms are, not by the names of the temporaries: the parser's line counter, the literal just read, and 1
        l2 = lin(ll.expr(refs[0]["r"]["ops"][0], 16))
        ks = [str(k_) for k_ in l2[1]]
        ok = l2[0] == 1 and sorted(l2[1].values()) == [1, 1] and any(re.search(r"\.line\b", k_) and "expect_lit" not in k_ for k_ in ks) \
            and any("expect_lit(" in k_ for k_ in ks)
        if ok:
            l = l2
    ctx.instance(1)
    ctx.oblig(ok, {"literal reference": show(l)}, "line + 1 + val")
    if not ok:
        ctx.violation("literal-ref", sp_file_line(refs[0].get("sp")), "a literal offset is stored as `%s`; with bit_offs = ref - line - 1 it must be line + 1 + val to encode val" % show(l))
    ctx.finish_rule()

    # ------------------------------------------------------------------ R5
    ctx.rule("C01.R5", "statement numbering: index + 1; the line counter advances once per statement", floor=4)
    add = ctx.fn("lace::air::Air::add_stmt")
    for b, t, c in add.calls():
        if c == "lace::air::AsmLine::new":
            ctx.instance(1)
            l = lin(add.expr(t["args"][0], 12))
            ok = same(l, 1, [("len(", 1)])
            ctx.oblig(ok, {"AsmLine.line": show(l)}, "len + 1")
            if not ok:
                ctx.violation("stmt-number", sp_file_line(t.get("sp")), "add_stmt numbers a statement `%s` (expected number of statements so far + 1)" % show(l))
    for ctor in (P + "new", P + "new_simple"):
        f = ctx.fn(ctor)
        for b, i, s in f.assigns():
            if s["r"]["k"] == "agg" and s["r"].get("adt") == "lace::parser::AsmParser":
                ctx.instance(1)
                ctx.need("line" in s["r"].get("fields", []), "the statement counter of AsmParser (field `line`) set by %s" % short(ctor))
                idx = s["r"]["fields"].index("line")
                ok = const_int(s["r"]["ops"][idx]) == 1
                ctx.oblig(ok, {short(ctor): "line starts at %s" % const_int(s["r"]["ops"][idx])}, "1")
                if not ok:
                    ctx.violation("line-start|%s" % short(ctor), sp_file_line(s.get("sp")), "the parser's line counter starts at %s, not 1" % const_int(s["r"]["ops"][idx]))
    pf = ctx.fn(P + "parse")
    incs = [(b, s) for b, i, s in pf.assigns() if [e.get("n") for e in s["p"].get("pr", []) if isinstance(e, dict) and "f" in e][-1:] == ["line"]]
    adds = [b for b, t, c in pf.calls() if c == "lace::air::Air::add_stmt"]
    ctx.instance(1)
    ok = len(incs) == 1 and len(adds) == 1
    if ok:
        l = lin(pf.rvalue_expr(incs[0][1]["r"], 8, stop={"named"}))
        ok = same(l, 1, [("line", 1)]) and pf.dominates(adds[0], incs[0][0])
        # no path from the increment back to itself without adding a statement
        lps = kit.loops(pf)
        ok = ok and not kit.has_cycle(pf, pf.live_blocks() - {adds[0]}) or ok and all(adds[0] in body for h, (body, l2) in lps.items() if incs[0][0] in body)
    ctx.oblig(ok, {"parse": "line += 1 once, dominated by add_stmt"}, "LIN + dominance")
    if not ok:
        ctx.violation("line-increment", pf.file_line(), "the line counter is not advanced by exactly 1 exactly when a statement is added (%d increments, %d add_stmt calls)" % (len(incs), len(adds)))
    lab = [(b, t) for b, t, c in pf.calls() if c == "lace::symbol::Label::insert"]
    ctx.instance(1)
    ok = len(lab) == 1 and expr_str(pf.expr(lab[0][1]["args"][1], 4, stop={"named"})) == "self.line"
    ctx.oblig(ok, {"prefix label": "bound to self.line"}, "argument of Label::insert")
    if not ok:
        ctx.violation("label-binding", pf.file_line(), "a prefix label is not bound to the current line counter")
    ctx.finish_rule()

    # ------------------------------------------------------------------ R6
    ctx.rule("C01.R6", "keyword, trap, vector, directive and escape tables", floor=50)
    LX = "lace::lexer::<impl lexer::cursor::Cursor<'_>>::"
    for fname, want, what in ((LX + "check_instruction", spec["mnemonics"], "mnemonic"), (LX + "check_trap", spec["traps"], "trap name"),
                              (LX + "check_directive", spec["directives"], "directive")):
        f = ctx.fn(fname)
        got = {}
        for lit, val, tb, gb in tables.str_table(prog, f):
            vp = tables.variant_path(val) or ""
            if vp.startswith("Some(") and vp.endswith(")"):
                vp = vp[5:-1]
            m = re.match(r"(?:Instr|Trap|Dir)\((.*)\)$", vp)
            if m:
                got[lit] = m.group(1)
        ctx.instance(len(got))
        ok = got == want
        ctx.oblig(ok, {what + "s": len(got)}, "== spec")
        if not ok:
            diff = {k: (got.get(k), want.get(k)) for k in set(got) | set(want) if got.get(k) != want.get(k)}
            ctx.violation("table|%s" % what, f.file_line(), "the %s table differs from the ISA/README: %s (code, spec)" % (what, diff))
    pt = ctx.fn(P + "parse_trap")
    def _vec(v):
        # the vector may be wrapped by a helper's `Some(..)` (alias -> Some(vector), generic trap -> None) or a cast
        for _ in range(4):
            if v and v[0] == "agg" and v[1][0] == "adt" and v[1][2] == "Some" and len(v[2]) == 1:
                v = v[2][0]
            elif v and v[0] == "cast":
                v = v[3]
            else:
                break
        return v[1] if v and v[0] == "const" else None
    tk = {k: _vec(v) for k, v in tables.enum_const_table(prog, pt, "lace::symbol::TrapKind").items() if k != "Generic"}
    wantv = {k.capitalize(): v for k, v in spec["trap_vectors"].items()}
    ctx.instance(len(tk))
    ok = tk == wantv
    ctx.oblig(ok, {"trap vectors": tk}, "== spec")
    if not ok:
        ctx.violation("table|trap-vectors", pt.file_line(), "trap aliases map to %s, the ISA/README say %s" % (tk, wantv))
    # escapes of .stringz
    ue = ctx.fn("lace::parser::unescape")
    esc = {}
    for b in sorted(ue.live_blocks()):
        t = ue.term(b)
        if t["k"] == "switch" and t.get("ty") == "char" and len(t["targets"]) >= 4:
            for v, tb in t["targets"]:
                pushes = [tt for bb in success_walk(ue, tb)[:3] for tt in [ue.term(bb)] if tt["k"] == "call" and (callee_of(tt) or "").endswith("String::push")]
                if pushes and const_int(pushes[0]["args"][1]) is not None:
                    esc[chr(v)] = chr(const_int(pushes[0]["args"][1]))
                elif pushes:
                    esc[chr(v)] = None          # the pushed value is computed: read the table by evaluation below
    if not esc or None in esc.values():
        esc = {}
        # the table sits behind a helper / an Option (`match escape_value(c) { Some(v) => push(v), None => .. }`): for each character
        # the match names, the paths below its arm are unfolded down to the first push and the pushed value is evaluated with the
        # matched character bound
        for b in sorted(ue.live_blocks()):
            t = ue.term(b)
            if not (t["k"] == "switch" and t.get("ty") == "char" and len(t["targets"]) >= 3):
                continue
            scrut = ue.expr(t["a"], 20)
            def at_push(bb, tt, sub):
                if (callee_of(tt) or "").endswith("String::push") and len(tt.get("args", [])) == 2:
                    return ("push", sub(ue.expr(tt["args"][1], 20)))
                return None
            for v, tb in t["targets"]:
                try:
                    tree = formula.decision(ue, start=tb, leaf_of_call=at_push, leaf_of_block=lambda x, _h=set(kit.loops(ue)): ("loop",) if x in _h else None)
                    env = {"prog": prog, "subst": (lambda e, _s=scrut, _v=v: _v if e == _s or (e[0] in ("local", "arg") and _s[0] in ("local", "arg") and e[1] == _s[1]) else None)}
                    lab = formula.eval_decision(tree, env)
                    if isinstance(lab, tuple) and lab and lab[0] == "push":
                        val = formula.evaluate(lab[1], env)
                        if isinstance(val, int):
                            esc[chr(v)] = chr(val)
                except (formula.NotATree, formula.Unknown, formula.Overflow):
                    continue
            if esc:
                break
    ctx.instance(len(esc))
    wante = {"n": "\n", "t": "\t", "r": "\r", "\\": "\\", '"': '"'}
    ok = esc == wante
    ctx.oblig(ok, {"escapes": {k: repr(v) for k, v in esc.items()}}, "\\n \\t \\r \\\\ \\\"")
    if not ok:
        ctx.violation("table|escapes", ue.file_line(), "the .stringz escape table is %s (expected %s)" % ({k: repr(v) for k, v in esc.items()}, {k: repr(v) for k, v in wante.items()}))
    # the lexer finds the end of a string the way unescape reads it: a backslash always pairs with the character after it
    sl = ctx.fn(LX + "str")
    bsw = []
    for b in sorted(sl.live_blocks()):
        t = sl.term(b)
        if t["k"] == "switch":
            c = sl.expr(t["a"], 6)
            tg_ = {v: x for v, x in t["targets"]}
            if c[0] == "bin" and c[1] in ("Eq", "Ne") and ("const", 92) in (c[2], c[3]):
                t_true = t["otherwise"] if 0 in tg_ else tg_.get(1)
                t_false = tg_.get(0, t["otherwise"])
                bsw.append((b, t_true if c[1] == "Eq" else t_false))
            elif 92 in tg_ and t.get("ty") == "char":
                bsw.append((b, tg_[92]))            # `match c { '\\' => .. }`
    ctx.need(len(bsw) == 1, "backslash test in the string lexer (found %d)" % len(bsw))
    bb_, on_bs = bsw[0]
    lps_ = [(h, body) for h, (body, latches) in kit.loops(sl).items() if bb_ in body]
    ctx.need(lps_, "character loop of the string lexer")
    h_, body_ = min(lps_, key=lambda x: len(x[1]))
    bumps = {b for b, t, c in sl.calls() if c and c.endswith("Cursor::<'_>::bump") or (c or "").endswith("::bump")}
    skip_bumps = {b for b in bumps if b in body_ and not sl.dominates(b, bb_)}
    ctx.instance(1)
    ok = bool(skip_bumps) and h_ not in sl.reachable(on_bs, avoid=skip_bumps)
    ctx.oblig(ok, {"string lexer": "a backslash always consumes the next character"}, "must-pass-through a second bump on the backslash edge")
    if not ok:
        ctx.violation("string-escape-pairing", sp_file_line(sl.term(bb_).get("sp")), "in the string lexer a backslash does not always swallow the character after it (the skip is "
                      "conditional or missing): `\\\\\"` then ends the literal in a different place than unescape() reads it, so the words of a .stringz change")
    ctx.finish_rule()

    # ------------------------------------------------------------------ R7
    ctx.rule("C01.R7", "keywords are compared lower-cased; literal prefixes accept both cases", floor=4)
    for caller, callee in ((LX + "ident", LX + "check_instruction"), (LX + "ident", LX + "check_trap"), (LX + "dir", LX + "check_directive")):
        f = ctx.fn(caller)
        for b, t, c in f.calls():
            if c == callee:
                ctx.instance(1)
                e = f.expr(t["args"][1], 12)
                ok = any(x and x.endswith("to_ascii_lowercase") for x in kit.expr_calls(e))
                ctx.oblig(ok, {short(callee).rsplit("::", 1)[-1]: "argument is to_ascii_lowercase(..)"}, "data flow")
                if not ok:
                    ctx.violation("not-lowercased|%s" % short(callee).rsplit("::", 1)[-1], sp_file_line(t.get("sp")), "`%s` is given `%s`, which is not lower-cased: keyword case would matter" % (short(callee), expr_str(e, 80)))
    at = ctx.fn(LX + "advance_token")
    for b in sorted(at.live_blocks()):
        t = at.term(b)
        if t["k"] == "switch" and t.get("ty") == "char":
            tg = {v: x for v, x in t["targets"]}
            for lo, up in (("x", "X"), ("r", "R")):
                if ord(lo) in tg or ord(up) in tg:
                    ctx.instance(1)
                    ok = tg.get(ord(lo)) is not None and tg.get(ord(lo)) == tg.get(ord(up))
                    ctx.oblig(ok, {"prefix": lo + "/" + up}, "same arm")
                    if not ok:
                        ctx.violation("prefix-case|%s" % lo, sp_file_line(t.get("sp")), "the literal prefix `%s` and `%s` are not treated alike" % (lo, up))
    # a register token is `r`/`R`, exactly one digit 0-7, and then the end of the identifier: `r10` or `r25` is a label, not register 1 or 2
    from ..panics import Ledger as _Ledger
    _L7 = _Ledger(ctx, [])
    regb = [(b, s) for b, i, s in at.assigns() if s["r"]["k"] == "agg" and str(s["r"].get("adt", "")).endswith("lexer::TokenKind") and s["r"].get("variant") == "Reg"]
    ctx.need(regb, "TokenKind::Reg construction in advance_token")
    for b, s in regb:
        ctx.instance(1)
        cons = _L7._dom_constraints(at, b, stable=False)
        len2 = any(c[0] == "bin" and c[1] == "Eq" and v != 0 and ("const", 2) in (c[2], c[3]) and "pos_in_token" in expr_str(c, 200) for c, v in cons) or \
            any(c[0] == "bin" and c[1] == "Ne" and v == 0 and ("const", 2) in (c[2], c[3]) and "pos_in_token" in expr_str(c, 200) for c, v in cons)
        # or: nothing that consumes several characters runs between the prefix and the token (a single digit was bumped)
        multi = [c for bb, t, c in at.calls() if c and (c.endswith("Cursor::<'sess>::take_while") or c.endswith("::take_while")) and at.dominates(bb, b)
                 and any(x[0] == "fn" and "is_reg_num" in str(x[1]) for a in t["args"] for x in expr_walk(at.expr(a, 6)))]
        ok = len2 or not multi
        ctx.oblig(ok, {"register token": "length 2" if len2 else ("single digit" if not multi else "?")}, "r/R + exactly one digit")
        if not ok:
            ctx.violation("register-length", sp_file_line(s.get("sp")), "a register token is produced after consuming any number of digits 0-7 (no test that the token is exactly two "
                          "characters long): `r10`, `r25`, `R77` are read as r1, r2, r7 instead of as labels")
    ctx.finish_rule()

    # ------------------------------------------------------------------ R8
    ctx.rule("C01.R8", "data directives expand to the documented words", floor=3)
    pp = ctx.fn("lace::parser::preprocess")
    DK = "lace::symbol::DirKind"
    dsw = max(kit.discr_switches(pp, DK), key=lambda s: len(s[2]))
    dn = {v["name"]: v["idx"] for v in prog.adt(DK)["variants"]}
    lps = kit.loops(pp)
    outer = max(lps, key=lambda h: len(lps[h][0]))

    def arm(name):
        return kit.dominated_region(pp, dsw[2][dn[name]])
    from .. import emis

    def unit(x):
        """the block that stands for an emission on a path: the appending call, or the header of the loop that repeats it"""
        if isinstance(x["mult"], tuple) and x["mult"][0] in ("range", "chars", "loop?"):
            inner = [(len(body), h) for h, (body, l) in lps.items() if x["bb"] in body and h != outer]
            if inner:
                return min(inner)[1]
        return x["bb"]

    def one_per_path(reg, blocks):
        """every path through the directive's arm that does not end in an error passes exactly one of `blocks`"""
        blocks = set(blocks)
        if not blocks:
            return False
        errb = kit.error_blocks(pp)
        dead = {b for b in pp.live_blocks() if pp.term(b)["k"] == "unreachable"}
        sm = pp.succ_map()
        leaving = {b for b in reg if any(x not in reg and x not in dead for x in sm[b])} - errb
        start = min(reg)
        # at least once: no way out of the arm that avoids all of them (error exits aside)
        if (pp.reachable(start, avoid=blocks | errb) & leaving) - blocks:
            return False
        # at most once: none of them can be reached from another (or from itself) without starting the next statement
        for x in blocks:
            after = set()
            for y in sm[x]:
                if y in lps and x in lps[y][0] and y != outer:
                    continue
                after |= pp.reachable(y, avoid={outer})
            inner_body = lps[x][0] if x in lps else set()
            if (after - inner_body) & blocks:
                return False
        return True

    def lit_payload(e):
        return _is_lit_payload(e)

    # .fill: exactly one word, the literal itself
    reg = arm("Fill")
    ctx.instance(1)
    em = emis.emissions(prog, pp, reg)
    ok = bool(em) and all(x["kind"] == "byte" and x["mult"] == 1 and emis.all_defs_satisfy(pp, x["value"], lit_payload) for x in em) and one_per_path(reg, [unit(x) for x in em])
    ctx.oblig(ok, {".fill": [(x["kind"], expr_str(x["value"], 50) if x["value"] else None, str(x["mult"])[:40]) for x in em]}, "one word per path: the literal itself (cast only)")
    if not ok:
        ctx.violation("fill", sp_file_line(pp.term(dsw[2][dn["Fill"]]).get("sp")), ".fill does not append exactly the literal's value once: %s"
                      % [(x["kind"], expr_str(x["value"], 50) if x["value"] else x.get("what"), str(x["mult"])[:40]) for x in em])
    # .blkw n: n zero words
    reg = arm("Blkw")
    ctx.instance(1)
    em = emis.emissions(prog, pp, reg)
    def count_payload(e):
        """the literal as a count: a hex payload as it is; a decimal (i16) payload reinterpreted as u16 first - iterating `0..lit` over
        the signed value yields nothing for #32768 and above, which the lexer delivers as negative numbers"""
        if not lit_payload(e):
            return False
        inner, first_cast = e, None
        while inner[0] == "cast":
            first_cast = (inner[1], inner[2])
            inner = inner[3]
        if "Dec" in expr_str(inner, 200):
            return first_cast == ("i16", "u16")
        return True

    def count_ok(m):
        return isinstance(m, tuple) and m[0] in ("range", "repeat") and emis.all_defs_satisfy(pp, m[1], count_payload)
    ok = bool(em) and all(x["kind"] == "zero" and count_ok(x["mult"]) for x in em) and one_per_path(reg, [unit(x) for x in em])
    ctx.oblig(ok, {".blkw": [(x["kind"], (x["mult"][0], expr_str(x["mult"][1], 50)) if isinstance(x["mult"], tuple) and len(x["mult"]) > 1 else x["mult"]) for x in em]}, "n zero words, n the literal")
    if not ok:
        ctx.violation("blkw", sp_file_line(pp.term(dsw[2][dn["Blkw"]]).get("sp")), ".blkw n does not append exactly n zero words: %s"
                      % [(x["kind"], (x["mult"][0], expr_str(x["mult"][1], 50)) if isinstance(x["mult"], tuple) and len(x["mult"]) > 1 else x["mult"], x.get("what")) for x in em])
    # .stringz: one word per character of the unescaped text, then one zero word
    reg = arm("Stringz")
    ctx.instance(1)
    em = emis.emissions(prog, pp, reg)
    chars_ = [x for x in em if x["kind"] == "byte-of-char" or (x["kind"] == "byte" and isinstance(x["mult"], tuple) and x["mult"][0] == "chars")]
    zeros_ = [x for x in em if x["kind"] == "zero" and x["mult"] == 1]
    ok = len(em) == 2 and len(chars_) == 1 and len(zeros_) == 1
    if ok:
        cx, zx = chars_[0], zeros_[0]
        if cx["kind"] == "byte":
            v = cx["value"]
            while v[0] == "cast":
                ok = ok and v[1] == "char"
                v = v[3]
        src = expr_str(cx["mult"][1], 300)
        ok = ok and "unescape" in src
        # order: the characters first, the terminator after them, both on every path
        ok = ok and zx["bb"] in pp.reachable(cx["bb"]) and cx["bb"] not in pp.reachable(zx["bb"], avoid={outer})
        ok = ok and one_per_path(reg, [zx["bb"]])
    ctx.oblig(ok, {".stringz": [(x["kind"], str(x["mult"])[:50]) for x in em]}, "one word per char of unescape(text), then one zero word")
    if not ok:
        ctx.violation("stringz", sp_file_line(pp.term(dsw[2][dn["Stringz"]]).get("sp")), ".stringz does not expand to one word per (unescaped) character followed by exactly one terminating zero word: %s"
                      % [(x["kind"], str(x["mult"])[:60], x.get("what")) for x in em])
    ctx.finish_rule()

    # ------------------------------------------------------------------ R9
    ctx.rule("C01.R9", "image order: origin, then every statement in order; one default origin", floor=2)
    tf = ctx.fn("lace::runtime::RunEnvironment::try_from")
    main = ctx.fn("bin::main")
    defaults = {}
    from .c07 import command_units as _cu
    _units = dict(_cu(ctx, main))
    for f, nm, blks in ((tf, "run", None), (main, "compile", main.reachable(_units["Compile"]) if "Compile" in _units else None)):
        ds = sorted(set(kit.default_origins(prog, f, blks)))
        if len(ds) == 1:
            defaults[nm] = ds[0]
        elif ds:
            defaults[nm] = None
    ctx.instance(2, {"default origin": {k: hex(v) if v is not None else None for k, v in defaults.items()}})
    ok = defaults.get("run") == 0x3000 and defaults.get("compile") == 0x3000
    ctx.oblig(ok)
    if not ok:
        ctx.violation("default-origin", tf.file_line(), "default origins differ or are not x3000: %s" % {k: hex(v) if v is not None else None for k, v in defaults.items()})
    # try_from: push(orig) dominates the emit loop; each emitted word is pushed in iteration order
    pushes = [(b, t) for b, t, c in tf.calls() if c and c.endswith("Vec::<T, A>::push")]
    emits = [b for b, t, c in tf.calls() if c == EMIT]
    ok = len(pushes) == 2 and len(emits) == 1
    if ok:
        first = [b for b, t in pushes if "orig" in expr_str(tf.expr(t["args"][1], 4, stop={"named"}))]
        second = [b for b, t in pushes if EMIT.split("::")[-1] in expr_str(tf.expr(t["args"][1], 10))]
        ok = len(first) == 1 and len(second) == 1 and tf.dominates(first[0], emits[0]) and tf.dominates(emits[0], second[0])
    if not ok and not pushes:
        # adaptor form: once(Ok(orig)).chain(air.into_iter().map(|s| s.emit())).collect::<Result<Vec<_>>>() - chain yields its first operand's
        # elements before the second's, map keeps the order of the statements, collect into Result stops at the first failure
        for b, t, c in tf.calls():
            if not (c and re.search(r"Iterator>?::collect$", c) and "Result<alloc::vec::Vec<u16>" in str(t["f"].get("targs") or t["f"].get("fn_full") or "")):
                continue
            x = kit.strip_refs(tf.expr(t["args"][0], 14))
            if not (x[0] == "call" and re.search(r"Iterator>?::chain$", str(x[1])) and len(x[2]) == 2):
                continue
            a_, b_ = kit.strip_refs(x[2][0]), kit.strip_refs(x[2][1])
            a_ok = a_[0] == "call" and str(a_[1]).endswith("sources::once::once") and "orig(" in expr_str(a_, 300)
            b_ok = False
            if b_[0] == "call" and re.search(r"Iterator>?::map$", str(b_[1])) and len(b_[2]) == 2:
                src_, fn_ = kit.strip_refs(b_[2][0]), kit.strip_refs(b_[2][1])
                whole = src_[0] == "call" and re.search(r"IntoIterator>::into_iter$|::iter$", str(src_[1])) and kit.strip_refs(src_[2][0])[0] == "arg"
                emits_ = False
                if fn_[0] == "agg" and fn_[1][0] == "closure" and fn_[1][1] in prog.fns:
                    g_ = prog.fns[fn_[1][1]]
                    emits_ = [c2 for b2, t2, c2 in g_.calls()] == [EMIT] and not kit.loops(g_)
                elif fn_[0] in ("fn", "const") and EMIT in str(fn_):
                    emits_ = True
                b_ok = bool(whole) and emits_
            if a_ok and b_ok:
                ok = True
    ctx.oblig(ok, {"try_from": "push(orig); for stmt { push(emit(stmt)?) }"}, "dominance")
    if not ok:
        ctx.violation("image-order", tf.file_line(), "RunEnvironment::try_from does not build [origin, emit(stmt 0), emit(stmt 1), ...]")
    ctx.finish_rule()

    # ------------------------------------------------------------------ R10
    # the text that is lexed is the text that was read: the holder every command wraps the file's contents in stores that very String
    # (boxed / leaked / re-borrowed, nothing computed from it) and hands back a view of it. A normalisation at this point - tabs to spaces,
    # a trimmed end, lower-casing - changes the words of string literals and the positions every span refers to
    ctx.rule("C01.R10", "the source holder stores and returns the text it is given, unchanged", floor=2)
    CARRY = re.compile(r"boxed::Box::<T>::(new|into_raw|leak|from_raw)$|boxed::Box<.*>::(new|into_raw|leak)$|String::(into_boxed_str|leak|as_str|as_mut_str)$|"
                       r"Deref>::deref$|DerefMut>::deref_mut$|convert::(From|Into)<.*>>::(from|into)$|AsRef<str>>::as_ref$|ptr::NonNull::<T>::(new_unchecked|as_ptr|as_ref)$|"
                       r"Box::<str>::from$|convert::identity$|mem::ManuallyDrop::<T>::new$")
    def carrier(e, leaf):
        """e is `leaf` wrapped in nothing but ownership / pointer conversions"""
        for _ in range(24):
            if e[0] in ("ref", "deref"):
                e = e[1]
            elif e[0] == "cast":
                e = e[3]
            elif e[0] == "call" and len(e[2]) == 1 and CARRY.search(str(e[1])):
                e = e[2][0]
            else:
                break
        return leaf(e), e
    sn = ctx.fn("lace::symbol::StaticSource::new")
    aggs_sn = [s_ for b, i_, s_ in sn.assigns() if s_["r"]["k"] == "agg" and str(s_["r"].get("adt", "")).endswith("symbol::StaticSource")]
    ctx.instance(1)
    ok_sn, at_sn = len(aggs_sn) == 1, ("unknown",)
    if ok_sn:
        for op in aggs_sn[0]["r"]["ops"]:
            good, at_sn = carrier(sn.expr(op, 16), lambda x: x[0] == "arg" and x[1] == 1)
            ok_sn = ok_sn and good
    ctx.oblig(ok_sn, {"StaticSource::new stores": expr_str(sn.expr(aggs_sn[0]["r"]["ops"][0], 16), 80) if aggs_sn else "?"}, "the parameter, boxed")
    if not ok_sn:
        ctx.violation("source-holder-changes-text|new", sn.file_line(), "StaticSource::new does not store the text it is handed but `%s`: every command assembles another text "
                      "than the file holds (the words of string literals and every source position can differ)" % expr_str(at_sn, 80))
    sa = ctx.fn("lace::symbol::StaticSource::src")
    ctx.instance(1)
    good, at_sa = carrier(sa.local_expr(0, 16), lambda x: x[0] == "field" and kit.strip_refs(x[1])[:2] == ("arg", 1))
    ctx.oblig(good, {"StaticSource::src returns": expr_str(sa.local_expr(0, 16), 80)}, "a view of the stored text")
    if not good:
        ctx.violation("source-holder-changes-text|src", sa.file_line(), "StaticSource::src does not hand back the stored text but `%s`" % expr_str(at_sa, 80))
    ctx.finish_rule()


def _arg_place(fn, op):
    """the place an argument refers to, looking through `&*x` temporaries"""
    p = op_place(op)
    for _ in range(4):
        if p is None:
            break
        if p.get("pr"):
            return p
        sd = fn.single_def(p["l"])
        if sd and sd[0] == "stmt" and sd[3]["r"]["k"] == "ref":
            q = sd[3]["r"]["p"]
            if q.get("pr") == ["*"] or not q.get("pr"):
                p = {"l": q["l"]}
                continue
            return q
        if sd and sd[0] == "stmt" and sd[3]["r"]["k"] == "use":
            p = op_place(sd[3]["r"]["a"])
            continue
        break
    return p or {"l": 0}


_W = {}


def _fn_width(ctx, name):
    if name in _W:
        return _W[name]
    prog = ctx.prog
    f = prog.fns[name]
    w = 0
    if name.endswith("Flag::bits"):
        tab = tables.enum_const_table(prog, f, "lace::symbol::Flag")
        w = max(v[1].bit_length() for v in tab.values() if v and v[0] == "const")
    else:
        for sb, place, targets, oth in kit.discr_switches(f, "lace::air::ImmediateOrReg"):
            for vi, tb in targets.items():
                ev = ArmEval(ctx, f, lambda c, t, e: None)
                r = _run_plain(ev, tb)
                if r is not None:
                    w = max(w, r.width())
    _W[name] = w or 16
    return _W[name]


def _run_plain(ev, entry):
    """evaluate a straight arm whose result is stored directly in the return place"""
    fn = ev.fn
    b = entry
    seen = set()
    res = None
    while b is not None and b not in seen:
        seen.add(b)
        for s in fn.stmts(b):
            if s["k"] == "assign" and place_is_local(s["p"]):
                v = ev.rvalue(s["r"])
                ev.env[s["p"]["l"]] = v
                if s["p"]["l"] == 0:
                    res = v
        t = fn.term(b)
        if t["k"] in ("goto", "assert", "drop"):
            b = t["t"]
        else:
            break
    return res


def _bitname(x):
    if isinstance(x, tuple):
        return "%s[%d]" % (x[1], x[2])
    return str(x)


def _arm_line(fn, targets, vnames, name):
    for vi, tb in targets.items():
        if vnames[vi] == name:
            return sp_file_line(fn.term(tb).get("sp") or (fn.stmts(tb)[0].get("sp") if fn.stmts(tb) else fn.span))
    return fn.file_line()


def _is_lit_payload(e):
    """the numeric payload of a Lit(Hex(..)) / Lit(Dec(..)) token, possibly cast"""
    while e[0] == "cast":
        e = e[3]
    s = expr_str(e, 200)
    return e[0] == "field" and ("Hex" in s or "Dec" in s) and "kind" in s
