"""C17 — the debugger's view of source and symbols matches the assembler's."""
import re
from ..facts import callee_of, short, sp_file_line, expr_str, expr_walk, place_is_local, const_int
from .. import tables
from .. import kit, dbg, formula
from ..effects import Effects
from ..linear import lin, show, same

EXPLANATION = (
    "R1 (LIN): every address/line computation in assembler, loader, symbol lookup and source lookup is reduced to a "
    "linear form modulo 2^16 and compared with the one convention address = origin + line - 1 (line = index + 1). "
    "R2 (SIGN): no ordering comparison or checked addition on an address reinterpreted as i16 in the debugger's address "
    "arithmetic (labels at 0x8000 and above must resolve). R3: every operand-consuming parser routine sets the span end "
    "to offs+len of the consumed token on its success path, and the statement span is [first.offs, tok_end) or the "
    "mnemonic's own span. R4: directive words carry join(directive, literal), and join is [min offs, max end). "
    "R5 (EFF): the debugger's source view is built from the very AIR the image was emitted from and is never written."
    ' R4 is decided on emission summaries with call identity (directive token vs operand token). R7: a prefix label taken by the parser is entered into the symbol table on every way to the next statement. R8: the functions of the source view that print a slice of the stored source do so under an output category whose writer arm does not scan the text (the markup categories are read from DebuggerWriter::write_str). R11: a function of the source view that returns Some(piece of the stored source) returns the slice under the span itself, nothing computed from it. R9 (TAB): every lexer scan that can end in an identifier has a predicate that is false on each separator character of the lexer (is_whitespace evaluated over ASCII), so a label name never contains its colon.'
    " R1 also: the offset helper is evaluated on a grid of origins, addresses and offsets around both bounds and must answer Some(address + offset) exactly for sums in [origin, 0xFE00); the statement lookup is bounded by the statement count itself."
    " R10: the Display implementation of output::Decolored (the --minimal filter) singles out only ESC and m and calls no character-class predicate."
)
NOT_DECIDED = "equality of the shown text with the intended statement text for every layout (comments glued to operands etc.)"

ORDER_OPS = ("Lt", "Le", "Gt", "Ge")


def some_payloads(fn):
    """expressions wrapped in Some(..)/Ok(..) assigned to the return place"""
    out = []
    for b, i, s in fn.assigns():
        if s["p"]["l"] == 0 and place_is_local(s["p"]) and s["r"]["k"] == "agg" and s["r"].get("variant") in ("Some", "Ok"):
            out.append((b, s, fn.expr(s["r"]["ops"][0], 12)))
    # `cond.then_some(value)` handed back directly: Some(value) or None
    for b, t, c in fn.calls():
        if c and re.search(r"bool>::then_some$", c) and t["dest"]["l"] == 0 and not t["dest"].get("pr") and len(t["args"]) == 2:
            out.append((b, t, fn.expr(t["args"][1], 14)))
    return out


def run(ctx):
    prog = ctx.prog

    # ------------------------------------------------------------------ R1
    ctx.rule("C17.R1", "one address convention: address = origin + line - 1", floor=6)

    def check(desc, where, l, const, syms):
        ctx.instance(1)
        ok = same(l, const, syms)
        ctx.oblig(ok, {"site": desc, "form": show(l)}, "linear form equals the convention")
        if not ok:
            ctx.violation("lin|%s" % desc, where, "%s: computed `%s`, which is not the convention (expected const %+d and symbols %s)"
                          % (desc, show(l), const if const < 32768 else const - 65536, [m if isinstance(m, str) else "…" for m, _ in syms]))

    # (a) label -> line - 1
    closures = [f for n, f in prog.fns.items() if n.startswith("lace::debugger::resolve_symbol_address::{closure") and f.bkind == "fn"]
    ctx.need(closures, "symbol-address lookup closure")
    pays = [p for f in closures for p in [(f, x) for x in some_payloads(f)]]
    ctx.need(pays, "Some(..) result of the symbol-address lookup")
    for f, (b, s, e) in pays:
        ctx.analysed_fns.add(f.name)
        check("label lookup returns table line - 1", sp_file_line(s.get("sp")), lin(e), -1, [("get(", 1)])
    # (b) + origin, passed with the label's offset to the offset helper
    rl = ctx.fn("lace::debugger::Debugger::resolve_label")
    calls = [(b, t) for b, t, c in rl.calls() if c == "lace::debugger::Debugger::add_address_offset"]
    ctx.need(len(calls) == 1, "resolve_label -> add_address_offset call")
    b, t = calls[0]
    check("label address = (line - 1) + origin", sp_file_line(t.get("sp")), lin(rl.expr(t["args"][1], 12)), 0,
          [("resolve_symbol_address", 1), ("orig(", 1)])
    eo = rl.expr(t["args"][2], 6)
    ok = "offset" in kit.expr_fields(eo)
    ctx.oblig(ok, {"offset argument": expr_str(eo)}, "label.offset")
    if not ok:
        ctx.violation("label-offset-arg", sp_file_line(t.get("sp")), "resolve_label passes `%s` as offset, not the label's own offset" % expr_str(eo))
    # (c) helper returns address + offset
    ao = ctx.fn("lace::debugger::Debugger::add_address_offset")
    pays = some_payloads(ao)
    ctx.need(pays, "Some(..) result of add_address_offset")
    for b, s, e in pays:
        check("offset helper returns address + offset", sp_file_line(s.get("sp")), lin(e), 0, [("address", 1), ("offset", 1)])
    # ... for exactly the sums that lie in user space: the helper's answer is evaluated on a grid of origins, addresses and offsets around
    # both ends (a bound drawn tighter - the end of the program, say - makes `label+offset` and `^offset` refuse words that exist)
    try:
        tree_ao = formula.decision(ao)
    except formula.NotATree:
        tree_ao = None
    bad_ao = None
    if tree_ao is not None:
        UME = 0xFE00
        for orig_ in (0x0000, 0x3000, 0xFDF0):
            for addr_ in sorted({orig_, orig_ + 1, orig_ + 9, 0x8000, UME - 1} & set(range(orig_, UME))):
                for off_ in (0, 1, -1, 2, 9, -9, 300, -300, 0x7FFF, -0x8000, UME - 1 - addr_, UME - addr_, orig_ - addr_, orig_ - addr_ - 1):
                    if not -0x8000 <= off_ <= 0x7FFF:
                        continue
                    def sub(e, _o=orig_):
                        if e[0] == "call" and str(e[1]).endswith("Debugger::orig") and len(e[2]) == 1:
                            return _o
                        return None
                    env = {"subst": sub, "prog": prog, "args": {2: addr_, "address": addr_, 3: off_, "offset": off_}, "bool_not": True}
                    try:
                        lab = formula.eval_decision(tree_ao, env)
                        if isinstance(lab, tuple) and lab and lab[0] == "call" and str(lab[1]).endswith("::from_residual"):
                            got = ("variant", "None", "core::option::Option", ())          # `?` on a None in a function that answers with an Option
                        else:
                            got = formula.evaluate(lab, env) if lab is not None else None
                    except (formula.Unknown, formula.Overflow) as ex:
                        got = "undecided (%s)" % ex
                    want = ("variant", "Some", "core::option::Option", (addr_ + off_,)) if orig_ <= addr_ + off_ < UME else ("variant", "None", "core::option::Option", ())
                    if not (isinstance(got, tuple) and got[:2] == want[:2] and tuple(got[3]) == want[3]):
                        bad_ao = (orig_, addr_, off_, got, want)
                        break
                if bad_ao:
                    break
            if bad_ao:
                break
    ctx.instance(1)
    ctx.oblig(tree_ao is not None and bad_ao is None, {"offset helper": "Some(address + offset) iff origin <= address + offset < 0xFE00"}, "evaluated on a grid around both bounds")
    if tree_ao is None or bad_ao:
        ctx.violation("offset-helper-bounds", ao.file_line(), "add_address_offset does not answer Some(address + offset) exactly for the sums inside [origin, 0xFE00): %s"
                      % ("its structure cannot be unfolded" if tree_ao is None else "origin x%04X, address x%04X, offset %d gives %s, expected %s" % (bad_ao[0], bad_ao[1], bad_ao[2], _show_opt(bad_ao[3]), _show_opt(bad_ao[4]))))
    # (d) address -> statement index
    gs = ctx.fn("lace::debugger::asm::AsmSource::get_source_statement")
    idx = [(b, t) for b, t, c in gs.calls() if c and (c.endswith("[T]>::get") or c.endswith("::get_unchecked") or c.endswith("Index<I>>::index"))]
    ctx.need(idx, "statement lookup by index in get_source_statement")
    for b, t in idx:
        check("statement index = address - origin", sp_file_line(t.get("sp")), lin(gs.expr(t["args"][1], 12)), 0,
              [("address", 1), (".orig", -1)])
        # guards: address >= orig and index < len dominate the lookup
        conds = []
        for d in sorted(gs.dominators()[b]):
            tt = gs.term(d)
            if tt["k"] == "switch":
                conds.append((gs.expr(tt["a"], 12), [x for v, x in tt["targets"] if v == 0], tt["otherwise"], d))
        lower = any(c[0] == "bin" and c[1] == "Lt" and "address" in expr_str(c[2]) and "orig" in expr_str(c[3]) and gs.dominates(z[0], b)
                    for c, z, o, d in conds if z)
        def plain_len(e_):
            # the statement count itself, not the count less one or plus one (the last statement has index len - 1)
            e_ = kit.strip_casts(e_)
            return e_[0] == "call" and re.search(r"::len$", str(e_[1])) is not None and len(e_[2]) == 1
        upper = any(c[0] == "bin" and c[1] == "Ge" and plain_len(c[3]) and same(lin(c[2]), 0, [("address", 1), (".orig", -1)]) and gs.dominates(z[0], b)
                    for c, z, o, d in conds if z)
        # equivalent idioms: `address.checked_sub(origin)?` is the lower guard, and a `get()` whose Option is handed on (never unwrapped)
        # is its own upper guard
        idx_txt = expr_str(gs.expr(t["args"][1], 14), 600)
        lower = lower or ("checked_sub(" in idx_txt and "branch(" in idx_txt)
        unwraps = [c2 for b2, t2, c2 in gs.calls() if c2 and re.search(r"(Option|Result)::<[^>]*>::(unwrap|expect)$", c2)]
        upper = upper or ((callee_of(t) or "").endswith("[T]>::get") and not unwraps)
        for nm, okk in (("address >= origin", lower), ("address - origin < len", upper)):
            ctx.oblig(okk, {"lookup guard": nm}, "dominating comparison")
            if not okk:
                ctx.violation("lookup-guard|%s" % nm, sp_file_line(t.get("sp")),
                              "the statement lookup is not guarded by `%s`: addresses holding no statement would show one, or the last statement of the program none" % nm)
    # (e) reverse lookup: line == (address - origin) + 1
    rn = [f for n, f in prog.fns.items() if n.startswith("lace::debugger::resolve_symbol_name::{closure") and f.bkind == "fn"]
    ctx.need(rn, "symbol-name lookup closure")
    found = False
    for f in rn:
        ctx.analysed_fns.add(f.name)
        # the comparison is the condition of a branch (loop form) or the value a predicate closure returns (`find(|(_, a)| **a == address + 1)`)
        cands = [(f.expr(f.term(bb)["a"], 12, stop={"named"}), f.term(bb).get("sp")) for bb in sorted(f.live_blocks()) if f.term(bb)["k"] == "switch"]
        cands += [(f.rvalue_expr(s_["r"], 12, stop={"named"}), s_.get("sp")) for bb, i_, s_ in f.assigns() if s_["p"]["l"] == 0 and place_is_local(s_["p"]) and s_["r"]["k"] == "bin"]
        for c, csp in cands:
                if c[0] == "bin" and c[1] in ("Eq", "Ne"):
                    for side, other in ((c[2], c[3]), (c[3], c[2])):
                        l = lin(side)
                        lo = lin(other)
                        # by shape, not by the names of the locals: `<table entry> == <one symbol> + 1`
                        if lo[0] == 0 and len(lo[1]) == 1 and list(lo[1].values()) == [1] and len(l[1]) == 1 and l[0] != 0 and set(l[1]) != set(lo[1]):
                            found = True
                            check("reverse lookup compares table line with index + 1", sp_file_line(csp), l, 1, [(lambda s: True, 1)])
    ctx.need(found, "comparison in the symbol-name lookup")
    disp, sw_bb, arms, sp, selfp = dbg.dispatcher(ctx)
    # closures of the dispatcher calling resolve_symbol_name: argument = address - orig
    for n, f in prog.fns.items():
        if f.bkind != "fn" or not n.startswith("lace::debugger::"):
            continue
        for b, t, c in f.calls():
            if c == "lace::debugger::resolve_symbol_name":
                ctx.analysed_fns.add(n)
                check("reverse lookup is given address - origin", sp_file_line(t.get("sp")), lin(f.expr(t["args"][0], 12)), 0,
                      [("address", 1), ("orig(", -1)])
    # (f) context range: line + origin - 1
    gc = ctx.fn("lace::debugger::asm::AsmSource::get_context_range")
    n_ctx = 0
    for b, i, s in gc.assigns():
        nm = gc.local_name(s["p"]["l"]) if place_is_local(s["p"]) else None
        if nm in ("start_addr", "end_addr"):
            n_ctx += 1
            check("context range address = line + origin - 1", sp_file_line(s.get("sp")), lin(gc.rvalue_expr(s["r"], 6)), -1,
                  [("line", 1), (".orig", 1)])
    ctx.need(n_ctx >= 2, "start/end address computations in get_context_range")
    # (g) statement numbering and (h) loader placement are C01.R5 / C03.R1; restated here as the other half of the convention
    add = ctx.fn("lace::air::Air::add_stmt")
    for b, t, c in add.calls():
        if c == "lace::air::AsmLine::new":
            check("statement number = index + 1", sp_file_line(t.get("sp")), lin(add.expr(t["args"][0], 12)), 1, [("len(", 1)])
    ctx.finish_rule()

    # ------------------------------------------------------------------ R2
    ctx.rule("C17.R2", "unsigned address arithmetic: labels and offsets at 0x8000 and above resolve", floor=3)
    ncmp = 0
    for n, f in sorted(prog.fns.items()):
        if f.bkind != "fn" or not n.startswith("lace::debugger::") or "::command::" in n:
            continue
        for b, i, s in f.assigns():
            r = s["r"]
            if r["k"] == "bin" and r["op"] in ORDER_OPS:
                ncmp += 1
                if r.get("ty") == "i16":
                    ea, eb = f.expr(r["a"], 8), f.expr(r["b"], 8)
                    bad = any(x[0] == "cast" and x[1] == "u16" and x[2] == "i16" for e in (ea, eb) for x in expr_walk(e))
                    ctx.oblig(not bad)
                    if bad:
                        ctx.violation("signed-compare|fn=%s|%s" % (short(n), r["op"]), sp_file_line(s.get("sp")),
                                      "`%s %s %s` orders 16-bit addresses as signed i16: every address 0x8000..0xFDFF compares below "
                                      "the origin, so a label or ^offset landing there is refused (and with an origin >= 0x8000 "
                                      "addresses below it pass)" % (expr_str(ea), r["op"], expr_str(eb)))
                else:
                    ctx.oblig(True)
        for b, t, c in f.calls():
            if c and re.match(r"core::num::<impl i16>::(checked|wrapping|overflowing)_", c):
                ea = f.expr(t["args"][0], 6)
                if any(x[0] == "cast" and x[1] == "u16" and x[2] == "i16" for x in expr_walk(ea)):
                    ncmp += 1
                    ctx.oblig(False)
                    ctx.violation("signed-add|fn=%s" % short(n), sp_file_line(t.get("sp")),
                                  "`%s` adds an offset to an address reinterpreted as i16 (`%s`): the sum overflows although the "
                                  "16-bit address exists (e.g. 0x7FF0 + 0x20)" % (short(c), expr_str(ea)))
    ctx.instance(ncmp, {"ordering comparisons / signed additions inspected": ncmp})
    ctx.finish_rule()

    # ------------------------------------------------------------------ R3
    ctx.rule("C17.R3", "statement spans end at the last consumed operand", floor=2)
    operand_roots = ["lace::parser::AsmParser::parse_instr", "lace::parser::AsmParser::parse_trap"]
    scope = set()
    for r0 in operand_roots:
        ctx.fn(r0)
        scope |= {n for n in ctx.cg.reachable([r0]) if n.startswith("lace::parser::AsmParser::") and n in prog.fns and prog.fns[n].bkind == "fn"}
    consumers = []
    for n in sorted(scope):
        f = prog.fns[n]
        nb = [b for b, t, c in f.calls() if c and c.endswith("Iterator>::next") and "Peekable" in c]
        if nb:
            consumers.append((f, nb))
    for f, nbs in consumers:
        ctx.analysed_fns.add(f.name)
        sets = []
        for b, i, s in f.assigns():
            flds = kit_fields(s["p"])
            if flds and flds[-1] == "tok_end":
                sets.append((b, s))
        okrets = [b for b, i, s in f.assigns() if s["p"]["l"] == 0 and place_is_local(s["p"]) and s["r"]["k"] == "agg" and s["r"].get("variant") == "Ok"]
        for nb in nbs:
            ctx.instance(1)
            ok = bool(sets) and f.must_pass(nb, okrets, [b for b, s in sets])
            ctx.oblig(ok, {"consumer": short(f.name), "sets tok_end on success": ok}, "must-pass from next() to Ok(..)")
            if not ok:
                ctx.violation("tok_end-not-set|fn=%s" % short(f.name), sp_file_line(f.term(nb).get("sp")),
                              "`%s` consumes an operand token but can return Ok without updating the span end: the statement text "
                              "shown by `assembly` would stop before its last operand" % short(f.name))
        for b, s in sets:
            l = lin(f.rvalue_expr(s["r"], 8))
            ok = same(l, 0, [(lambda k_: "offs(" in k_ or ".offs" in k_, 1), (lambda k_: "len(" in k_ or ".len" in k_, 1)])
            ctx.oblig(ok, {"tok_end": show(l)}, "offs + len of the consumed token")
            if not ok:
                ctx.violation("tok_end-value|fn=%s" % short(f.name), sp_file_line(s.get("sp")),
                              "span end is set to `%s`, not to offs+len of the consumed token" % show(l))
    ctx.need(consumers, "operand-consuming parser routines")
    # statement span in parse(): Span::new(SrcOffset(first.offs), len) with len = tok_end - first.offs, or first.len when tok_end < first.offs
    pf = ctx.fn("lace::parser::AsmParser::parse")
    span_calls = [(b, t) for b, t, c in pf.calls() if c == "lace::symbol::Span::new"]
    ctx.need(span_calls, "Span::new for the statement in parse()")
    for b, t in span_calls:
        ctx.instance(1)
        a0 = pf.expr(t["args"][0], 8)
        ok0 = "offs(" in expr_str(a0) and "tok" in expr_str(a0)
        lenl = t["args"][1]
        e1 = pf.expr(lenl, 2)
        forms = []
        lins = []
        if e1[0] == "local":
            for kind, db, i, node in pf.defs().get(e1[1], []):
                if kind == "stmt":
                    lins.append(lin(pf.rvalue_expr(node["r"], 8)))
                elif kind == "call":
                    lins.append(lin(("call", callee_of(node), tuple(pf.expr(a, 6) for a in node["args"]))))
        forms = [show(x) for x in lins]
        want_sub = any(same(x, 0, [("tok_end", 1), ("offs(", -1)]) for x in lins)
        want_len = any(same(x, 0, [("len(", 1)]) for x in lins)
        ok0 = "offs(" in expr_str(a0)
        ok = ok0 and want_sub and want_len and len(forms) == 2
        ctx.oblig(ok, {"statement span": "offs=%s len in %s" % (expr_str(a0), forms)}, "[first.offs, tok_end) or the mnemonic's own span")
        if not ok:
            ctx.violation("stmt-span", sp_file_line(t.get("sp")),
                          "statement span is built from offs=`%s`, len in %s: expected first token's offs and {tok_end - offs, len(first)}"
                          % (expr_str(a0), forms))
    ctx.finish_rule()

    # ------------------------------------------------------------------ R4
    ctx.rule("C17.R4", "directive words carry join(directive, literal); join is [min offs, max end)", floor=5)
    pp = ctx.fn("lace::parser::preprocess")
    from .. import emis
    DK = "lace::symbol::DirKind"
    dsws = list(kit.discr_switches(pp, DK))
    ctx.need(bool(dsws), "the directive dispatch in preprocess")
    dsw = max(dsws, key=lambda s_: len(s_[2]))
    dn = {v["name"]: v["idx"] for v in prog.adt(DK)["variants"]}
    CID = {"callid"}

    def token_of(e):
        """block of the `advance_real` call whose token e is a part of"""
        x = e
        for _ in range(24):
            if x[0] in ("field", "downcast", "ref", "deref"):
                x = x[1]
            elif x[0] == "cast":
                x = x[3]
            elif x[0] == "call" and str(x[1]).endswith("::branch") and len(x[2]) == 1:
                x = x[2][0]
            elif x[0] == "call" and str(x[1]).endswith("::advance_real") and len(x) > 3:
                return x[3]
            else:
                return None
        return None

    dir_tok = token_of(pp.place_expr(dsw[1], 12, CID))
    ctx.need(dir_tok is not None, "the directive token of preprocess's dispatch (an advance_real result)")
    n_tok = 0
    for name in ("Fill", "Blkw", "Stringz"):
        if dn.get(name) not in dsw[2]:
            ctx.need(False, "the .%s arm of preprocess" % name.lower())
            continue
        reg = kit.dominated_region(pp, dsw[2][dn[name]])
        for x in emis.emissions(prog, pp, reg, CID):
            n_tok += 1
            ctx.instance(1)
            okk, desc = False, "?"
            if x["span"] is not None:
                sf, se = x["span"]
                while se[0] in ("ref", "deref"):
                    se = se[1]
                desc = expr_str(se, 160)
                if se[0] == "call" and se[1] == "lace::symbol::Span::join" and len(se[2]) == 2:
                    parts = []
                    for a_ in se[2]:
                        while a_[0] in ("ref", "deref"):
                            a_ = a_[1]
                        parts.append(token_of(a_[1]) if a_[0] == "field" and a_[2] == "span" else None)
                    # the directive's own token and the operand token read inside this arm
                    okk = dir_tok in parts and any(q is not None and q != dir_tok and q in reg for q in parts)
                    desc = "join(%s)" % ", ".join("directive" if q == dir_tok else "operand" if q in reg else "?" for q in parts)
            elif x["kind"] == "other":
                desc = x.get("what", "?")
            ctx.oblig(okk, {"directive word span": desc, "at": sp_file_line(x.get("sp")), "directive": name}, "Span::join(dir.span, val.span)")
            if not okk:
                ctx.violation("directive-span|%s|%s" % (name.lower(), x["kind"]), sp_file_line(x.get("sp")),
                              "a data word of .%s gets span `%s` instead of join(directive, literal)" % (name.lower(), desc))
    ctx.need(n_tok >= 3, "word emissions in the .fill/.blkw/.stringz arms of preprocess (found %d)" % n_tok)
    jf = ctx.fn("lace::symbol::Span::join")
    for b, t, c in jf.calls():
        if c == "lace::symbol::Span::new":
            ctx.instance(1)
            a0 = expr_str(jf.expr(t["args"][0], 10))
            a1 = jf.expr(t["args"][1], 10)
            s1 = expr_str(a1)
            ok = ("min(offs(" in a0) and a1[0] == "bin" and a1[1] == "Sub" and "max(end(" in expr_str(a1[2]) and "min(offs(" in expr_str(a1[3])
            ctx.oblig(ok, {"join": "Span::new(%s, %s)" % (a0, s1)}, "offs = min offs, len = max end - min offs")
            if not ok:
                ctx.violation("join-shape", sp_file_line(t.get("sp")), "Span::join builds Span::new(%s, %s): expected (min offs, max end - min offs)" % (a0, s1))
    ctx.finish_rule()

    # ------------------------------------------------------------------ R5
    ctx.rule("C17.R5", "the debugger's source view comes from the emitted AIR and is never written", floor=3)
    eff = Effects(prog)
    newf = ctx.fn("lace::debugger::Debugger::new")
    # asm_source field never assigned outside the constructor aggregate
    nsite = 0
    for n, f in sorted(prog.fns.items()):
        if f.bkind != "fn":
            continue
        for b, i, s in f.assigns():
            flds = [(e.get("adt"), e.get("n")) for e in s["p"].get("pr", []) if isinstance(e, dict) and "f" in e]
            if ("lace::debugger::Debugger", "asm_source") in flds or any(a == "lace::debugger::asm::AsmSource" for a, _ in flds):
                nsite += 1
                ctx.violation("asm-source-write|fn=%s" % short(n), sp_file_line(s.get("sp")), "`%s` writes the debugger's source view" % short(n))
            r = s["r"]
            if r["k"] in ("ref", "rawptr") and (r.get("bk") == "mut" or "Mut" in str(r.get("bk"))):
                flds = [(e.get("adt"), e.get("n")) for e in r["p"].get("pr", []) if isinstance(e, dict) and "f" in e]
                if ("lace::debugger::Debugger", "asm_source") in flds:
                    nsite += 1
                    ctx.violation("asm-source-mutborrow|fn=%s" % short(n), sp_file_line(s.get("sp")), "`%s` mutably borrows the debugger's source view" % short(n))
    ctx.oblig(nsite == 0, {"writes to Debugger.asm_source": nsite}, "whole-crate scan")
    # construction: AsmSource::from(orig, ast, src) with the constructor's own parameters; try_from passes air.ast / air.src / loaded pc
    for b, t, c in newf.calls():
        if c == "lace::debugger::asm::AsmSource::from":
            ctx.instance(1)
            args = [expr_str(newf.expr(a, 6)) for a in t["args"]]
            ok = "pc(" in args[0] and args[1] == "ast" and args[2] == "src"
            ctx.oblig(ok, {"AsmSource::from": args}, "origin from the initial state, ast and src as given")
            if not ok:
                ctx.violation("asm-source-args", sp_file_line(t.get("sp")), "AsmSource::from(%s): expected (initial_state.pc(), ast, src)" % ", ".join(args))
    tf = ctx.fn("lace::runtime::RunEnvironment::try_from")
    for b, t, c in tf.calls():
        if c == "lace::debugger::Debugger::new":
            ctx.instance(1)
            args = [expr_str(tf.expr(a, 4, stop={"named"})) for a in t["args"]]
            ok = any(a == "air.ast" for a in args) and any(a == "air.src" for a in args)
            ctx.oblig(ok, {"Debugger::new": args}, "air.ast and air.src of the emitted AIR")
            if not ok:
                ctx.violation("debugger-new-args", sp_file_line(t.get("sp")), "Debugger::new(%s): the source view is not built from the emitted AIR" % ", ".join(args))
    # the image is emitted from the same `air`
    emits = [b for b, t, c in tf.calls() if c == "lace::air::AsmLine::emit"]
    ctx.oblig(bool(emits), {"image emitted from": "the same `air` (loop in try_from)"}, "emit call in try_from")
    ctx.instance(1)
    ctx.finish_rule()

    # ------------------------------------------------------------------ R6
    ctx.rule("C17.R6", "the debugger reads names with the assembler's alphabet: a register is r/R + 0-7 + end of identifier, labels use the lexer's identifier characters", floor=3)
    ISID = "lace::lexer::is_id"
    LBL = "lace::debugger::command::parse::label::"
    ctx.fn(ISID)
    try:
        idset = tables.char_pred_set(prog, ISID)
    except (formula.Unknown, formula.Overflow, formula.NotATree) as ex_:
        idset = set()
        ctx.need(False, "the lexer's identifier predicate in a form that can be evaluated character by character (%s: %s)" % (type(ex_).__name__, ex_))
    ctx.need(len(idset) == 63, "lexer identifier alphabet (a-z A-Z 0-9 _): %d characters" % len(idset))
    for nm_, want, what in ((LBL + "can_contain", idset, "label continuation"), (LBL + "can_start_with", {c for c in idset if not (48 <= c <= 57)}, "label start")):
        ctx.fn(nm_)
        got = tables.char_pred_set(prog, nm_)
        ctx.instance(1)
        ok = got == want
        ctx.oblig(ok, {what: tables.show_chars(got)}, "lexer identifier characters" + ("" if what == "label continuation" else " minus digits"))
        if not ok:
            ctx.violation("label-alphabet|%s" % what, prog.fns[nm_].file_line(), "the debugger's %s characters are {%s}, the assembler's are {%s}: labels the assembler defines cannot be named, or names it never defines are accepted"
                          % (what, tables.show_chars(got), tables.show_chars(want)))
    sr = ctx.fn("lace::debugger::command::parse::naive::NaiveType::is_str_register")
    preds = []
    for b, t, c in sr.calls():
        if c and c.endswith("Option::<T>::is_some_and"):
            for cl in t["f"].get("closures", []):
                preds.append((b, cl[3:] if cl.startswith("fn:") else cl))
    ctx.need(len(preds) == 3, "three character tests in the register classifier (found %d)" % len(preds))
    sets_ = [tables.char_pred_set(prog, n) for b, n in preds]
    ctx.instance(1)
    ok = sets_[0] == {ord("r"), ord("R")} and sets_[1] == set(range(ord("0"), ord("8"))) and sets_[2] == idset
    ctx.oblig(ok, {"register classifier": [tables.show_chars(x) for x in sets_]}, "[rR] [0-7] then no identifier character")
    if not ok:
        ctx.violation("register-shape", sr.file_line(), "the argument classifier calls a name a register when it reads {%s}{%s} not followed by {%s}; the lexer's registers are [rR][0-7] "
                      "not followed by an identifier character {%s}: names such as r10 are labels for the assembler but registers for the debugger"
                      % (tables.show_chars(sets_[0]), tables.show_chars(sets_[1]), tables.show_chars(sets_[2]), tables.show_chars(idset)))
    ctx.finish_rule()

    # ------------------------------------------------------------------ R7
    # a prefix label the parser has taken must be in the symbol table before the parser goes on to the next statement, whatever
    # follows it (`.orig` and `.break` leave the iteration early): otherwise the statement exists but the debugger cannot name it
    ctx.rule("C17.R7", "every prefix label taken by the parser is entered into the symbol table before the next statement", floor=1)
    pf = ctx.fn("lace::parser::AsmParser::parse")
    ol = [(b, t) for b, t, c in pf.calls() if c == "lace::parser::AsmParser::optional_label"]
    ctx.need(len(ol) >= 1, "optional_label call in parse()")
    ins = {b for b, t, c in pf.calls() if c == "lace::symbol::Label::insert"}
    errb = kit.error_blocks(pf)
    lps = kit.loops(pf)
    ctx.need(lps, "the statement loop of parse()")
    outer = max(lps, key=lambda h: len(lps[h][0]))
    rets = {b for b in pf.live_blocks() if pf.term(b)["k"] == "return"}
    for b, t in ol:
        ctx.instance(1)
        some = kit.ok_target_of_call(pf, b)
        ok = some is not None
        leak = None
        if ok:
            # from "a label was taken" to the next iteration (or to a successful return) without an insert
            reach = pf.reachable(some, avoid=ins | errb | {b})
            nxt = {x for x in reach if b in pf.succ_map()[x] or outer in pf.succ_map()[x]} if b != outer else {x for x in reach if outer in pf.succ_map()[x]}
            okret = {x for x in reach & rets}
            leak = sorted(nxt | okret)
            ok = not leak
        ctx.oblig(ok, {"prefix label": "Label::insert on every way to the next statement", "insert sites": len(ins)}, "must-pass-through")
        if not ok:
            p = pf.path(some, set(leak), avoid=ins | errb) if some is not None and leak else None
            ctx.violation("label-not-registered", sp_file_line(t.get("sp")),
                          "parse() can take a prefix label and move on to the next statement without entering it into the symbol table (path lines %s): "
                          "the labelled statement is assembled, but the debugger answers Labels::NotFound for its name"
                          % (pf.path_lines(p) if p else "?"))
    ctx.finish_rule()

    # ------------------------------------------------------------------ R8
    # the statement text is shown as it stands: the functions that print a slice of the stored source do so under an output category whose
    # writer passes text through - not under one whose writer arm scans the text for markup (`{...}` is cut out or turned into an escape code)
    ctx.rule("C17.R8", "source text is printed under a category that does not rewrite it", floor=2)
    CAT = "lace::output::Category"
    wr = [f for n, f in prog.fns.items() if f.bkind == "fn" and re.search(r"output::DebuggerWriter as core::fmt::Write>::write_str$", n)]
    ctx.need(len(wr) == 1, "the debugger writer's write_str")
    wr = wr[0]
    cat_adt = prog.adt(CAT)
    ctx.need(cat_adt is not None, "the output Category enum")
    vname = {v["idx"]: v["name"] for v in cat_adt["variants"]}
    markup = set()
    nsw = 0
    for sb, place, targets, oth in kit.discr_switches(wr, CAT):
        nsw += 1
        shared = None
        for vi, tb in targets.items():
            # blocks only this arm reaches before the arms join (or the function returns)
            others = set()
            for vj, tj in targets.items():
                if tj != tb:
                    others |= wr.reachable(tj)
            own = wr.reachable(tb) - others
            scans = any(c and re.search(r"Chars<'a> as core::iter::traits::iterator::Iterator>::next$|CharIndices<'a> as core::iter::traits::iterator::Iterator>::next$|str>::(replace|replacen|find|split)$", c)
                        for b, t, c in wr.calls() if b in own)
            if scans:
                markup.add(vname.get(vi, str(vi)))
    ctx.need(nsw >= 1, "match on the category in the debugger writer")
    ctx.instance(1)
    ctx.oblig(True, {"categories whose writer arm scans the text": sorted(markup)}, "read from DebuggerWriter::write_str")
    nshow = 0
    for n, f in sorted(prog.fns.items()):
        if f.bkind != "fn" or not n.startswith("lace::debugger::asm::"):
            continue
        pcs = [(b, t) for b, t, c in f.calls() if c == "lace::output::Output::print_category"]
        if not pcs:
            continue
        def slices_src(g):
            return any(c and re.search(r"Index<I> for str>::index$|str>::get$", c) and "src" in expr_str(g.expr(t["args"][0], 6), 200) for b, t, c in g.calls())
        # ... itself, or through a helper of the source view that hands the slice back
        reads_src = slices_src(f) or any(m in prog.fns and m.startswith("lace::debugger::asm::") and prog.fns[m].bkind == "fn" and slices_src(prog.fns[m])
                                         for m in ctx.cg.reachable([n]))
        if not reads_src:
            continue
        for b, t in pcs:
            nshow += 1
            ctx.instance(1)
            e = kit.strip_refs(f.expr(t["args"][1], 6))
            cat = e[1][2] if e[0] == "agg" and e[1][0] == "adt" and len(e[1]) > 2 else None
            ok = cat is not None and cat not in markup
            ctx.oblig(ok, {"source text printed in": short(n), "category": cat}, "not a markup category")
            if not ok:
                ctx.violation("source-text-category|%s" % short(n), sp_file_line(t.get("sp")),
                              "`%s` prints the statement text under category %s, whose writer arm scans the text for `{...}` markup: a statement containing a brace "
                              "(a .stringz literal) is shown with the braced part cut out" % (short(n), cat or "computed at run time"))
    ctx.need(nshow >= 1, "a function of the source view that prints a slice of the stored source")
    ctx.finish_rule()

    # ------------------------------------------------------------------ R11
    # what the source view hands back for a statement is the stored text under the statement's span, whole: a function of the view that
    # returns Some(piece of src) returns the slice itself, with nothing computed from it in between (first line only, trimmed, ...)
    ctx.rule("C17.R11", "the source view hands back the text under a statement's span unchanged", floor=1)
    IDX = r"Index<I> for str>::index$"
    def _peel(e):
        while e and e[0] in ("ref", "deref") and len(e) > 1:
            e = e[1]
        return e
    nret = 0
    for n, f in sorted(prog.fns.items()):
        if f.bkind != "fn" or not n.startswith("lace::debugger::asm::"):
            continue
        for kind, db, i, node in f.defs().get(0, []):
            if kind != "stmt":
                # `self.src.get(range)` as the returned value: the checked form of the same slice
                cal = callee_of(node) if kind == "call" else None
                if cal and re.search(r"str>::get$", cal) and node.get("args") and "src" in expr_str(f.expr(node["args"][0], 6), 200):
                    nret += 1
                    ctx.instance(1)
                    ctx.oblig(True, {"returned by": short(n), "value": "src.get(span)"}, "the slice src[span] itself")
                continue
            e = f.rvalue_expr(node["r"], 12)
            if not (e[0] == "agg" and e[1][0] == "adt" and len(e[1]) > 2 and e[1][2] == "Some" and len(e) > 2 and e[2]):
                continue
            idx = [x for x in expr_walk(e) if x[0] == "call" and re.search(IDX, str(x[1])) and "src" in expr_str(x, 400)]
            if not idx:
                continue
            nret += 1
            ctx.instance(1)
            top = _peel(e[2][0])
            ok = top[0] == "call" and re.search(IDX, str(top[1])) is not None
            ctx.oblig(ok, {"returned by": short(n), "value": expr_str(top, 160)}, "the slice src[span] itself")
            if not ok:
                ctx.violation("source-slice-reworked|%s" % short(n), f.file_line(),
                              "`%s` does not hand back the stored text under the span but something computed from it (`%s`): a statement that spans "
                              "more than what the computation keeps is shown cut" % (short(n), expr_str(top, 200)))
    ctx.need(nret >= 1, "a function of the source view that returns Some(slice of the stored source)")
    ctx.finish_rule()

    # ------------------------------------------------------------------ R9
    # a name ends where a separator begins: every scan of the lexer that can end in an identifier (the identifier routine itself, and the literal
    # scanners that fall back to it) stops at each character the lexer treats as a separator (blank, `,`, `:`); a scan that runs across one
    # puts the `:` of `xsum:` into the label's name, and the debugger then cannot find `xsum`
    ctx.rule("C17.R9", "identifier-producing scans stop at every separator character", floor=3)
    IDENT = "lace::lexer::<impl lexer::cursor::Cursor<'_>>::ident"
    SEPF = "lace::lexer::is_whitespace"
    ctx.fn(IDENT); ctx.fn(SEPF)
    seps = {c for c in tables.char_pred_set(prog, SEPF) if c < 128}
    ctx.need({32, 44, 58} <= seps, "separator characters of the lexer (blank, comma, colon): {%s}" % tables.show_chars(seps))
    nscan = 0
    for n, f in sorted(prog.fns.items()):
        if f.bkind != "fn" or not n.startswith("lace::lexer::"):
            continue
        idcalls = {b for b, t, c in f.calls() if c == IDENT}
        for b, t, c in f.calls():
            if not (c and c.endswith("Cursor::<'sess>::take_while")):
                continue
            if not (n == IDENT or (t.get("t") is not None and idcalls & f.reachable(t["t"]))):
                continue
            preds = [x[3:] if x.startswith("fn:") else x for x in t["f"].get("closures", [])]
            preds = [x for x in preds if x in prog.fns]
            nscan += 1
            ctx.instance(1)
            if len(preds) != 1:
                ctx.oblig(False, {"scan in": short(n)}, "predicate not found")
                ctx.violation("scan-predicate|%s" % short(n), sp_file_line(t.get("sp")), "the predicate of a scan in `%s` that can end in an identifier could not be read" % short(n))
                continue
            try:
                crossed = sorted(c_ for c_ in seps if tables._eval_pred(prog, preds[0], c_) != 0)
            except Exception as ex:
                crossed = None
                why_ = "%s: %s" % (type(ex).__name__, ex)
            ok = crossed == []
            ctx.oblig(ok, {"scan in": short(n), "predicate": short(preds[0]), "separators": tables.show_chars(seps)}, "false on every separator")
            if not ok:
                ctx.violation("scan-crosses-separator|%s" % short(n), sp_file_line(t.get("sp")),
                              "a scan in `%s` that can end in an identifier %s: the separator becomes part of the name (a label written `name:` is entered "
                              "as `name:` and the debugger cannot resolve `name`)"
                              % (short(n), ("keeps reading across {%s}" % tables.show_chars(crossed)) if crossed is not None else "has a predicate that could not be evaluated (%s)" % why_))
    ctx.need(nscan >= 3, "scans that can end in an identifier (hex, dec, ident): found %d" % nscan)
    ctx.finish_rule()

    # ------------------------------------------------------------------ R10
    # in --minimal mode every piece of text - program output, the statement text `assembly` shows - passes the filter that removes colour
    # sequences. It removes those and nothing else: the only characters it singles out are ESC (start of a sequence) and `m` (its end), it
    # asks no character class, and every other character is written. (A filter that also drops "stray control characters" deletes the
    # TABs inside a statement and the control characters a program prints.)
    ctx.rule("C17.R10", "the minimal-mode filter removes colour sequences and nothing else", floor=1)
    dfs = [f for n, f in sorted(prog.fns.items()) if f.bkind == "fn" and re.search(r"<output::Decolored<'_> as core::fmt::Display>::fmt($|::\{closure)", n)]
    ctx.need(dfs, "the Display implementation of output::Decolored")
    singled, classes = set(), set()
    for f in dfs:
        ctx.analysed_fns.add(f.name)
        classes |= {short(c).rsplit("::", 1)[-1] for b, t, c in f.calls() if c and re.search(r"char::methods::<impl char>::is_\w+$", c)}
        for b, i_, s_ in f.assigns():
            r = s_["r"]
            if r["k"] == "bin" and r["op"] in ("Eq", "Ne", "Lt", "Le", "Gt", "Ge") and r.get("ty") == "char":
                singled |= {const_int(o) for o in (r["a"], r["b"]) if const_int(o) is not None}
            if r["k"] == "agg" and r.get("ak") == "array" and r["ops"] and all(o.get("k") == "const" and str(o.get("ty")) == "char" for o in r["ops"]):
                singled |= {const_int(o) for o in r["ops"]}
        for b in f.live_blocks():
            t = f.term(b)
            if t["k"] == "switch" and t.get("ty") == "char":
                singled |= {v for v, x in t["targets"]}
    ctx.instance(1)
    ok = 0x1B in singled and singled <= {0x1B, ord("m")} and not classes
    ctx.oblig(ok, {"characters singled out": sorted(singled), "character classes asked": sorted(classes)}, "ESC and m only, no class")
    if not ok:
        ctx.violation("minimal-filter-drops-text", dfs[0].file_line(),
                      "the --minimal filter singles out the characters %s and asks the classes %s (expected ESC and `m` only): text other than colour sequences is "
                      "changed on its way out - the statement `assembly` shows loses characters the source has, and so does what the program prints"
                      % ([hex(x) for x in sorted(singled)], sorted(classes)))
    ctx.finish_rule()


def kit_fields(p):
    return [e.get("n") for e in p.get("pr", []) if isinstance(e, dict) and "f" in e]


def _show_opt(v):
    if isinstance(v, tuple) and len(v) >= 4 and v[0] == "variant":
        return "%s%s" % (v[1], "(x%04X)" % v[3][0] if v[3] else "")
    return str(v)
