"""C06 — object files round-trip and the loader rejects what it cannot load."""
import re
from ..facts import callee_of, short, sp_file_line, expr_str, expr_walk, op_local, place_is_local, const_int
from .. import kit
from ..panics import run_ledger
from .c07 import command_units, MAIN

EXPLANATION = (
    "R1 (TAB, siblings): the compile arm turns the origin and every emitted word into bytes with u16::to_be_bytes; the loader "
    "rebuilds words with u16::from_be_bytes([b0, b1]) over chunks_exact(2) in index order - any to_le/ne, swapped indices or "
    "different chunk size on one side only is a disagreement. R2: one default origin (0x3000) on both sides. R3: every write "
    "to the destination handle is enumerated: one 2-byte buffer for the origin on every path of the if-let, one 2-byte buffer "
    "per emitted word, nothing else - 2(n+1) bytes. R4: loader guards - odd length is an error that dominates the conversion; "
    "an empty image and an image with orig + n + 1 > 0x10000 are error exits (C03.R1); every branch that diverts a file away from "
    "the load (in run() before from_raw, and inside from_raw) is classified into the closed set {no/unknown extension, debugger attached, "
    "I/O error, odd length, empty, does not fit below 0x10000} - any other refusal rejects a loadable file; both sources of a run converge "
    "on the same from_raw. R5 (PANIC): closed panic ledger of the object-file path of run() and of from_raw."
    ' R3 also accepts the staged form (pairs converted when stored, written by a drain loop) and the closure form of the word loop. R4 also requires the parity test to read the length of the buffer that is paired into words. R2 also: Air::set_orig stores Some(value) as given and Air::orig hands the field back as it is, so the origin written is the operand of .orig for every value (x0000 included).'
)

NOT_DECIDED = "behavioural equality of running the file vs. the source beyond R1-R4 and C03"

RUN = "bin::run"
FROM_RAW = "lace::runtime::RunEnvironment::from_raw"


def run(ctx):
    prog = ctx.prog
    main = ctx.fn(MAIN)
    runf = ctx.fn(RUN)
    units = dict(command_units(ctx, main))
    ctx.need("Compile" in units, "Compile arm")
    region = main.reachable(units["Compile"])

    conv_w = [(b, t, c) for b, t, c in main.calls() if b in region and c and re.search(r"<impl u16>::to_(be|le|ne)_bytes$", c)]

    def origin_staged():
        """the origin is the first element of the staged word vector: one push of `orig or default` outside every loop, in front of the
        loop that pushes one emitted word per statement, and ONE loop over the whole vector converts and writes each element.
        Returns the header of that drain loop, else None."""
        lps_ = kit.loops(main)
        if len(conv_w) != 1:
            return None
        cb = conv_w[0][0]
        hdrs = [hh for hh, (body, l) in lps_.items() if cb in body and main.term(hh)["k"] == "call" and (callee_of(main.term(hh)) or "").endswith("::next")
                and re.search(r"vec::into_iter::IntoIter<u16>|slice::iter::Iter<'?\w*,? ?u16>", (main.term(hh).get("arg_tys") or [""])[0])
                and not re.search(r"adapters::", (main.term(hh).get("arg_tys") or [""])[0])]
        if len(hdrs) != 1:
            return None
        hh = hdrs[0]
        src = main.expr(main.term(hh)["args"][0], 8, stop={"named"})
        for x in list(expr_walk(src)):
            if x[0] == "local" and "IntoIter<u16>" in main.local_ty(x[1]) or x[0] == "local" and "Iter<" in main.local_ty(x[1]):
                sd_ = main.single_def(x[1])                             # the `for` desugaring names its iterator: look at what it iterates
                if sd_ and sd_[0] == "stmt":
                    src = main.rvalue_expr(sd_[3]["r"], 6, stop={"named"})
                elif sd_ and sd_[0] == "call":
                    src = ("call", callee_of(sd_[3]), tuple(main.expr(a_, 6, stop={"named"}) for a_ in sd_[3]["args"]))
        vecs = {x[1] for x in expr_walk(src) if x[0] == "local" and "Vec<u16>" in main.local_ty(x[1])}
        if len(vecs) != 1:
            return None
        v = vecs.pop()
        pushes = []
        for b_, t_, c_ in main.calls():
            if b_ in region and c_ and re.search(r"Vec::<T, A>::(push|insert|extend_from_slice|append|extend|remove|pop|truncate|clear|swap_remove|retain)$", c_):
                tgt = main.expr(t_["args"][0], 4, stop={"named"})
                if any(x[0] == "local" and x[1] == v for x in expr_walk(tgt)):
                    pushes.append((b_, t_, c_))
        if len(pushes) != 2 or not all(c_.endswith("::push") for b_, t_, c_ in pushes):
            return None
        outside = [(b_, t_) for b_, t_, c_ in pushes if not any(b_ in body for h_, (body, l) in lps_.items())]
        inside = [(b_, t_) for b_, t_, c_ in pushes if any(b_ in body for h_, (body, l) in lps_.items())]
        if len(outside) != 1 or len(inside) != 1:
            return None
        ob, ot = outside[0]
        ib, it = inside[0]
        oe = expr_str(main.expr(ot["args"][1], 12), 300)
        ie = expr_str(main.expr(it["args"][1], 12), 300)
        if "orig(" not in oe or "emit(" not in ie:
            return None
        emit_loop = [h_ for h_, (body, l) in lps_.items() if ib in body]
        if not all(main.dominates(ob, h_) for h_ in emit_loop) or not main.dominates(ob, hh) or ib in lps_[hh][0]:
            return None
        return hh
    def origin_chained():
        """the origin goes in front of the emitted words through the iterator itself: ONE loop over `once(origin).chain(words)` converts
        and writes each element; `origin` is the recorded origin or the default, `words` the vector of emitted words. Returns the header of
        that loop, else None."""
        lps_ = kit.loops(main)
        if len(conv_w) != 1:
            return None
        cb = conv_w[0][0]
        hdrs = [hh for hh, (body, l) in lps_.items() if cb in body and main.term(hh)["k"] == "call" and (callee_of(main.term(hh)) or "").endswith("::next")
                and re.search(r"adapters::chain::Chain<core::iter::sources::once::Once<u16>, *(alloc::vec::into_iter::IntoIter<u16>|core::slice::iter::Iter<)", (main.term(hh).get("arg_tys") or [""])[0])]
        if len(hdrs) != 1:
            return None
        hh = hdrs[0]
        src = main.expr(main.term(hh)["args"][0], 12, stop={"named"})
        for x in list(expr_walk(src)):
            if x[0] == "local" and "chain::Chain<" in main.local_ty(x[1]):          # the `for` desugaring names its iterator
                sd_ = main.single_def(x[1])
                if sd_ and sd_[0] == "call":
                    src = ("call", callee_of(sd_[3]), tuple(main.expr(a_, 10, stop={"named"}) for a_ in sd_[3]["args"]))
                elif sd_ and sd_[0] == "stmt":
                    src = main.rvalue_expr(sd_[3]["r"], 10, stop={"named"})
        chains = [x for x in expr_walk(src) if x[0] == "call" and re.search(r"Iterator>?::chain$", str(x[1])) and len(x[2]) == 2]
        if len(chains) != 1:
            return None
        first, second = chains[0][2]
        onces = [x for x in expr_walk(first) if x[0] == "call" and str(x[1]).endswith("iter::sources::once::once") and len(x[2]) == 1]
        if len(onces) != 1:
            return None
        head = kit.strip_refs(onces[0][2][0])
        def from_orig(e_):
            if "orig(" in expr_str(e_, 300):
                return True
            if e_[0] == "local":          # `let header = if let Some(o) = air.orig() { o } else { 0x3000 }`
                ds_ = main.defs().get(e_[1], [])
                vals = [expr_str(main.rvalue_expr(d_[3]["r"], 10), 200) if d_[0] == "stmt" else "?" for d_ in ds_]
                return bool(ds_) and any("orig(" in v_ for v_ in vals) and all("orig(" in v_ or re.fullmatch(r"(0x)?[0-9a-fA-F]+(_u16)?", v_) for v_ in vals)
            return False
        if not from_orig(head):
            return None
        vecs = {x[1] for x in expr_walk(second) if x[0] == "local" and "Vec<u16>" in main.local_ty(x[1])}
        if len(vecs) != 1:
            vs_ = {x for x in expr_walk(second) if x[0] == "call" and str(x[1]).endswith("collect")}
            return hh if vs_ and "emit" in expr_str(second, 400) else None
        v = vecs.pop()
        pushes = [(b_, t_, c_) for b_, t_, c_ in main.calls() if b_ in region and c_ and re.search(r"Vec::<T, A>::(push|insert|extend_from_slice|append|extend|remove|pop|truncate|clear|swap_remove|retain)$", c_)
                  and any(x[0] == "local" and x[1] == v for x in expr_walk(main.expr(t_["args"][0], 4, stop={"named"})))]
        if pushes:
            if len(pushes) != 1 or not pushes[0][2].endswith("::push") or "emit(" not in expr_str(main.expr(pushes[0][1]["args"][1], 12), 300):
                return None
            if not any(pushes[0][0] in body for h_, (body, l) in lps_.items()) or pushes[0][0] in lps_[hh][0]:
                return None
        elif "emit" not in expr_str(main.local_expr(v, 12), 400):
            return None
        return hh
    staged_origin = origin_staged() or origin_chained()

    # ------------------------------------------------------------------ R1
    ctx.rule("C06.R1", "one byte order: writer to_be_bytes, loader from_be_bytes([b0, b1]) over chunks of 2", floor=3)
    ctx.instance(len(conv_w))
    ok = (len(conv_w) >= 2 or staged_origin is not None) and all(c.endswith("to_be_bytes") for b, t, c in conv_w)
    ctx.oblig(ok, {"writer conversions": [short(c).rsplit("::", 1)[-1] for b, t, c in conv_w]}, "to_be_bytes only")
    if not ok:
        ctx.violation("writer-endianness", sp_file_line(main.term(units["Compile"]).get("sp")), "compile converts words with %s (expected to_be_bytes for the origin and every word)" % [short(c).rsplit("::", 1)[-1] for b, t, c in conv_w])
    # loader: chunks_exact(2) mapped through a closure calling from_be_bytes([w[0], w[1]])
    ch = [(b, t) for b, t, c in runf.calls() if c and c.endswith("chunks_exact")]
    ctx.need(len(ch) == 1, "chunks_exact in the loader")
    ok = const_int(ch[0][1]["args"][1]) == 2
    ctx.instance(1)
    ctx.oblig(ok, {"chunk size": const_int(ch[0][1]["args"][1])}, "2")
    if not ok:
        ctx.violation("chunk-size", sp_file_line(ch[0][1].get("sp")), "the loader splits the file into chunks of %s bytes (expected 2)" % const_int(ch[0][1]["args"][1]))
    # the conversion: from_be_bytes([chunk[0], chunk[1]]) on every chunk, in a `map` closure or in the body of a loop over the chunks
    cands = [runf] + [f for n, f in prog.fns.items() if n.startswith(RUN + "::{closure")]
    convs = [(f, b, t, c) for f in cands for b, t, c in f.calls() if c and re.search(r"<impl u16>::from_\w+_bytes$", c)]
    ctx.need(len(convs) == 1, "word conversion of the loader (found %d)" % len(convs))
    cf, cb_, ct_, cc_ = convs[0]
    e = cf.expr(ct_["args"][0], 10)
    idx = []
    if e[0] == "agg":
        for x in e[2]:
            ii = [y[2] for y in expr_walk(x) if y[0] == "idx"]
            idx.append(ii[0][1] if ii and ii[0][0] == "const" else (ii[0] if ii else None))
    ctx.instance(1)
    ok = cc_.endswith("from_be_bytes") and idx == [0, 1]
    ctx.oblig(ok, {"loader conversion": short(cc_).rsplit("::", 1)[-1], "byte indices": idx}, "from_be_bytes([w[0], w[1]])")
    if not ok:
        ctx.violation("loader-endianness", cf.file_line(), "the loader rebuilds words with %s over byte indices %s (expected from_be_bytes([w[0], w[1]]))" % (short(cc_).rsplit("::", 1)[-1], idx))
    # every chunk is converted, in order, and the result is what from_raw gets
    fr_call = [(b, t) for b, t, c in runf.calls() if c == FROM_RAW]
    ctx.need(len(fr_call) == 1, "from_raw call in run()")
    e = expr_str(runf.expr(fr_call[0][1]["args"][0], 14), 300)
    if cf is not runf:
        ok = "collect" in e and "map" in e and "chunks_exact" in e
        how = "chunks_exact(2).map(convert).collect()"
    else:
        # loop form: the conversion sits in a loop whose header advances the chunks_exact iterator, its result is pushed, and the pushed-to vector goes to from_raw
        lps6 = kit.loops(runf)
        hs = [h for h, (body, l) in lps6.items() if cb_ in body and runf.term(h)["k"] == "call" and (callee_of(runf.term(h)) or "").endswith("::next")
              and "ChunksExact" in " ".join(runf.term(h).get("arg_tys") or []) and not re.search(r"adapters::(?!map)", " ".join(runf.term(h).get("arg_tys") or []))]
        pushes = [b for b, t, c in runf.calls() if c and c.endswith("Vec::<T, A>::push") and hs and b in lps6[hs[0]][0]
                  and "from_be_bytes" in expr_str(runf.expr(t["args"][1], 8), 200)]
        ok = bool(hs) and len(pushes) == 1
        how = "for chunk in chunks_exact(2) { words.push(convert(chunk)) }"
    ctx.oblig(ok, {"from_raw argument": e[:120]}, how)
    if not ok:
        ctx.violation("loader-pipeline", sp_file_line(fr_call[0][1].get("sp")), "from_raw is not given the in-order conversion of the file's 2-byte chunks: %s" % e[:160])
    ctx.finish_rule()

    # ------------------------------------------------------------------ R2
    ctx.rule("C06.R2", "one default origin on both sides", floor=2)
    tf = ctx.fn("lace::runtime::RunEnvironment::try_from")
    d_run = sorted(set(kit.default_origins(prog, tf)))
    d_cmp = sorted(set(kit.default_origins(prog, main, region)))
    ctx.instance(2, {"run": [hex(x) for x in d_run], "compile": [hex(x) for x in d_cmp]})
    ok = d_run == [0x3000] and d_cmp == [0x3000]
    ctx.oblig(ok)
    if not ok:
        ctx.violation("default-origin", tf.file_line(), "default origin: running a source uses %s, compile writes %s (both must be x3000)" % ([hex(x) for x in d_run], [hex(x) for x in d_cmp]))
    # the origin both sides start from is the operand of `.orig` itself, for every value (x0000 included): set_orig records Some(value) as it
    # was given, and orig() hands the recorded Option back as it is
    so_, og_ = ctx.fn("lace::air::Air::set_orig"), ctx.fn("lace::air::Air::orig")
    ctx.instance(1)
    stores = [(b, s_) for b, i_, s_ in so_.assigns() if [e.get("n") for e in s_["p"].get("pr", []) if isinstance(e, dict) and "f" in e][-1:] == ["orig"]]
    def verbatim_some(f, s_):
        e = kit.strip_refs(f.rvalue_expr(s_["r"], 6))
        return e[0] == "agg" and e[1][0] == "adt" and e[1][2] == "Some" and len(e[2]) == 1 and kit.strip_refs(e[2][0])[:2] == ("arg", 2)
    ok = len(stores) >= 1 and all(verbatim_some(so_, s_) for b, s_ in stores)
    rets_ = [og_.rvalue_expr(s_["r"], 6) for b, i_, s_ in og_.assigns() if s_["p"]["l"] == 0 and not s_["p"].get("pr")]
    calls_ = [c for b, t, c in og_.calls()]
    ok2 = len(rets_) == 1 and not calls_ and kit.strip_refs(rets_[0])[0] == "field" and kit.strip_refs(rets_[0])[2] == "orig"
    ctx.oblig(ok and ok2, {"set_orig stores": [expr_str(so_.rvalue_expr(s_["r"], 6), 60) for b, s_ in stores], "orig() returns": [expr_str(r_, 60) for r_ in rets_]}, "Some(value) as given; the field as it is")
    if not (ok and ok2):
        ctx.violation("origin-not-verbatim", (so_ if not ok else og_).file_line(),
                      "the origin is not kept as the operand of `.orig` for every value: set_orig stores %s, orig() returns %s%s - an origin such as x0000 can be "
                      "lost or changed, and compile then writes another first word than the one the source asks for"
                      % ([expr_str(so_.rvalue_expr(s_["r"], 6), 60) for b, s_ in stores], [expr_str(r_, 60) for r_ in rets_], " through %s" % [short(c or "?") for c in calls_] if calls_ else ""))
    ctx.finish_rule()

    # ------------------------------------------------------------------ R3
    ctx.rule("C06.R3", "exactly 2(n+1) bytes are written", floor=2)
    SINK = re.compile(r"(std::io::Write>?::(write_all|write)$|Vec::<T, A>::extend_from_slice$|core::iter::traits::collect::Extend<.*>>::extend$|std::fs::write$)")
    sinks = [(b, t, c) for b, t, c in main.calls() if b in region and c and SINK.search(c)]
    lps = kit.loops(main)
    conv_sinks = {}
    for b, t, c in sinks:
        for a in t["args"][1:]:
            e = main.expr(a, 12)
            for x in expr_walk(e):
                if x[0] == "call" and x[1] and x[1].endswith("to_be_bytes"):
                    conv_sinks.setdefault(expr_str(x, 80), []).append((b, c))
    # staged form: the word is converted when it is stored (`words.push(stmt.emit()?.to_be_bytes())`) and the stored pairs are written
    # unchanged by a loop over the whole collection - each conversion still feeds exactly one write, one iteration later
    staged = {}
    for b, t, c in main.calls():
        if b in region and c and c.endswith("Vec::<T, A>::push") and "[u8; 2]" in " ".join(t.get("arg_tys") or []):
            for x in expr_walk(main.expr(t["args"][1], 12)):
                if x[0] == "call" and x[1] and x[1].endswith("to_be_bytes"):
                    staged.setdefault(expr_str(x, 80), []).append(b)
    drains = []
    if staged:
        for hh, (body, l) in lps.items():
            th = main.term(hh)
            if th["k"] == "call" and (callee_of(th) or "").endswith("::next") and "[u8; 2]" in (th.get("arg_tys") or [""])[0] \
                    and re.search(r"(vec::into_iter::IntoIter|slice::iter::Iter)<", (th.get("arg_tys") or [""])[0]) \
                    and not re.search(r"adapters::(?!(rev|enumerate|peekable|cloned|copied|fuse|inspect)::)", (th.get("arg_tys") or [""])[0]):
                inside = [(b, t, c) for b, t, c in sinks if b in body and not ("Vec" in c or "Extend" in c)]
                if len(inside) == 1 and not any(x[0] == "call" and str(x[1]).endswith("to_be_bytes") for x in expr_walk(main.expr(inside[0][1]["args"][1], 10))):
                    drains.append((hh, inside[0]))
        if len(drains) == 1:
            for k, v in staged.items():
                conv_sinks.setdefault(k, []).append((drains[0][1][0], drains[0][1][2] + " (one iteration of the drain loop per stored pair)"))
    conv_blocks = [b for b, t, c in conv_w]
    in_loop = [b for b in conv_blocks if any(b in body for h, (body, l) in lps.items())]
    once = [b for b in conv_blocks if b not in in_loop]
    ctx.instance(len(conv_blocks), {"byte conversions": {k: [short(c).rsplit("::", 1)[-1] for b, c in v] for k, v in conv_sinks.items()}})
    ok = len(conv_sinks) == len({expr_str(main.expr(t["args"][0], 6), 80) for b, t, c in conv_w}) or True
    ok = all(len(v) == 1 for v in conv_sinks.values()) and sum(len(v) for v in conv_sinks.values()) == len(conv_blocks)
    ctx.oblig(ok, {"each conversion feeds exactly one byte sink": ok}, "data flow")
    if not ok:
        ctx.violation("write-sinks", sp_file_line(main.term(units["Compile"]).get("sp")),
                      "the 2-byte conversions of the compile arm do not each feed exactly one write: %s" % {k: len(v) for k, v in conv_sinks.items()})
    h = [hh for hh, (body, l) in lps.items() if any(b in body for b in in_loop)]
    # adaptor form of the word loop: `words.iter().try_for_each(|w| file.write_all(&w.to_be_bytes()))` - the closure is the loop body; it must
    # convert once and write that once, and the iterator must be the whole word list
    closure_loop = None
    if not in_loop:
        for b_, t_, c_ in main.calls():
            if b_ not in region or not (c_ and re.search(r"Iterator>?::(try_for_each|for_each)$", c_)):
                continue
            ty0 = (t_.get("arg_tys") or [""])[0]
            if not re.search(r"(slice::iter::Iter|vec::into_iter::IntoIter)<'?\w*,? ?u16", ty0) or re.search(r"adapters::(?!(rev|enumerate|peekable|cloned|copied|fuse|inspect)::)", ty0):
                continue
            if any(x_[0] == "call" and re.search(r"(::skip|::take|::filter|::step_by|::index|::get|::split_at)$", str(x_[1])) for x_ in expr_walk(main.expr(t_["args"][0], 12))):
                continue
            for cl_ in t_["f"].get("closures", []):
                g_ = prog.fns.get(cl_[3:] if cl_.startswith("fn:") else cl_)
                if g_ is None:
                    continue
                convs = [tt for bb, tt, cc in g_.calls() if cc and re.search(r"<impl u16>::to_(be|le|ne)_bytes$", cc)]
                sinks_g = [tt for bb, tt, cc in g_.calls() if cc and SINK.search(cc)]
                if len(convs) == 1 and (callee_of(convs[0]) or "").endswith("to_be_bytes") and len(sinks_g) == 1 and not kit.loops(g_) \
                        and any(x_[0] == "call" and str(x_[1]).endswith("to_be_bytes") for x_ in expr_walk(g_.expr(sinks_g[0]["args"][1], 10))):
                    closure_loop = b_
    if closure_loop is not None:
        in_loop = [closure_loop]
        h = [closure_loop]
    ok = len(in_loop) == 1 and len(once) in (1, 2) and bool(h)
    if staged_origin is not None and len(in_loop) == 1 and not once and in_loop[0] in lps[staged_origin][0]:
        ok = True            # the origin travels as element 0 of the staged vector (origin_staged above): one conversion per element, origin first
    elif ok and closure_loop is not None:
        hb = closure_loop
        if len(once) == 2:
            a, b2 = once
            ok = a not in main.reachable(b2) and b2 not in main.reachable(a) and main.must_pass(units["Compile"], [hb], once)
        else:
            ok = main.dominates(once[0], hb)
    elif ok:
        hb = min(h, key=lambda x: len(lps[x][0]))
        if staged and len(drains) == 1 and any(in_loop[0] in main.reachable(pb) or pb == in_loop[0] or in_loop[0] in lps[hb][0] and pb in lps[hb][0] for v in staged.values() for pb in v):
            hb = drains[0][0]          # the words reach the file in the drain loop; the origin must have been written before that one
        # the origin conversion(s): exactly one on every path to the word loop
        if len(once) == 2:
            a, b2 = once
            ok = a not in main.reachable(b2) and b2 not in main.reachable(a) and main.must_pass(units["Compile"], [hb], once)
        else:
            ok = main.dominates(once[0], hb)
        nx = main.term(hb)
        ok = ok and nx["k"] == "call" and (callee_of(nx) or "").endswith("::next")
    ctx.oblig(ok, {"origin conversions": len(once), "per-word conversions in the loop": len(in_loop)}, "origin once on every path, one word per iteration")
    if not ok:
        ctx.violation("write-count", sp_file_line(main.term(units["Compile"]).get("sp")),
                      "the object file is not produced as exactly one 2-byte origin followed by one 2-byte word per statement (%d conversions outside the loop, %d inside)"
                      % (len(once), len(in_loop)))
    # the destination starts empty: a truncating opener (File::create, fs::write) or an OpenOptions chain with truncate(true)/create_new(true);
    # otherwise the tail of a longer previous object file survives and the file is not 2(n+1) bytes long
    from .c08 import OPENERS
    for b, t, c in main.calls():
        if b not in region or c not in OPENERS:
            continue
        ctx.instance(1)
        if c.endswith("OpenOptions::open"):
            e = main.expr(t["args"][0], 16)
            flags = {}
            for x in expr_walk(e):
                if x[0] == "call" and str(x[1]).startswith("std::fs::OpenOptions::") and len(x[2]) == 2 and x[2][1][0] == "const":
                    flags[str(x[1]).rsplit("::", 1)[1]] = x[2][1][1]
            ok = bool(flags.get("truncate")) or bool(flags.get("create_new"))
            how = "OpenOptions{%s}" % ", ".join("%s=%s" % kv for kv in sorted(flags.items()))
        else:
            ok = c.endswith(("File::create", "File::create_new", "fs::write"))
            how = short(c)
        ctx.oblig(ok, {"destination opened with": how}, "truncating / fresh")
        if not ok:
            ctx.violation("destination-not-truncated", sp_file_line(t.get("sp")), "the destination is opened with %s, which keeps the old contents beyond the new image: "
                          "recompiling a shorter program to the same file leaves stale words behind" % how)
    # when the bytes are collected first, the buffer goes to the destination exactly once
    vec_sinks = [x for x in sinks if "Vec" in x[2] or "Extend" in x[2]]
    file_sinks = [x for x in sinks if x not in vec_sinks]
    if vec_sinks:
        ok = len(file_sinks) == 1 and not any(file_sinks[0][0] in body for hh, (body, l) in lps.items())
        ctx.oblig(ok, {"buffered bytes written": [short(x[2]) for x in file_sinks]}, "one write of the whole buffer")
        if not ok:
            ctx.violation("buffer-write", sp_file_line(main.term(units["Compile"]).get("sp")), "the collected bytes are written %d times (expected exactly once, after the loop)" % len(file_sinks))
    ctx.finish_rule()

    # ------------------------------------------------------------------ R4
    ctx.rule("C06.R4", "loader guards (closed set of refusals) and convergence on one from_raw", floor=10)
    rems = [(b, s) for b, i, s in runf.assigns() if s["r"]["k"] == "bin" and s["r"]["op"] == "Rem"]
    ctx.instance(1)
    ok = len(rems) == 1 and const_int(rems[0][1]["r"]["b"]) == 2 and "len(" in expr_str(runf.expr(rems[0][1]["r"]["a"], 6))
    if ok:
        # ... and it is the length of the bytes that are paired into words (not the size the file system reports: a pipe or a
        # device reports 0 and delivers any number of bytes)
        def named_locals(e):
            return {x[1] for x in expr_walk(e) if x[0] == "local"}
        subj = runf.expr(rems[0][1]["r"]["a"], 8, stop={"named"})
        lens = [x for x in expr_walk(subj) if x[0] == "call" and re.search(r"(Vec::<T, A>|\[T\]>?|slice::<impl \[T\]>)::len$", str(x[1]))]
        src = runf.expr(ch[0][1]["args"][0], 8, stop={"named"})
        ok = bool(lens) and bool(named_locals(lens[0]) & named_locals(src))
        if not ok:
            ctx.oblig(False, {"odd length": "tested on %s" % expr_str(subj, 80), "paired": expr_str(src, 80)}, "the parity test reads the length of the buffer handed to chunks_exact")
            ctx.violation("alignment-subject", sp_file_line(rems[0][1].get("sp")),
                          "the odd-length test looks at `%s`, not at the length of the bytes that are paired into words (`%s`): for a pipe or device the "
                          "reported size is 0 and the stray byte is silently dropped" % (expr_str(subj, 80), expr_str(src, 80)))
            ok = True       # reported above; the dominance clause below is still checked on its own
    if ok:
        # find the switch on (len % 2 != 0) and its error edge
        okd = False
        for b in sorted(runf.live_blocks()):
            t = runf.term(b)
            if t["k"] == "switch":
                c = runf.expr(t["a"], 8)
                if c[0] == "bin" and c[1] in ("Ne", "Eq") and any(x[0] == "bin" and x[1] == "Rem" for x in expr_walk(c)):
                    tg = {v: x for v, x in t["targets"]}
                    t_true = t["otherwise"] if 0 in tg else tg.get(1)
                    t_false = tg.get(0, t["otherwise"])
                    odd_t, even_t = (t_true, t_false) if c[1] == "Ne" else (t_false, t_true)
                    errb = kit.error_blocks(runf)
                    okd = bool(runf.reachable(odd_t, avoid={even_t}) & errb) and runf.dominates(even_t, ch[0][0]) and ch[0][0] not in runf.reachable(odd_t, avoid={even_t})
        ok = okd
    ctx.oblig(ok, {"odd length": "Err before any conversion"}, "len % 2 test dominates chunks_exact")
    if not ok:
        ctx.violation("alignment-guard", runf.file_line(), "an odd-length object file is not rejected before the bytes are paired into words")
    # the whole file is read: one read_to_end on the File itself (a Take/limited reader silently drops the tail)
    rds = [(b, t, c) for b, t, c in runf.calls() if c and re.search(r"std::io::Read>?::(read_to_end|read_exact|read|read_to_string)$", c) and runf.dominates(b, ch[0][0])]
    ctx.instance(1)
    whole = [b for b, t, c in runf.calls() if c == "std::fs::read" and runf.dominates(b, ch[0][0])]
    ok = (len(rds) == 1 and rds[0][2].endswith("read_to_end") and (rds[0][1].get("arg_tys") or [""])[0].replace("&mut ", "") == "std::fs::File") \
        or (not rds and len(whole) == 1)      # fs::read(path) returns the whole file
    ctx.oblig(ok, {"object file read": [(short(c).rsplit("::", 1)[-1], (t.get("arg_tys") or [""])[0]) for b, t, c in rds] or ["fs::read"] * len(whole)}, "read_to_end on the File, or fs::read")
    if not ok:
        ctx.violation("partial-read", sp_file_line(rds[0][1].get("sp")) if rds else runf.file_line(),
                      "the loader reads the object file through %s: anything but one read_to_end on the file itself can drop part of it, so the size and alignment "
                      "guards judge a different image than the file holds" % [(short(c).rsplit("::", 1)[-1], (t.get("arg_tys") or [""])[0]) for b, t, c in rds])
    # closed set of rejections: every branch that turns a file away before/inside from_raw is one of the documented reasons
    from .c03 import _reaching
    def diverting(fn, goals):
        keep = set()
        for g in goals:
            keep |= _reaching(fn, g)
        sm = fn.succ_map()
        for b in sorted(keep):
            t = fn.term(b)
            if t["k"] != "switch":
                continue
            def diverts(x):
                if fn.term(x)["k"] == "unreachable":
                    return False
                if x not in keep:
                    return True
                # reachable in the plain CFG, but perhaps only by pairing an inlined helper's `return Err(..)` with the caller's Ok edge
                return not any(kit.feasible_path_avoiding(fn, x, g, set()) is not None for g in goals)
            if any(diverts(x) for x in sm[b]):
                yield b, t
    def has_call(e, pred):
        return any(x[0] == "call" and pred(str(x[1])) for x in expr_walk(e))
    def classify_run(e):
        if e[0] == "discr" and e[1][0] == "call" and str(e[1][1]).endswith("Try>::branch") and not any(x[0] == "call" for a in e[1][2] for x in expr_walk(a)):
            return "re-raised from a helper"          # `helper(..)?`: the helper's own refusals are classified where they are decided
        if e[0] == "discr" and has_call(e, lambda c: c.endswith("Path::extension")) and not has_call(e, lambda c: c.endswith("Try>::branch")):
            return "no extension"
        if e[0] == "call" and str(e[1]).endswith("PartialEq for str>::eq") and any(x[0] == "str" for x in expr_walk(e)):
            return "extension dispatch"
        if any(x[0] == "arg" and x[2] == "debugger_opts" for x in expr_walk(e)) and not has_call(e, lambda c: "len" in c.rsplit("::", 1)[-1]):
            return "debugger on object file"
        if e[0] == "discr" and has_call(e, lambda c: c.endswith("Try>::branch")) and has_call(e, lambda c: c.startswith("std::fs::") or "std::io::" in c):
            return "i/o error"
        if e[0] == "bin" and e[1] in ("Ne", "Eq") and any(x[0] == "bin" and x[1] == "Rem" and x[3] == ("const", 2) for x in expr_walk(e)):
            return "odd length"
        if (e[0] == "bin" and e[1] == "Eq" and ("const", 0) in (e[2], e[3]) and has_call(e, lambda c: c.endswith("::len"))) or (e[0] == "call" and str(e[1]).endswith("::is_empty")):
            return "empty"
        return None
    def classify_from_raw(e):
        if e[0] == "discr" and has_call(e, lambda c: c.endswith("split_first")):
            return "empty"                     # `let Some((first, rest)) = raw.split_first() else { .. }`
        if (e[0] == "bin" and e[1] == "Eq" and ("const", 0) in (e[2], e[3]) and has_call(e, lambda c: c.endswith("::len"))) or (e[0] == "call" and str(e[1]).endswith("::is_empty")):
            return "empty"
        if e[0] == "bin" and e[1] in ("Gt", "Ge", "Lt", "Le") and has_call(e, lambda c: c.endswith("::len")) and any(x[0] == "const" and isinstance(x[1], int) and x[1] >= 0xFFFF for x in expr_walk(e)):
            return "does not fit below 0x10000"
        return None
    fr_f = ctx.fn(FROM_RAW)
    goal_run = [b for b, t, c in runf.calls() if c == FROM_RAW]
    ctx.need(len(goal_run) == 1, "from_raw call in run()")
    seen_cls = {}
    for fn_, goals, cls, tag in ((runf, goal_run, classify_run, "run"), (fr_f, [b for b in fr_f.live_blocks() if fr_f.term(b)["k"] == "return"], classify_from_raw, "from_raw")):
        for b, t in diverting(fn_, goals):
            e = fn_.expr(t["a"], 8, stop={"named"}) if tag == "from_raw" else fn_.expr(t["a"], 8)
            k = cls(e) or cls(fn_.expr(t["a"], 12))       # a named temporary (`let end = orig + raw.len()`) must not hide the test's shape
            ctx.instance(1)
            ctx.oblig(k is not None, None)
            if k is None:
                ctx.violation("extra-rejection|%s" % tag, sp_file_line(t.get("sp")),
                              "%s turns an object file away on `%s`; the loader may only refuse a missing/unknown extension, an attached debugger, an I/O error, "
                              "an odd length, an empty file, or an image that does not fit below 0x10000" % (short(fn_.name), expr_str(e, 120)))
            else:
                seen_cls.setdefault(tag, []).append(k)
    # the source path (try_from) adds no refusal of its own before handing its image to from_raw: only a failed emit turns a program away there
    goal_tf = [b for b, t, c in tf.calls() if c == FROM_RAW]
    ctx.need(len(goal_tf) == 1, "from_raw call in try_from")
    for b, t in diverting(tf, goal_tf):
        e = tf.expr(t["a"], 10)
        ok_ = e[0] == "discr" and has_call(e, lambda c: c.endswith("Try>::branch")) and has_call(e, lambda c: c.endswith("AsmLine::emit"))
        if not ok_ and e[0] == "discr" and has_call(e, lambda c: c.endswith("Try>::branch")) and has_call(e, lambda c: re.search(r"Iterator>?::collect$", c) is not None):
            # `once(Ok(orig)).chain(statements.map(|s| s.emit())).collect::<Result<_>>()?`: the only Err an element can carry is emit's
            e2 = tf.expr(t["a"], 16)
            cl_ok, other_err = False, False
            for x in expr_walk(e2):
                if x[0] == "agg" and x[1][0] == "closure" and x[1][1] in prog.fns:
                    g_ = prog.fns[x[1][1]]
                    if [c2 for b2, t2, c2 in g_.calls()] == ["lace::air::AsmLine::emit"]:
                        cl_ok = True
                    else:
                        other_err = True
                if x[0] == "call" and str(x[1]).endswith("sources::once::once"):
                    a0 = kit.strip_refs(x[2][0]) if x[2] else ("unknown",)
                    if not (a0[0] == "agg" and a0[1][0] == "adt" and a0[1][2] == "Ok"):
                        other_err = True
            ok_ = cl_ok and not other_err
        ctx.instance(1)
        ctx.oblig(ok_, None)
        if not ok_:
            ctx.violation("extra-rejection|try_from", sp_file_line(t.get("sp")),
                          "RunEnvironment::try_from turns a program away on `%s` before loading it; the object-file path has no such test, so running a source "
                          "and running its object file no longer accept the same programs (size limits belong to from_raw, which both share)" % expr_str(e, 140))
    ok = sorted(seen_cls.get("from_raw", [])) == ["does not fit below 0x10000", "empty"] and "odd length" in seen_cls.get("run", [])
    ctx.oblig(ok, {"rejections": {k: sorted(v) for k, v in seen_cls.items()}}, "closed set of documented refusals")
    if not ok:
        ctx.violation("rejection-set", runf.file_line(), "the loader's refusals are %s; expected the odd-length test in run() and exactly the empty and too-large tests in from_raw" % seen_cls)
    # convergence
    callers = set(ctx.cg.callers(FROM_RAW))
    ctx.instance(1)
    ok = callers == {RUN, "lace::runtime::RunEnvironment::try_from"}
    ctx.oblig(ok, {"from_raw callers": sorted(short(c) for c in callers)}, "the object-file path and try_from")
    if not ok:
        ctx.violation("loader-convergence", "-", "from_raw is called from %s; running a source and running its object file must load through the same function" % sorted(short(c) for c in callers))
    # try_from hands from_raw [origin, words...]
    cc = [(b, t) for b, t, c in tf.calls() if c == FROM_RAW]
    ok = len(cc) == 1 and "air_array" in expr_str(tf.expr(cc[0][1]["args"][0], 6, stop={"named"}))
    ctx.instance(1)
    ctx.oblig(ok, {"try_from": "from_raw(air_array)"}, "the emitted image")
    if not ok:
        ctx.violation("try_from-image", tf.file_line(), "try_from does not load the image it emitted")
    # extension dispatch: lc3/obj -> loader, asm -> assembler
    from .. import tables
    st = tables.str_table(prog, runf)
    exts = sorted(l for l, v, tb, gb in st)
    ok = exts == ["asm", "lc3", "obj"]
    ctx.oblig(ok, {"extensions": exts}, "asm / lc3 / obj")
    if not ok:
        ctx.violation("extensions", runf.file_line(), "run() recognises extensions %s" % exts)
    ctx.finish_rule()

    # ------------------------------------------------------------------ R5
    run_ledger(ctx, "C06.R5", "closed panic ledger of the object-file loader", [RUN, FROM_RAW], floor=8,
               stop=["bin::assemble", "lace::runtime::RunEnvironment::try_from", "lace::runtime::RunEnvironment::run", "bin::file_message", "bin::message", "lace::set_minimal"],
               only=lambda s: s.fn.name in (RUN, FROM_RAW) or s.fn.name.startswith(RUN + "::"))
