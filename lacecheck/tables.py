"""TAB — tables extracted from MIR (never from text)."""
import re
from .facts import callee_of, place_is_local, expr_str
from . import kit


def first_value_after(fn, bb, max_hops=4):
    """the first aggregate / constant stored to a local on the straight-line path starting at bb"""
    cur = bb
    for _ in range(max_hops):
        for s in fn.stmts(cur):
            if s["k"] == "assign" and place_is_local(s["p"]):
                r = s["r"]
                if r["k"] == "agg" and r.get("ak") == "adt":
                    # prefer the outermost aggregate of the block (the last one)
                    aggs = [x for x in fn.stmts(cur) if x["k"] == "assign" and x["r"]["k"] == "agg" and x["r"].get("ak") == "adt"]
                    return fn.rvalue_expr(aggs[-1]["r"], 6), cur
                if r["k"] == "use" and r["a"].get("k") == "const" and "int" in r["a"]:
                    return ("const", r["a"]["int"]), cur
        t = fn.term(cur)
        if t["k"] == "goto":
            cur = t["t"]
            continue
        if t["k"] == "call":
            return ("call", callee_of(t), tuple(fn.expr(a, 4) for a in t["args"])), cur
        break
    return None, cur


def str_table(prog, fn):
    """[(literal, value_expr, true_bb, guard_bb)] for every `x == "lit"` test of fn, with the value built on its true edge"""
    out = []
    for gb, lit, true_bb, false_bb in kit.str_eq_guards(prog, fn):
        val, at = first_value_after(fn, true_bb)
        out.append((lit, val, true_bb, gb))
    return out


def variant_path(e):
    """'Instr(Add)' style rendering of nested unit/tuple variants"""
    if e is None:
        return None
    if e[0] == "agg" and e[1][0] == "adt":
        inner = [variant_path(x) for x in e[2]]
        inner = [x for x in inner if x is not None]
        return e[1][2] + ("(%s)" % ",".join(inner) if inner else "")
    if e[0] == "const":
        return str(e[1])
    return expr_str(e, 40)


def enum_const_table(prog, fn, adt):
    """variant -> constant stored on that variant's arm (for `match x { A => c1, B => c2 }`)"""
    out = {}
    EXTERNAL = {"core::cmp::Ordering": {-1: "Less", 0: "Equal", 1: "Greater"}}
    if adt in prog.adts:
        names = {v.get("discr", v["idx"]): v["name"] for v in prog.adts[adt]["variants"]}
    else:
        names = EXTERNAL[adt]
    switches = list(kit.discr_switches(fn, adt))
    if not switches and adt in prog.adts:
        # `*self as u16` on an enum with explicit discriminants: the table is the enum's own
        e = fn.local_expr(0, 8)
        while e[0] == "cast":
            e = e[3]
        if e[0] == "discr" and e[2] == adt:
            return {v["name"]: ("const", v.get("discr", v["idx"])) for v in prog.adts[adt]["variants"]}
    for sb, place, targets, oth in switches:
        for vi, tb in targets.items():
            val, at = first_value_after(fn, tb)
            out[names[vi]] = val
        rest = [n for i, n in names.items() if i not in targets]
        if len(rest) == 1:
            val, at = first_value_after(fn, oth)
            out[rest[0]] = val
    return out


CHAR_DOMAIN = list(range(0, 0x300)) + [0x20AC, 0x212A, 0xFF10, 0x1F600]


_WS = set(range(9, 14)) | {0x20, 0x85, 0xA0, 0x1680, 0x2028, 0x2029, 0x202F, 0x205F, 0x3000} | set(range(0x2000, 0x200B))


def _b(x):
    return 1 if x else 0


CHAR_METHODS = {
    "is_ascii_whitespace": lambda c: _b(c in (0x20, 0x09, 0x0A, 0x0C, 0x0D)),
    "is_whitespace": lambda c: _b(c in _WS),
    "is_ascii_digit": lambda c: _b(48 <= c <= 57),
    "is_ascii_hexdigit": lambda c: _b(48 <= c <= 57 or 65 <= c <= 70 or 97 <= c <= 102),
    "is_ascii_alphabetic": lambda c: _b(65 <= c <= 90 or 97 <= c <= 122),
    "is_ascii_alphanumeric": lambda c: _b(48 <= c <= 57 or 65 <= c <= 90 or 97 <= c <= 122),
    "is_ascii_uppercase": lambda c: _b(65 <= c <= 90),
    "is_ascii_lowercase": lambda c: _b(97 <= c <= 122),
    "is_ascii_punctuation": lambda c: _b(33 <= c <= 47 or 58 <= c <= 64 or 91 <= c <= 96 or 123 <= c <= 126),
    "is_ascii_graphic": lambda c: _b(33 <= c <= 126),
    "is_ascii_control": lambda c: _b(c < 32 or c == 127),
    "is_ascii": lambda c: _b(c < 128),
    "is_control": lambda c: _b(c < 32 or 127 <= c < 160),
    "is_alphabetic": lambda c: _b(chr(c).isalpha()),
    "is_alphanumeric": lambda c: _b(chr(c).isalnum()),
    "is_numeric": lambda c: _b(chr(c).isnumeric()),
}


def _pred_calls(prog, f, stack):
    """python stand-ins for what a char predicate calls: std char classes (trusted summaries) and other predicates of the program (read the same way)"""
    calls = {}
    for b, t, c in f.calls():
        if not c:
            continue
        m = re.search(r"char::methods::<impl char>::(\w+)$", c)
        if m and m.group(1) in CHAR_METHODS:
            calls[c] = (lambda fn_: (lambda *a: fn_(a[0])))(CHAR_METHODS[m.group(1)])
        elif c in prog.fns and c not in stack and prog.fns[c].arg_count == 1:
            calls[c] = (lambda n_: (lambda *a: _eval_pred(prog, n_, a[0], stack + (n_,))))(c)
    return calls


_TREES = {}


def _eval_pred(prog, name, c, stack=()):
    from . import formula
    f = prog.fns[name]
    key = (id(prog), name)
    if key not in _TREES:
        _TREES[key] = (formula.decision(f), _pred_calls(prog, f, stack + (name,)))
    tree, calls = _TREES[key]
    env = {"args": {1: c, 2: c, "ch": c, "c": c}, "prog": prog, "calls": calls, "bool_not": True}
    lab = formula.eval_decision(tree, env)
    v = formula.evaluate(lab, env) if lab is not None else None
    return 1 if v in (1, True) else (0 if v in (0, False) else v)


def char_pred_set(prog, name, domain=None):
    """{code points c of the finite domain | the char -> bool function / closure `name` returns true on c}, from its decision structure;
    calls of std character classes and of other one-argument predicates of the program are followed"""
    out = set()
    for c in (domain or CHAR_DOMAIN):
        if _eval_pred(prog, name, c) == 1:
            out.add(c)
    return out


def show_chars(cs):
    """compact rendering of a set of code points as ranges"""
    cs = sorted(cs)
    out, i = [], 0
    while i < len(cs):
        j = i
        while j + 1 < len(cs) and cs[j + 1] == cs[j] + 1:
            j += 1
        def r(c):
            return chr(c) if 32 < c < 127 else "U+%04X" % c
        out.append(r(cs[i]) if i == j else "%s-%s" % (r(cs[i]), r(cs[j])))
        i = j + 1
    return " ".join(out)

